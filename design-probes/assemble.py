import json, subprocess, re, sys
VX='/scratch/vxspan/target/release/vxspan'
cache={}
def spans(path):
    if path not in cache:
        cache[path]=(open(path,'rb').read(), json.loads(subprocess.check_output([VX,path])))
    return cache[path]
def item(path, **kw):
    src,d=spans(path)
    for e in d:
        if all(e.get(k)==v for k,v in kw.items()):
            return src[e['item'][0]:e['item'][1]].decode(), e, src
    raise SystemExit(f"lost anchor {path} {kw}")
def strip_attrs(t):
    t=re.sub(r'#\[(serde|derive|allow)\b[^\]]*\]\s*','',t, flags=re.S)
    return t
def pubfields(t):
    # make private named fields pub (R4): lines like "    name: Type," inside struct body
    out=[]
    for line in t.split('\n'):
        m=re.match(r'^(\s+)([a-z_][a-z0-9_]*)\s*:\s', line)
        if m and not line.strip().startswith('pub ') and not line.strip().startswith('//'):
            line=m.group(1)+'pub '+line[len(m.group(1)):]
        out.append(line)
    return '\n'.join(out)
def fn_with_contract(path, impl, fn, contract, loops=None):
    text,e,src=item(path, **{'impl':impl,'fn':fn})
    a,b=e['item']; sb=e['body'][0]
    pieces=[]
    # splice loop invariants (by ordinal) before the loop body '{'
    ins=[]
    ins.append((sb, '\n'+contract+'\n'))
    for k,inv in (loops or {}).items():
        lb=e['loops'][k]['body'][0]
        ins.append((lb, '\n'+inv+'\n'))
        if 'vx_it' in inv and e['loops'][k]['kind']=='for':
            ins.append((e['loops'][k]['expr'][0], 'vx_it: '))
    ins.sort()
    out=[];pos=a
    for p,t in ins:
        out.append(src[pos:p].decode()); out.append(t); pos=p
    out.append(src[pos:b].decode())
    t=''.join(out)
    t=re.sub(r'^\s*pub\(super\)\s+fn','    pub fn',t,flags=re.M)
    return t

def name_ret(t):
    # R9: name the return value: "-> T" + newline + contract  => "-> (r: T)"
    return re.sub(r'->\s*(.+?)\s*\n(\s*(requires|ensures))', lambda m: '-> (r: '+m.group(1).strip()+')\n'+m.group(2), t, count=1, flags=re.S)
