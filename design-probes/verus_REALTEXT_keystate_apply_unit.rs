
use vstd::prelude::*;
#[derive(Clone, Copy, PartialEq, Eq)] pub struct KeyIdentifier([u8; 20]);
#[derive(Clone)] pub struct ReceivedCert(Vec<u8>);
#[derive(Clone)] pub struct IssuanceRequest(Vec<u8>);
#[derive(Clone)] pub struct RepoInfo(Vec<u8>);
#[derive(Clone)] pub struct RevocationRequest(Vec<u8>);
#[derive(Clone)] pub struct ResourceClassName(Vec<u8>);
#[derive(Clone)] pub struct ParentHandle(Vec<u8>);
#[derive(Clone)] pub struct CaHandle(Vec<u8>);
#[derive(Clone)] pub struct Roas(Vec<u8>);
#[derive(Clone)] pub struct AspaObjects(Vec<u8>);
#[derive(Clone)] pub struct BgpSecCertificates(Vec<u8>);
#[derive(Clone)] pub struct ChildCertificates(Vec<u8>);
#[derive(Clone, Copy)] pub struct Time(i64);
pub struct Routes(u8); pub struct AspaDefinitions(u8); pub struct BgpSecDefinitions(u8); pub struct Config(u8); pub struct KrillSigner(u8);
pub type KrillResult<T> = Result<T, Error>;
pub type CurrentKey = CertifiedKey;
pub type NewKey = CertifiedKey;
pub use Error as KrillError;
impl ReceivedCert { pub fn key_identifier(&self) -> KeyIdentifier { unimplemented!() } }


impl Clone for CertifiedKey { fn clone(&self) -> Self { CertifiedKey { key_id: self.key_id.clone(), incoming_cert: self.incoming_cert.clone(), request: self.request.clone(), old_repo: self.old_repo.clone() } } }
impl Clone for PendingKey { fn clone(&self) -> Self { PendingKey { key_id: self.key_id.clone(), request: self.request.clone() } } }
impl Clone for OldKey { fn clone(&self) -> Self { OldKey { key: self.key.clone(), revoke_req: self.revoke_req.clone() } } }
verus! {
#[verifier::external_type_specification] #[verifier::external_body] pub struct ExKeyIdentifier(KeyIdentifier);
#[verifier::external_type_specification] #[verifier::external_body] pub struct ExReceivedCert(ReceivedCert);
#[verifier::external_type_specification] #[verifier::external_body] pub struct ExIssuanceRequest(IssuanceRequest);
#[verifier::external_type_specification] #[verifier::external_body] pub struct ExRepoInfo(RepoInfo);
#[verifier::external_type_specification] #[verifier::external_body] pub struct ExRevocationRequest(RevocationRequest);
#[verifier::external_type_specification] #[verifier::external_body] pub struct ExResourceClassName(ResourceClassName);
#[verifier::external_type_specification] #[verifier::external_body] pub struct ExParentHandle(ParentHandle);
#[verifier::external_type_specification] #[verifier::external_body] pub struct ExCaHandle(CaHandle);
#[verifier::external_type_specification] #[verifier::external_body] pub struct ExRoas(Roas);
#[verifier::external_type_specification] #[verifier::external_body] pub struct ExAspaObjects(AspaObjects);
#[verifier::external_type_specification] #[verifier::external_body] pub struct ExBgpSecCertificates(BgpSecCertificates);
#[verifier::external_type_specification] #[verifier::external_body] pub struct ExChildCertificates(ChildCertificates);
#[verifier::external_type_specification] #[verifier::external_body] pub struct ExTime(Time);
#[verifier::external_type_specification] #[verifier::external_body] pub struct ExRoutes(Routes);
#[verifier::external_type_specification] #[verifier::external_body] pub struct ExAspaDefinitions(AspaDefinitions);
#[verifier::external_type_specification] #[verifier::external_body] pub struct ExBgpSecDefinitions(BgpSecDefinitions);
#[verifier::external_type_specification] #[verifier::external_body] pub struct ExConfig(Config);
#[verifier::external_type_specification] #[verifier::external_body] pub struct ExKrillSigner(KrillSigner);
impl vstd::std_specs::cmp::PartialEqSpecImpl for KeyIdentifier {
    open spec fn obeys_eq_spec() -> bool { true }
    open spec fn eq_spec(&self, other: &KeyIdentifier) -> bool { *self == *other }
}
pub assume_specification [<KeyIdentifier as PartialEq>::eq] (a: &KeyIdentifier, b: &KeyIdentifier) -> (r: bool);
pub uninterp spec fn ki_of(c: ReceivedCert) -> KeyIdentifier;
pub assume_specification [ReceivedCert::key_identifier] (c: &ReceivedCert) -> (r: KeyIdentifier) ensures r == ki_of(*c);
pub assume_specification [<ResourceClassName as Clone>::clone] (n: &ResourceClassName) -> (r: ResourceClassName) ensures r == *n;
pub assume_specification [<ReceivedCert as Clone>::clone] (n: &ReceivedCert) -> (r: ReceivedCert) ensures r == *n;

pub enum Error { KeyUseNoMatch(KeyIdentifier), KeyUseNoOldKey, KeyUseNoNewKey, KeyRollActivatePendingRequests, VxOther }
pub enum CertAuthEvent {
    KeyPendingToNew { resource_class_name: ResourceClassName, new_key: CertifiedKey },
    KeyPendingToActive { resource_class_name: ResourceClassName, current_key: CertifiedKey },
    CertificateReceived { resource_class_name: ResourceClassName, ki: KeyIdentifier, rcvd_cert: ReceivedCert },
    KeyRollFinished { resource_class_name: ResourceClassName },
    VxOther,
}
pub assume_specification [<CertifiedKey as Clone>::clone] (c: &CertifiedKey) -> (r: CertifiedKey) ensures r == *c;
pub assume_specification [<PendingKey as Clone>::clone] (c: &PendingKey) -> (r: PendingKey) ensures r == *c;
pub assume_specification [<OldKey as Clone>::clone] (c: &OldKey) -> (r: OldKey) ensures r == *c;
pub enum Phase { Pending, Active, RollPending, RollNew, RollOld }
pub open spec fn phase(k: KeyState) -> Phase {
    match k { KeyState::Pending(_) => Phase::Pending, KeyState::Active(_) => Phase::Active, KeyState::RollPending(_, _) => Phase::RollPending,
              KeyState::RollNew(_, _) => Phase::RollNew, KeyState::RollOld(_, _) => Phase::RollOld }
}
/// A Key that is certified.
///
/// This means that the key has received an incoming certificate and has at
/// least a manifest and CRL.
//
//  *Warning:* This type is used in stored state.
pub struct CertifiedKey {
    /// The key identifier.
    pub key_id: KeyIdentifier,

    /// The certificate received from the parent for the key.
    pub incoming_cert: ReceivedCert,

    /// A request for a new certificate if there currently is one.
    pub request: Option<IssuanceRequest>,

    /// The old repository for the certifcate if we move to a new one.
    pub old_repo: Option<RepoInfo>,
}

/// A key waiting for a certificate from the parent.
///
/// This key should usually have an open [`IssuanceRequest`], and will be
/// moved to a 'new' or 'current' [`CertifiedKey`] when a certificate is
/// received.
//
//  *Warning:* This type is used in stored state.
pub struct PendingKey {
    /// The key identifier of the key.
    pub key_id: KeyIdentifier,

    /// The issuance request sent to the parent.
    pub request: Option<IssuanceRequest>,
}

/// A key that is not in use any more but has not been revoked by the parent.
pub struct OldKey {
    /// The key that is to be revoked.
    pub key: CertifiedKey,

    /// The revocation request.
    pub revoke_req: RevocationRequest,
}

/// The current set of keys for a resource class.
///
/// The type guards that keys are created, activated, rolled and retired
/// properly.
//
//  *Warning:* This type is used in stored state.
pub enum KeyState {
    /// An initial key is pending to be certified by the parent.
    Pending(PendingKey),

    /// A single key is currently active.
    Active(CurrentKey),

    /// A key roll has been started.
    ///
    /// The new key is pending to be certified by the parent.
    RollPending(PendingKey, CurrentKey),

    /// A new key has been issued by the parent.
    RollNew(NewKey, CurrentKey),

    /// The old key has not yet been revoked by the parent.
    RollOld(CurrentKey, OldKey),
}

/// A resource class of a CA.
///
/// A CA may have multiple parents, e.g. two RIRs, and it may not get all its
/// resource entitlements in one set, but in a number of so-called "resource
/// classes".
///
/// Each ResourceClass has a namespace, which can be anything, but for Krill
/// is based on the name of the parent ca, and the name of the resource class
/// under that parent.
///
/// Furthermore a resource class manages the key life cycle, and certificates
/// for each key, as well as objects that need to be issued by the 'current'
/// key for this class.
//
//  *Warning:* This type is used in stored state.
pub struct ResourceClass {
    /// The name of the resource class.
    pub name: ResourceClassName,

    /// The name space of the resource class.
    pub name_space: String,

    /// The handle of the parent CA for this resource class.
    pub parent_handle: ParentHandle,

    /// The resource class name at the parent CA for this resource class.
    pub parent_rc_name: ResourceClassName,

    /// The payload of the ROAs held by this resource class.
    pub roas: Roas,

    /// The payload of the ASPA objects held by this resource class.
    pub aspas: AspaObjects,

    /// The BGPsec certificates held by this resource class.
    pub bgpsec_certificates: BgpSecCertificates,

    /// The child certificates held by this resource class.
    pub certificates: ChildCertificates,

    /// The last time we changed our own CA key.
    pub last_key_change: Time,

    /// The current CA keys and certificates for this resource class.
    ///
    /// This value also holds the resources this resource class is entitled
    /// to through the issued certificate of the currently active key (if
    /// there is one).
    pub key_state: KeyState,
}

impl CertifiedKey {
/// Creates a new certified key from an incoming certificate.
    pub fn create(incoming_cert: ReceivedCert) -> (r: Self)
        ensures r.key_id == ki_of(incoming_cert), r.incoming_cert == incoming_cert, r.request is None,
{
        Self {
            key_id: incoming_cert.key_identifier(),
            incoming_cert,
            request: None,
            old_repo: None,
        }
    }
/// Returns the key identifier of the key.
    pub fn key_id(&self) -> (r: KeyIdentifier)
        ensures r == self.key_id,
{
        self.key_id
    }
/// Updates the certificate received for the key.
    pub fn set_incoming_cert(&mut self, cert: ReceivedCert) 
        ensures final(self).request is None, final(self).incoming_cert == cert, final(self).key_id == old(self).key_id,
{
        self.request = None;
        self.incoming_cert = cert;
    }
}

impl PendingKey {
/// Creates a new pending key for a key identifier.
    pub fn new(key_id: KeyIdentifier) -> (r: Self)
        ensures r.key_id == key_id, r.request is None,
{
        PendingKey {
            key_id,
            request: None,
        }
    }
/// Returns the key identifier for this key.
    pub fn key_id(&self) -> (r: KeyIdentifier)
        ensures r == self.key_id,
{
        self.key_id
    }
}

impl OldKey {
/// Creates an old key for the given key and revocation request.
    pub fn new(key: CertifiedKey, revoke_req: RevocationRequest) -> (r: Self)
        ensures r.key == key, r.revoke_req == revoke_req,
{
        OldKey { key, revoke_req }
    }
/// Sets the parent’s certificate for the key.
    pub fn set_incoming_cert(&mut self, cert: ReceivedCert) 
        ensures final(self).key.request is None, final(self).key.key_id == old(self).key.key_id, final(self).revoke_req == old(self).revoke_req,
{
        self.key.set_incoming_cert(cert)
    }
}

impl ResourceClass {
/// Marks a certificate as received.
    //
    //  XXX PANICS
    pub fn apply_received_cert(
        &mut self,
        key_id: KeyIdentifier,
        cert: ReceivedCert,
    ) 
        requires !(phase(old(self).key_state) is Pending),
        ensures phase(final(self).key_state) == phase(old(self).key_state),
{
        match &mut self.key_state {
            KeyState::Pending(_pending) => {
                panic!("Would have received KeyPendingToActive event")
            }
            KeyState::Active(current) => {
                current.set_incoming_cert(cert);
            }
            KeyState::RollPending(_pending, current) => {
                current.set_incoming_cert(cert);
            }
            KeyState::RollNew(new, current) => {
                if new.key_id() == key_id {
                    new.set_incoming_cert(cert);
                }
                else {
                    current.set_incoming_cert(cert);
                }
            }
            KeyState::RollOld(current, old) => {
                if current.key_id() == key_id {
                    current.set_incoming_cert(cert);
                }
                else {
                    old.set_incoming_cert(cert);
                }
            }
        }
    }
/// Adds a pending key.
    //
    //  XXX PANICS
    pub fn apply_pending_key_id_added(&mut self, key_id: KeyIdentifier) 
        requires phase(old(self).key_state) is Active,
        ensures phase(final(self).key_state) is RollPending, final(self).key_state->RollPending_1 == old(self).key_state->Active_0,
{
        match &self.key_state {
            KeyState::Active(current) => {
                let pending = PendingKey::new(key_id);
                self.key_state =
                    KeyState::RollPending(pending, current.clone())
            }
            _ => panic!(
                "Should never create event to add key when roll in progress"
            ),
        }
    }
/// Moves a pending key to new
    //
    //  XXX PANICS
    pub fn apply_pending_key_to_new(&mut self, new: CertifiedKey) 
        requires phase(old(self).key_state) is RollPending,
        ensures phase(final(self).key_state) is RollNew, final(self).key_state->RollNew_0 == new, final(self).key_state->RollNew_1 == old(self).key_state->RollPending_1,
{
        match &self.key_state {
            KeyState::RollPending(_pending, current) => {
                self.key_state = KeyState::RollNew(new, current.clone());
            }
            _ => panic!(
                "Cannot move pending to new, if state is not roll pending"
            ),
        }
    }
/// Moves a pending key to current
    //
    //  XXX PANICS
    pub fn apply_pending_key_to_active(&mut self, new: CertifiedKey) 
        requires phase(old(self).key_state) is Pending,
        ensures final(self).key_state == KeyState::Active(new),
{
        match &self.key_state {
            KeyState::Pending(_pending) => {
                self.key_state = KeyState::Active(new);
            }
            _ => panic!(
                "Cannot move pending to active, if state is not pending"
            ),
        }
    }
/// Activates the new key
    //
    //  XXX PANICS
    pub fn apply_new_key_activated(&mut self, revoke_req: RevocationRequest) 
        requires phase(old(self).key_state) is RollNew,
        ensures phase(final(self).key_state) is RollOld, final(self).key_state->RollOld_0 == old(self).key_state->RollNew_0, final(self).key_state->RollOld_1.key == old(self).key_state->RollNew_1,
{
        match &self.key_state {
            KeyState::RollNew(new, current) => {
                let old_key = OldKey::new(current.clone(), revoke_req);
                self.key_state = KeyState::RollOld(new.clone(), old_key);
            }
            _ => panic!(
                "Should never create event to activate key when \
                no roll in progress"
            ),
        }
    }
/// Removes the old key.
    ///
    /// We return the to the state where there is one active key.
    //
    //  XXX PANICS
    pub fn apply_old_key_removed(&mut self) 
        requires phase(old(self).key_state) is RollOld,
        ensures final(self).key_state == KeyState::Active(old(self).key_state->RollOld_0),
{
        match &self.key_state {
            KeyState::RollOld(current, _old) => {
                self.key_state = KeyState::Active(current.clone());
            }
            _ => panic!(
                "Should never create event to remove old key, when \
                there is none"
            ),
        }
    }
/// Finish a key roll, withdraw the old key
    pub fn process_keyroll_finish(&self) -> (r: KrillResult<CertAuthEvent>)
        ensures r is Ok ==> phase(self.key_state) is RollOld && r->Ok_0 is KeyRollFinished,
            r is Err ==> !(phase(self.key_state) is RollOld),
{
        match &self.key_state {
            KeyState::RollOld(_current, _old) => {
                Ok(CertAuthEvent::KeyRollFinished {
                    resource_class_name: self.name.clone(),
                })
            }
            _ => Err(Error::KeyUseNoOldKey),
        }
    }
/// Returns whether a key roll can be started now.
    pub fn key_roll_possible(&self) -> (r: bool)
        ensures r == (phase(self.key_state) is Active),
{
        matches!(&self.key_state, KeyState::Active(_))
    }
}
}
fn main() {}
