// dropped: no verdict in 1200 s (recursive tree construction + slice::sort under CBMC, 16 data sets x 4 queries)
// Engine K harness for src/server/bgp/riswhois.rs: the prefix tree behind the BGP analyser (RouteOriginCollection::new +
// eq_or_more_specific) against brute force.  "Every announcement inside the held resources is reported": the tree lookup for a
// prefix returns exactly the announced prefixes that are equal to it or more specific.
// BOUNDED: announcements are any subset of a 4-prefix IPv4 universe that includes the default route and prefixes in both halves of
// the address space; queries are the universe prefixes.
use super::*;
use crate::api::roa::vx_kani_k_api_roa::mk_v4;
use crate::api::roa::AsNumber;

fn universe(i: usize) -> Ipv4Prefix {
    match i {
        0 => mk_v4(0, 0),                       // 0.0.0.0/0
        1 => mk_v4(0x0a00_0000, 8),             // 10.0.0.0/8       (first bit 0)
        2 => mk_v4(0xc0a8_0000, 16),            // 192.168.0.0/16   (first bit 1)
        _ => mk_v4(0xc0a8_0100, 24),            // 192.168.1.0/24
    }
}

#[kani::proof]
#[kani::unwind(8)]
fn k_tree_lookup_small() {
    let mask: u8 = kani::any();
    kani::assume(mask < 16);
    let mut data: Vec<RouteOrigin<Ipv4Prefix>> = Vec::new();
    let mut i = 0;
    while i < 4 {
        if mask & (1 << i) != 0 { data.push(RouteOrigin { prefix: universe(i), origin: AsNumber::from_u32(64496 + i as u32) }); }
        i += 1;
    }
    let coll = match RouteOriginCollection::new(data) { Ok(c) => c, Err(_) => { assert!(false); return } };
    let qi: usize = kani::any();
    kani::assume(qi < 4);
    let q = universe(qi);
    // what the tree returns
    let mut seen: u8 = 0;
    let mut it = coll.eq_or_more_specific(q);
    let mut n = 0;
    while n < 5 {
        match it.next() {
            Some(set) => {
                let p = set.prefix();
                let mut j = 0;
                while j < 4 { if universe(j) == p { assert!(seen & (1 << j) == 0); seen |= 1 << j; } j += 1; }
            }
            None => break,
        }
        n += 1;
    }
    assert!(n < 5);
    // brute force
    let mut want: u8 = 0;
    let mut j = 0;
    while j < 4 {
        if mask & (1 << j) != 0 && (q == universe(j) || q.covers(universe(j))) { want |= 1 << j; }
        j += 1;
    }
    assert!(seen == want);
}
