use vstd::prelude::*;
verus! {
#[derive(Clone, Copy, PartialEq, Eq, Structural)]
pub struct AsNumber(pub u32);
impl AsNumber { pub const AS0: Self = AsNumber(0); }

pub trait RoutePrefix: Copy + Sized {
    spec fn covers_spec(self, other: Self) -> bool;
    spec fn len_spec(self) -> u8;
    fn covers(self, other: Self) -> (b: bool) ensures b == self.covers_spec(other);
    fn addr_len(self) -> (l: u8) ensures l == self.len_spec();
}

#[derive(Clone, Copy)]
pub struct RoaPayload { pub asn: AsNumber, pub max_length: Option<u8>, pub plen: u8 }

#[derive(Clone, Copy)]
pub struct Roa<P> { pub prefix: P, pub roa: RoaPayload }

impl<P: RoutePrefix> Roa<P> {
    pub open spec fn eml(self) -> u8 { match self.roa.max_length { Some(m) => m, None => self.prefix.len_spec() } }
    fn payload(self) -> (r: RoaPayload) ensures r == self.roa { self.roa }
    fn origin(self) -> (r: AsNumber) ensures r == self.roa.asn { self.roa.asn }
    fn max_len(self) -> (r: Option<u8>) ensures r == self.roa.max_length { self.roa.max_length }
    fn effective_max_len(self) -> (r: u8) ensures r == self.eml() {
        self.max_len().unwrap_or(self.prefix.addr_len())
    }
}

#[derive(Clone, Copy)]
pub struct RouteOrigin<P> { pub prefix: P, pub origin: AsNumber }

pub enum Validity { Valid(RoaPayload), InvalidLength, InvalidAsn, Disallowed, NotFound }

pub struct V<P> { pub route_origin: RouteOrigin<P>, pub validity: Validity, pub disallowing: Vec<RoaPayload> }

pub open spec fn matches<P: RoutePrefix>(r: Roa<P>, o: RouteOrigin<P>) -> bool {
    r.roa.asn == o.origin && r.prefix.covers_spec(o.prefix) && r.eml() >= o.prefix.len_spec()
}

impl<P: RoutePrefix> V<P> {
    fn validate(origin: RouteOrigin<P>, covering: &[Roa<P>]) -> (res: Self)
        ensures
            (res.validity is Valid) <==> (exists |i: int| 0 <= i < covering@.len() && matches(covering@[i], origin)),
            !(res.validity is NotFound),
    {
        let mut invalidating = Vec::new();
        let mut same_asn_found = false;
        let mut none_as0_found = false;
        for roa in it: covering.iter()
            invariant
                forall |i: int| 0 <= i < it.index@ ==> !matches(covering@[i], origin),
        {
            let roa = *roa;
            assert(roa == covering@[it.index@]);
            if roa.origin() == origin.origin {
                if roa.prefix.covers(origin.prefix)
                    && roa.effective_max_len() >= origin.prefix.addr_len()
                {
                    return Self {
                        route_origin: origin,
                        validity: Validity::Valid(roa.payload()),
                        disallowing: Vec::new(),
                    }
                }
                else {
                    same_asn_found = true;
                }
            }
            if roa.origin() != AsNumber::AS0 {
                none_as0_found = true;
            }
            invalidating.push(roa.payload());
        }

        Self {
            route_origin: origin,
            validity: if same_asn_found {
                Validity::InvalidLength
            }
            else if none_as0_found {
                Validity::InvalidAsn
            }
            else {
                Validity::Disallowed
            },
            disallowing: invalidating,
        }
    }
}
}
fn main() {}
