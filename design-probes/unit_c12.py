from assemble import *
import subprocess, re, json
PM='/repo/src/server/pubd/manager.rs'
def S(path, **kw): return pubfields(strip_attrs(item(path, **kw)[0]))
def fn_r12(path, impl, fn, contract):
    """R1 + R2 (format! -> vx_string()) + contract splice + R9"""
    text,e,src=item(path, **{'impl':impl,'fn':fn})
    a,b=e['item']; sb=e['body'][0]
    ev=[(sb,'i','\n'+contract+'\n')]
    for m in e['macros']:
        s0,s1=m['span']
        if m['name'] in ('error','warn','info','debug','trace'):
            if src[s1:s1+1]==b';': s1+=1
            ev.append((s0,'d',s1))
        elif m['name']=='format':
            ev.append((s0,'r',(s1,'vx_string()')))
    ev.sort(key=lambda x:x[0])
    out=[];pos=a
    for p,k,x in ev:
        out.append(src[pos:p].decode())
        if k=='i': out.append(x); pos=p
        elif k=='d': pos=x
        else: out.append(x[1]); pos=x[0]
    out.append(src[pos:b].decode())
    return name_ret(''.join(out))
outside='''
use vstd::prelude::*;
#[derive(Clone)] pub struct PublisherHandle(Vec<u8>);
pub struct Bytes(Vec<u8>);
pub struct KrillRuntime(u8); pub struct Config { pub rfc8181_log_dir: Option<String> } pub struct KrillSigner(u8);
pub struct CmsLogger(u8);
pub struct RepositoryAccessProxy(u8); pub struct RepositoryContentProxy(u8); pub struct RrdpUpdatesConfig(u8);
pub struct PublicationCms(u8);
pub struct KError(u8);
pub mod publication {
    pub struct Message(pub u8); pub struct PublishDelta(pub u8); pub struct ReportError(pub u8); pub struct ErrorReply(pub u8); pub struct ReportErrorCode(pub u8);
    impl Message { pub fn as_query(self) -> Result<super::Query, super::KError> { unimplemented!() } pub fn error(_e: ErrorReply) -> Message { unimplemented!() }
                   pub fn list_reply(_l: super::ListReply) -> Message { unimplemented!() } pub fn success() -> Message { unimplemented!() } }
    impl ReportError { pub fn with_code(_c: ReportErrorCode) -> Self { unimplemented!() } }
    impl ErrorReply { pub fn for_error(_e: ReportError) -> Self { unimplemented!() } }
    pub use super::Query;
}
pub struct ListReply(u8);
impl KrillRuntime { pub fn config(&self) -> &Config { unimplemented!() } pub fn signer(&self) -> &KrillSigner { unimplemented!() } }
impl CmsLogger { pub fn for_rfc8181_rcvd(_d: Option<&String>, _p: &PublisherHandle) -> Self { unimplemented!() }
  pub fn received(&self, _b: &Bytes) -> Result<(), KError> { unimplemented!() } pub fn reply(&self, _b: &Bytes) -> Result<(), KError> { unimplemented!() } }
impl RepositoryAccessProxy {
  pub fn decode_and_validate(&self, _p: &PublisherHandle, _b: &Bytes) -> Result<PublicationCms, KError> { unimplemented!() }
  pub fn create_response(&self, _m: publication::Message, _s: &KrillSigner) -> Result<PublicationCms, KError> { unimplemented!() } }
impl PublicationCms { pub fn into_message(self) -> publication::Message { unimplemented!() } pub fn to_bytes(&self) -> Bytes { unimplemented!() } }
impl KError { pub fn to_rfc8181_error_code(&self) -> publication::ReportErrorCode { unimplemented!() } }
pub type KrillResult<T> = Result<T, Error>;
impl From<KError> for Error { fn from(_: KError) -> Self { Error::VxOther } }
pub fn vx_string() -> String { String::new() }
'''
inside='''
#[verifier::external_type_specification] #[verifier::external_body] pub struct Ex1(PublisherHandle);
#[verifier::external_type_specification] #[verifier::external_body] pub struct Ex2(Bytes);
#[verifier::external_type_specification] #[verifier::external_body] pub struct Ex3(KrillRuntime);
#[verifier::external_type_specification] #[verifier::external_body] pub struct Ex4(KrillSigner);
#[verifier::external_type_specification] #[verifier::external_body] pub struct Ex5(CmsLogger);
#[verifier::external_type_specification] #[verifier::external_body] pub struct Ex6(RepositoryAccessProxy);
#[verifier::external_type_specification] #[verifier::external_body] pub struct Ex7(RepositoryContentProxy);
#[verifier::external_type_specification] #[verifier::external_body] pub struct Ex8(RrdpUpdatesConfig);
#[verifier::external_type_specification] #[verifier::external_body] pub struct Ex9(PublicationCms);
#[verifier::external_type_specification] #[verifier::external_body] pub struct Ex10(KError);
#[verifier::external_type_specification] #[verifier::external_body] pub struct Ex11(publication::Message);
#[verifier::external_type_specification] #[verifier::external_body] pub struct Ex12(publication::PublishDelta);
#[verifier::external_type_specification] #[verifier::external_body] pub struct Ex13(publication::ReportError);
#[verifier::external_type_specification] #[verifier::external_body] pub struct Ex14(publication::ErrorReply);
#[verifier::external_type_specification] #[verifier::external_body] pub struct Ex15(publication::ReportErrorCode);
#[verifier::external_type_specification] #[verifier::external_body] pub struct Ex16(ListReply);
#[verifier::external_type_specification] pub struct Ex17(Config);

#[derive(PartialEq, Eq, Structural)]
pub enum QueryKind { List, Delta }
pub enum Query { List, Delta(publication::PublishDelta) }
pub enum Error { Custom(String), VxOther }

// capability: established only by decode_and_validate
pub uninterp spec fn validated8181(p: PublisherHandle, b: Bytes) -> bool;
pub uninterp spec fn query_of(b: Bytes) -> Query;

pub assume_specification [vx_string] () -> (s: String);
pub assume_specification [KrillRuntime::config] (k: &KrillRuntime) -> (c: &Config);
pub assume_specification [KrillRuntime::signer] (k: &KrillRuntime) -> (c: &KrillSigner);
pub assume_specification [CmsLogger::for_rfc8181_rcvd] (d: Option<&String>, p: &PublisherHandle) -> (l: CmsLogger);
pub assume_specification [CmsLogger::received] (l: &CmsLogger, b: &Bytes) -> (r: Result<(), KError>);
pub assume_specification [CmsLogger::reply] (l: &CmsLogger, b: &Bytes) -> (r: Result<(), KError>);
pub uninterp spec fn cms_bytes(c: PublicationCms) -> Bytes;
pub uninterp spec fn msg_bytes_of(m: publication::Message) -> Bytes;
pub assume_specification [RepositoryAccessProxy::decode_and_validate] (a: &RepositoryAccessProxy, p: &PublisherHandle, b: &Bytes) -> (r: Result<PublicationCms, KError>)
    ensures r is Ok ==> validated8181(*p, *b) && cms_bytes(r->Ok_0) == *b;
pub assume_specification [RepositoryAccessProxy::create_response] (a: &RepositoryAccessProxy, m: publication::Message, s: &KrillSigner) -> (r: Result<PublicationCms, KError>);
pub assume_specification [PublicationCms::into_message] (c: PublicationCms) -> (m: publication::Message) ensures msg_bytes_of(m) == cms_bytes(c);
pub assume_specification [PublicationCms::to_bytes] (c: &PublicationCms) -> (b: Bytes);
pub assume_specification [publication::Message::as_query] (m: publication::Message) -> (r: Result<Query, KError>) ensures r is Ok ==> r->Ok_0 == query_of(msg_bytes_of(m));
pub assume_specification [publication::Message::error] (e: publication::ErrorReply) -> (m: publication::Message);
pub assume_specification [publication::ReportError::with_code] (c: publication::ReportErrorCode) -> (m: publication::ReportError);
pub assume_specification [publication::ErrorReply::for_error] (c: publication::ReportError) -> (m: publication::ErrorReply);
pub assume_specification [KError::to_rfc8181_error_code] (e: &KError) -> (c: publication::ReportErrorCode);
pub assume_specification [<Error as From<KError>>::from] (e: KError) -> (o: Error);
'''
rm=S(PM, struct='RepositoryManager')
f=fn_r12(PM,'RepositoryManager','rfc8181','        ensures true,')
print(f[:2500])

inside2 = inside.replace("pub enum Query { List, Delta(publication::PublishDelta) }","""#[derive(PartialEq, Eq)]
pub enum Query { List, Delta(publication::PublishDelta) }
impl vstd::std_specs::cmp::PartialEqSpecImpl for Query {
    open spec fn obeys_eq_spec() -> bool { true }
    open spec fn eq_spec(&self, other: &Query) -> bool { *self == *other }
}""").replace("pub enum Error { Custom(String), VxOther }","""pub enum Error { Custom(String), VxOther }
impl Error { #[verifier::external_body] pub fn to_rfc8181_error_code(&self) -> (c: publication::ReportErrorCode) { unimplemented!() } }""").replace("pub assume_specification [KError::to_rfc8181_error_code] (e: &KError) -> (c: publication::ReportErrorCode);\n","")
outside2 = outside.replace("pub mod publication {\n    pub struct Message(pub u8); pub struct PublishDelta(pub u8);","pub mod publication {\n    pub struct Message(pub u8); #[derive(PartialEq, Eq)] pub struct PublishDelta(pub u8);").replace("impl KError { pub fn to_rfc8181_error_code(&self) -> publication::ReportErrorCode { unimplemented!() } }\n","")
msgfn='''
    #[verifier::external_body]
    pub fn rfc8181_message(&self, publisher_handle: &PublisherHandle, query: Query, krill: &KrillRuntime) -> (r: KrillResult<publication::Message>)
        requires exists |b: Bytes| validated8181(*publisher_handle, b) && query == query_of(b),
    { unimplemented!() }
'''
unit=outside2+'\nverus! {\n'+inside2+rm+'\nimpl RepositoryManager {\n'+msgfn+f+'\n}\n}\nfn main() {}\n'
open('unit_c12.rs','w').write(unit)
r=subprocess.run(['verus','--edition','2024','--multiple-errors','20','unit_c12.rs'],capture_output=True,text=True)
out=r.stdout+r.stderr
print("=====RESULT")
print('\n'.join(l for l in out.split('\n') if not l.startswith('WARNING') and 'autoderive' not in l)[:5000])
