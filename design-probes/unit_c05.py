from assemble import *
import subprocess, re
ROA='/repo/src/server/ca/roa.rs'; API='/repo/src/api/roa.rs'
def S(path, **kw): return pubfields(strip_attrs(item(path, **kw)[0]))
def F(path, impl, fn, contract, loops=None): return name_ret(fn_with_contract(path, impl, fn, contract, loops))

outside = '''
use vstd::prelude::*;
use vstd::std_specs::hash::*;
use std::collections::HashMap;
#[derive(Clone)] pub struct CaHandle(String);
#[derive(Clone)] pub struct ResourceSet(Vec<u8>);
#[derive(Clone, Copy, PartialEq, Eq, Hash)] pub struct AsNumber(u32);
#[derive(Clone, Copy, PartialEq, Eq, Hash)] pub struct TypedPrefix(u128, u8, bool);
#[derive(Clone, Copy, PartialEq, Eq)] pub struct Time(i64);
pub struct RoaIpAddress(u8);
pub struct RoaDeltaError(Vec<u8>);
pub type KrillResult<T> = Result<T, Error>;
impl Default for RoaDeltaError { fn default() -> Self { RoaDeltaError(Vec::new()) } }
impl RoaDeltaError {
    pub fn add_unknown(&mut self, _p: RoaPayload) { unimplemented!() }
    pub fn add_invalid_length(&mut self, _p: RoaConfiguration) { unimplemented!() }
    pub fn add_notheld(&mut self, _p: RoaConfiguration) { unimplemented!() }
    pub fn add_duplicate(&mut self, _p: RoaConfiguration) { unimplemented!() }
    pub fn is_empty(&self) -> bool { unimplemented!() }
}
impl ResourceSet { pub fn contains_roa_address(&self, _a: &RoaIpAddress) -> bool { unimplemented!() } }
impl Time { pub fn now() -> Time { unimplemented!() } }
impl TypedPrefix { pub fn addr_len(self) -> u8 { self.1 } }
'''
ext_types=['CaHandle','ResourceSet','AsNumber','TypedPrefix','Time','RoaIpAddress','RoaDeltaError']
ext='\n'.join(f'#[verifier::external_type_specification] #[verifier::external_body] pub struct Ex{t}({t});' for t in ext_types)
assumed='''
pub uninterp spec fn held(r: ResourceSet, p: RoaPayload) -> bool;
pub uninterp spec fn err_count(e: RoaDeltaError) -> nat;
pub uninterp spec fn plen(p: TypedPrefix) -> u8;
pub uninterp spec fn is_v4(p: TypedPrefix) -> bool;
pub uninterp spec fn addr_of(p: RoaPayload) -> RoaIpAddress;

pub assume_specification [<RoaDeltaError as Default>::default] () -> (r: RoaDeltaError) ensures err_count(r) == 0;
pub assume_specification [RoaDeltaError::add_unknown] (e: &mut RoaDeltaError, p: RoaPayload) ensures err_count(*final(e)) == err_count(*old(e)) + 1;
pub assume_specification [RoaDeltaError::add_invalid_length] (e: &mut RoaDeltaError, p: RoaConfiguration) ensures err_count(*final(e)) == err_count(*old(e)) + 1;
pub assume_specification [RoaDeltaError::add_notheld] (e: &mut RoaDeltaError, p: RoaConfiguration) ensures err_count(*final(e)) == err_count(*old(e)) + 1;
pub assume_specification [RoaDeltaError::add_duplicate] (e: &mut RoaDeltaError, p: RoaConfiguration) ensures err_count(*final(e)) == err_count(*old(e)) + 1;
pub assume_specification [RoaDeltaError::is_empty] (e: &RoaDeltaError) -> (b: bool) ensures b == (err_count(*e) == 0);
pub assume_specification [ResourceSet::contains_roa_address] (r: &ResourceSet, a: &RoaIpAddress) -> (b: bool);
pub assume_specification [<CaHandle as Clone>::clone] (h: &CaHandle) -> (r: CaHandle) ensures r == *h;
pub assume_specification [Time::now] () -> (r: Time);
pub assume_specification [TypedPrefix::addr_len] (p: TypedPrefix) -> (r: u8) ensures r == plen(p);

pub enum Error { RoaDeltaError(CaHandle, RoaDeltaError), VxOther }
pub enum CertAuthEvent {
    RouteAuthorizationAdded { auth: RoaPayloadJsonMapKey },
    RouteAuthorizationComment { auth: RoaPayloadJsonMapKey, comment: Option<String> },
    RouteAuthorizationRemoved { auth: RoaPayloadJsonMapKey },
    VxOther,
}
'''
body=[]
body.append('#[derive(Clone, Copy, PartialEq, Eq, Hash)]\n'+S(API, struct='RoaPayload'))
body.append('#[derive(Clone, Copy, PartialEq, Eq, Hash)]\n'+S(API, struct='RoaPayloadJsonMapKey').replace('pub struct RoaPayloadJsonMapKey(RoaPayload);','pub struct RoaPayloadJsonMapKey(pub RoaPayload);'))
body.append('#[derive(Clone)]\n'+S(API, struct='RoaConfiguration'))
body.append(S(API, struct='RoaConfigurationUpdates'))
body.append('#[derive(Clone)]\n'+S(ROA, struct='RouteInfo'))
body.append('#[derive(Clone)]\n'+S(ROA, struct='Routes'))
print('\n\n'.join(body))
open('items05.txt','w').write('\n\n'.join(body))
