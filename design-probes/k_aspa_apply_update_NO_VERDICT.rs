// dropped from kani/k_aspa_def.rs: no verdict in 600 s (Vec::retain + slice::sort under CBMC), 2 providers, 1 added, 1 removed
#[kani::proof]
#[kani::unwind(6)]
fn k_aspa_apply_update_is_set_update() {
    let mut def = AspaDefinition { customer: any_asn(), providers: list2() };
    let before = def.providers.clone();
    let customer = def.customer;
    let update = AspaProvidersUpdate { added: list1(), removed: list1() };
    def.apply_update(&update);
    assert!(def.customer == customer);
    // provider SET afterwards == (before \ removed) + added, for every AS number
    let q = any_asn();
    let expected = has(&update.added, q) || (has(&before, q) && !has(&update.removed, q));
    assert!(has(&def.providers, q) == expected);
}
