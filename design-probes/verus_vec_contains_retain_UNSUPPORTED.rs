use vstd::prelude::*;
verus! {
fn f_misc(v: &mut Vec<u32>, x: u32, o: Option<u32>) -> (r: bool) {
    let c = v.contains(&x);
    let y = o.map(|z| z > 3).unwrap_or(true);
    v.retain(|e| *e != x);
    c && y
}
}
fn main() {}
