// Engine K harness for src/commons/eventsourcing/store.rs: the paging of the command history takes `rows` and `offset` from path
// segments of GET /api/v1/cas/<ca>/history/commands/<rows>/<offset> (any usize a client cares to send).  No value may panic
// (finding F11: `Vec::with_capacity(rows)` -> "capacity overflow").  Full domain for rows / offset; the record list is empty
// (BOUNDED in that respect: the reservation and the arithmetic do not depend on the records beyond their number).
use super::*;
use crate::api::history::{CommandHistoryCriteria, CommandHistoryRecord};

#[kani::proof]
fn k_history_paging_any_rows_and_offset() {
    let criteria = CommandHistoryCriteria {
        before: None, after: None, after_version: None, label_includes: None, label_excludes: None,
        offset: kani::any(), rows_limit: kani::any(),
    };
    let offset = criteria.offset;
    let records: [CommandHistoryRecord; 0] = [];
    let h = AggregateStore::<crate::server::ca::CertAuth>::command_history_for_records(criteria, &records);
    assert!(h.total == 0);
    assert!(h.offset == offset);
    assert!(h.commands.is_empty());
}
