use vstd::prelude::*;
use std::collections::{HashMap, VecDeque};
verus! {
fn f_ref(m: &HashMap<u32, u64>) -> (s: u64) {
    let mut acc: u64 = 0;
    for (k, v) in m { if *v > acc { acc = *v; } }
    acc
}
}
fn main() {}
