
use vstd::prelude::*;
use vstd::std_specs::hash::*;
use std::collections::HashMap;
// ---- opaque externals (assumed) ----
#[derive(Clone, PartialEq, Eq, Hash)] pub struct ObjectName(std::sync::Arc<str>);
#[derive(Clone)] pub struct Base64(std::sync::Arc<str>);
#[derive(Clone, Copy, PartialEq, Eq)] pub struct Hash([u8; 32]);
#[derive(Clone, Copy, PartialEq, Eq)] pub struct Serial(u128);
#[derive(Clone, Copy, PartialEq, Eq)] pub struct Time(i64);
#[derive(Clone, Copy, PartialEq, Eq)] pub struct Validity(i64, i64);
#[derive(Clone, Copy, PartialEq, Eq, Hash)] pub struct KeyIdentifier([u8; 20]);
#[derive(Clone)] pub struct ResourceSet(Vec<u8>);
#[derive(Clone)] pub struct RequestResourceLimit(Vec<u8>);
#[derive(Clone)] pub struct Name(Vec<u8>);
#[derive(Clone)] pub struct CsrInfo(Vec<u8>);
#[derive(Clone)] pub struct RepositoryContact(Vec<u8>);
#[derive(Clone)] pub struct PublishedManifest(Vec<u8>);
#[derive(Clone)] pub struct PublishedCrl(Vec<u8>);
#[derive(Clone, Copy)] pub struct ObjectSetRevision(u64);
pub mod uri { #[derive(Clone)] pub struct Rsync(Vec<u8>); }
pub mod rrdp { pub use super::Hash; }
#[derive(Clone)] pub struct Issued; #[derive(Clone)] pub struct Suspended; #[derive(Clone)] pub struct Unsuspended; #[derive(Clone)] pub struct Received;
#[derive(Clone)] pub struct PublishedItemOther;
pub type ReceivedCert = CertInfo<Received>;
pub type IssuedCertificate = CertInfo<Issued>;
pub type SuspendedCert = CertInfo<Suspended>;
pub type UnsuspendedCert = CertInfo<Unsuspended>;
pub type PublishedObject = PublishedItem<PublishedItemOther>;
pub type KrillResult<T> = Result<T, Error>;
pub struct Error;

impl ObjectName { pub fn from_key(_ki: &KeyIdentifier, _extension: &str) -> Self { unimplemented!() } }
impl Base64 { pub fn to_hash(&self) -> Hash { unimplemented!() } }
impl Validity { pub fn not_after(&self) -> Time { unimplemented!() } }
impl Time { pub fn now() -> Time { unimplemented!() } }

verus! {
#[verifier::external_type_specification] #[verifier::external_body] pub struct ExObjectName(ObjectName);
#[verifier::external_type_specification] #[verifier::external_body] pub struct ExBase64(Base64);
#[verifier::external_type_specification] #[verifier::external_body] pub struct ExHash(Hash);
#[verifier::external_type_specification] #[verifier::external_body] pub struct ExSerial(Serial);
#[verifier::external_type_specification] #[verifier::external_body] pub struct ExTime(Time);
#[verifier::external_type_specification] #[verifier::external_body] pub struct ExValidity(Validity);
#[verifier::external_type_specification] #[verifier::external_body] pub struct ExKeyIdentifier(KeyIdentifier);
#[verifier::external_type_specification] #[verifier::external_body] pub struct ExResourceSet(ResourceSet);
#[verifier::external_type_specification] #[verifier::external_body] pub struct ExRequestResourceLimit(RequestResourceLimit);
#[verifier::external_type_specification] #[verifier::external_body] pub struct ExName(Name);
#[verifier::external_type_specification] #[verifier::external_body] pub struct ExCsrInfo(CsrInfo);
#[verifier::external_type_specification] #[verifier::external_body] pub struct ExRepositoryContact(RepositoryContact);
#[verifier::external_type_specification] #[verifier::external_body] pub struct ExPublishedManifest(PublishedManifest);
#[verifier::external_type_specification] #[verifier::external_body] pub struct ExPublishedCrl(PublishedCrl);
#[verifier::external_type_specification] #[verifier::external_body] pub struct ExObjectSetRevision(ObjectSetRevision);
#[verifier::external_type_specification] #[verifier::external_body] pub struct ExIssued(Issued);
#[verifier::external_type_specification] #[verifier::external_body] pub struct ExSuspended(Suspended);
#[verifier::external_type_specification] #[verifier::external_body] pub struct ExUnsuspended(Unsuspended);
#[verifier::external_type_specification] #[verifier::external_body] pub struct ExReceived(Received);
#[verifier::external_type_specification] #[verifier::external_body] pub struct ExPublishedItemOther(PublishedItemOther);
#[verifier::external_type_specification] #[verifier::external_body] pub struct ExError(Error);
#[verifier::external_type_specification] #[verifier::external_body] pub struct ExRsync(uri::Rsync);

// ---- assumed specs of externals ----
pub uninterp spec fn name_of_key(k: KeyIdentifier, ext: Seq<char>) -> ObjectName;
pub uninterp spec fn hash_of(b: Base64) -> Hash;
pub uninterp spec fn not_after(v: Validity) -> Time;
pub uninterp spec fn time_gt_now(t: Time) -> bool;

pub assume_specification [ObjectName::from_key] (ki: &KeyIdentifier, extension: &str) -> (r: ObjectName)
    ensures r == name_of_key(*ki, extension@);
pub assume_specification [<ObjectName as Clone>::clone] (n: &ObjectName) -> (r: ObjectName) ensures r == *n;
pub assume_specification [<Base64 as Clone>::clone] (n: &Base64) -> (r: Base64) ensures r == *n;
pub assume_specification [Base64::to_hash] (b: &Base64) -> (r: Hash) ensures r == hash_of(*b);
pub assume_specification [Validity::not_after] (v: &Validity) -> (r: Time) ensures r == not_after(*v);
pub assume_specification [Time::now] () -> (r: Time);
/// Information for an entry on a CRL.
//
//  *Warning:* This type is used in stored state.
pub struct Revocation {
    /// The serial number of the certificate to be revoked.
    pub serial: Serial,

    /// The revocation date.
    ///
    /// This is the "revocationDate" as described in section 5.1 of RFC 5280.
    ///
    /// It is set to the time that this object was first created, but it will
    /// be persisted for future use. There is no support for future or past
    /// dating this time.
    pub revocation_date: Time,

    /// The expiry time of the revoked object.
    ///
    /// This is used to determine when a CRL entry can be deleted because it
    /// is no longer relevant.
    pub expires: Time,
}

impl Revocation {
pub fn new(serial: Serial, expires: Time) -> (r: Self)
        ensures r.serial == serial, r.expires == expires,
{
        Revocation {
            serial,
            revocation_date: Time::now(),
            expires,
        }
    }
}

/// The list of revocation entries of a CRL.
//
//  *Warning:* This type is used in stored state.
pub struct Revocations(pub Vec<Revocation>);

/// All information about an RPKI CA certificate.
///
/// For robustness, we keep all information about the certificate in this
/// separate type rather than just storing the final certificate.
///
/// This type is generic over a marker type `T` indicating the status of the
/// certificate.
//
//  *Warning:* This type is used in stored state.
pub struct CertInfo<T> {
    /// Where this certificate is published by the parent
    pub uri: uri::Rsync,

    /// The name of this certificate as used on a manifest
    pub name: ObjectName,

    /// The resources assigned to the CA.
    pub resources: ResourceSet,

    /// The resource limit on the signing request.
    ///
    /// The default is to have no limit.
    pub limit: RequestResourceLimit,

    /// The subject chosen by the parent.
    ///
    /// Note that Krill will derive the subject from the public key, but
    /// other parents may use a different strategy.
    pub subject: Name,

    /// The validity time for this certificate.
    pub validity: Validity,

    /// The serial number of this certificate.
    ///
    /// This is needed for revocation.
    pub serial: Serial,

    /// The certifcate signing request for the certificate.
    ///
    /// This contains the public key and SIA.
    pub csr_info: CsrInfo,

    /// The actual encoded certificate.
    pub base64: Base64,

    /// The SHA-256 hash of the encoded certificate.
    pub hash: Hash,

    /// Marker for the certificate type.
    pub marker: std::marker::PhantomData<T>,
}

impl<T> CertInfo<T> {
/// Returns the expiry time of the certificate.
    pub fn expires(&self) -> (r: Time)
        ensures r == not_after(self.validity),
{
        self.validity.not_after()
    }
}

/// Describes an update to the set of ROAs under a ResourceClass.
//
//  *Warning:* This type is used in stored state.
pub struct ChildCertificateUpdates {
    /// Issued certificates that have been added.
    ///
    /// Note that these are typically newly issued certificates, but can
    /// also be a previously issued certificates which have been suspended
    /// and are now unsuspended.
    pub issued: Vec<IssuedCertificate>,

    /// Key identifiers of certificates that have been removed.
    ///
    /// Added keys will be revoked.
    pub removed: Vec<KeyIdentifier>,

    /// The certificates that have been suspended.
    pub suspended: Vec<SuspendedCert>,

    /// The certificates that have been unsuspended.
    ///
    /// This is no longer used as of Krill 0.16.0, but kept because it is in
    /// stored state.
    pub unsuspended: Vec<UnsuspendedCert>,
}

/// Any item published in the repository.
///
/// The concrete type of object is provided through the marker type `T`. This
/// is only used to make sure we add objects in the right place.
//
//  *Warning:* This type is used in stored state.
pub struct PublishedItem<T> {
    /// The name of the object.
    pub name: ObjectName,

    /// The content of the object.
    pub base64: Base64,

    /// The RRDP hash of the object.
    ///
    /// This is derived from `base64` but kept for faster access.
    pub hash: rrdp::Hash,

    /// The serial number of the certificate the object is signed with.
    pub serial: Serial,

    /// The expiry time of the object.
    pub expires: Time,

    /// A marker for the object type.
    pub marker: std::marker::PhantomData<T>,
}

/// Maintains the set of objects published for a key.
//
//  *Warning:* This type is used in stored state.
pub struct KeyObjectSet {
    /// The latest received certificate for the owning key.
    ///
    /// This is used when signing a new manifest and CRL.
    pub signing_cert: ReceivedCert,

    /// The revision of the set.
    ///
    /// Its number and the "this update" and "next update" values used on the
    /// manifest and CRL.
    pub revision: ObjectSetRevision,

    /// The revocations that need go on the CRL.
    ///
    /// The CRL object has no convenient access to this, so we keep that
    /// immutable. Whenever we re-issue, we create a new CRL using these
    /// revocations.
    ///
    /// When objects are replaced or removed we add a revocation. When
    /// publishing revocations for expired certificates are removed.
    pub revocations: Revocations,

    /// The last manifest generated for this set.
    ///
    /// When a set is first created, we will have a manifest and a CRL, but
    /// it will have an empty map of "published_objects".
    ///
    /// A new manifest is generated when we re-issue the set. This may happen
    /// when published objects are added/updated/removed, or in case, well
    /// some time before, the manifest and CRL would expire.
    pub manifest: PublishedManifest,

    /// The last CRL generated for this set.
    ///
    /// We always generate the manifest and CRL together. When we re-issue a
    /// set we first generate a new CRL which will revoke the previous
    /// manifest. The CRL (name and hash) is included in the new manifest.
    ///
    /// Strictly speaking this revocation could be considered redundant,
    /// because the new CRL will not be considered valid (hash mismatch)
    /// under the old manifest. So, a Relying Party will only consider
    /// the CRL when it is using the new manifest.
    pub crl: PublishedCrl,

    /// The published objects of this set.
    ///
    /// Will be empty if the owning key is not "current". I.e., this is empty
    /// when a new KeyObjectSet is created (new staging key for a key roll,
    /// or the first certified key under a new resource class).
    ///
    /// The "current" key will see updates to the published objects.
    ///
    /// When a key becomes "old" - just before it is subsequently removed -
    /// when it is replaced as part of a key roll, then `retire` is called
    /// on the set: all objects are revoked, and then this becomes empty
    /// again.
    published_objects: HashMap<ObjectName, PublishedObject>,

    /// The old repository this key publishes to.
    ///
    /// We implement repository migration as a key roll where the new
    /// key uses the new (then default) repository. Existing keys will
    /// keep track of the old repository contact using this following
    /// field so that they can continue to publish / withdraw there,
    /// until they (the owning key) are complete removed when the key
    /// rollover is finished.
    pub old_repo: Option<RepositoryContact>,
}
pub open spec fn rev_id(r: Revocation) -> (Serial, Time) { (r.serial, r.expires) }
impl Revocations {
    pub open spec fn has(&self, id: (Serial, Time)) -> bool { exists |i: int| 0 <= i < self.0@.len() && rev_id(#[trigger] self.0@[i]) == id }
}
impl<T> PublishedItem<T> {
    pub open spec fn rid(&self) -> (Serial, Time) { (self.serial, self.expires) }
}
impl Revocations {
/// Adds a revociation entry to the list.
    ///
    /// The entry is added at the end of the list.
    pub fn add(&mut self, revocation: Revocation) 
        ensures forall |id: (Serial, Time)| final(self).has(id) <==> (old(self).has(id) || id == rev_id(revocation)),
{
        self.0.push(revocation);
        proof {
            assert(self.0@ == old(self).0@.push(revocation));
            assert forall |id: (Serial, Time)| self.has(id) <==> (old(self).has(id) || id == rev_id(revocation)) by {
                if old(self).has(id) {
                    let i = choose |i: int| 0 <= i < old(self).0@.len() && rev_id(#[trigger] old(self).0@[i]) == id;
                    assert(self.0@[i] == old(self).0@[i]);
                }
                if id == rev_id(revocation) { assert(self.0@[old(self).0@.len() as int] == revocation); }
                if self.has(id) {
                    let i = choose |i: int| 0 <= i < self.0@.len() && rev_id(#[trigger] self.0@[i]) == id;
                    if i < old(self).0@.len() { assert(old(self).0@[i] == self.0@[i]); }
                }
            }
        }

    }
}

impl<T> PublishedItem<T> {
/// Creates a new published object.
    pub fn new(
        name: ObjectName,
        base64: Base64,
        serial: Serial,
        expires: Time,
    ) -> (r: Self)
        ensures r.name == name, r.base64 == base64, r.serial == serial, r.expires == expires, r.hash == hash_of(base64),
{
        let hash = base64.to_hash();

        PublishedItem {
            name,
            base64,
            hash,
            serial,
            expires,
            marker: std::marker::PhantomData,
        }
    }
/// Returns a revocation for the object.
    pub fn revoke(&self) -> (r: Revocation)
        ensures rev_id(r) == self.rid(),
{
        Revocation::new(self.serial, self.expires)
    }
}

impl PublishedObject {
/// Creates a published child CA certificate.
    pub fn for_cert_info<T>(cert: &CertInfo<T>) -> (r: Self)
        ensures r.name == cert.name, r.serial == cert.serial, r.expires == not_after(cert.validity),
{
        PublishedObject::new(
            cert.name.clone(),
            cert.base64.clone(),
            cert.serial,
            cert.expires(),
        )
    }
}

impl KeyObjectSet {
/// Updates the child CA certificates.
    fn update_certs(&mut self, cert_updates: &ChildCertificateUpdates) 
        requires obeys_key_model::<ObjectName>(), cert_updates.unsuspended@.len() == 0,
        ensures
            forall |id: (Serial, Time)| old(self).revocations.has(id) ==> final(self).revocations.has(id),
            forall |n: ObjectName| old(self).published_objects@.contains_key(n)
                && (!final(self).published_objects@.contains_key(n)
                    || final(self).published_objects@[n] != old(self).published_objects@[n])
                ==> #[trigger] final(self).revocations.has(old(self).published_objects@[n].rid()),
{
        for removed in &cert_updates.removed 
            invariant
                obeys_key_model::<ObjectName>(), cert_updates.unsuspended@.len() == 0,
                forall |id: (Serial, Time)| old(self).revocations.has(id) ==> self.revocations.has(id),
                forall |n: ObjectName| old(self).published_objects@.contains_key(n)
                    && (!self.published_objects@.contains_key(n)
                        || self.published_objects@[n] != old(self).published_objects@[n])
                    ==> #[trigger] self.revocations.has(old(self).published_objects@[n].rid()),

{
            let name = ObjectName::from_key(removed, "cer");
            if let Some(old) = self.published_objects.remove(&name) {
                self.revocations.add(old.revoke());
            }
        }

        for issued in &cert_updates.issued 
            invariant
                obeys_key_model::<ObjectName>(), cert_updates.unsuspended@.len() == 0,
                forall |id: (Serial, Time)| old(self).revocations.has(id) ==> self.revocations.has(id),
                forall |n: ObjectName| old(self).published_objects@.contains_key(n)
                    && (!self.published_objects@.contains_key(n)
                        || self.published_objects@[n] != old(self).published_objects@[n])
                    ==> #[trigger] self.revocations.has(old(self).published_objects@[n].rid()),

{
            let published_object = PublishedObject::for_cert_info(issued);
            if let Some(old) = self
                .published_objects
                .insert(issued.name.clone(), published_object)
            {
                self.revocations.add(old.revoke());
            }
        }

        // Since Krill 0.16 suspended certificates will reissued rather than 
        // unsuspended, so this does nothing anymore except for migrations.
        for cert in &cert_updates.unsuspended 
            invariant
                obeys_key_model::<ObjectName>(), cert_updates.unsuspended@.len() == 0,
                forall |id: (Serial, Time)| old(self).revocations.has(id) ==> self.revocations.has(id),
                forall |n: ObjectName| old(self).published_objects@.contains_key(n)
                    && (!self.published_objects@.contains_key(n)
                        || self.published_objects@[n] != old(self).published_objects@[n])
                    ==> #[trigger] self.revocations.has(old(self).published_objects@[n].rid()),

{
            let published_object = PublishedObject::for_cert_info(cert);
            self.published_objects.insert(
                cert.name.clone(), published_object
            );
        }

        for suspended in &cert_updates.suspended 
            invariant
                obeys_key_model::<ObjectName>(), cert_updates.unsuspended@.len() == 0,
                forall |id: (Serial, Time)| old(self).revocations.has(id) ==> self.revocations.has(id),
                forall |n: ObjectName| old(self).published_objects@.contains_key(n)
                    && (!self.published_objects@.contains_key(n)
                        || self.published_objects@[n] != old(self).published_objects@[n])
                    ==> #[trigger] self.revocations.has(old(self).published_objects@[n].rid()),

{
            if let Some(old) = self.published_objects.remove(&suspended.name)
            {
                self.revocations.add(old.revoke());
            }
        }
    }
}
}
fn main() {}
