use syn::visit::Visit;
use syn::spanned::Spanned;
use serde_json::json;
struct V { cur_impl: Option<String>, out: Vec<serde_json::Value> }
fn ty_name(t: &syn::Type) -> String {
    match t { syn::Type::Path(p) => p.path.segments.last().map(|s| s.ident.to_string()).unwrap_or_default(), _ => String::new() }
}
struct L { loops: Vec<serde_json::Value>, macros: Vec<serde_json::Value> }
impl<'ast> Visit<'ast> for L {
    fn visit_expr_for_loop(&mut self, l: &'ast syn::ExprForLoop) {
        self.loops.push(json!({"kind":"for","span":[l.span().byte_range().start,l.span().byte_range().end],"body":[l.body.span().byte_range().start,l.body.span().byte_range().end],"expr":[l.expr.span().byte_range().start,l.expr.span().byte_range().end]}));
        syn::visit::visit_expr_for_loop(self, l);
    }
    fn visit_expr_while(&mut self, l: &'ast syn::ExprWhile) {
        self.loops.push(json!({"kind":"while","body":[l.body.span().byte_range().start,l.body.span().byte_range().end]}));
        syn::visit::visit_expr_while(self, l);
    }
    fn visit_expr_loop(&mut self, l: &'ast syn::ExprLoop) {
        self.loops.push(json!({"kind":"loop","body":[l.body.span().byte_range().start,l.body.span().byte_range().end]}));
        syn::visit::visit_expr_loop(self, l);
    }
    fn visit_macro(&mut self, m: &'ast syn::Macro) {
        self.macros.push(json!({"name": m.path.segments.last().unwrap().ident.to_string(), "span":[m.span().byte_range().start,m.span().byte_range().end]}));
    }
}
impl<'ast> Visit<'ast> for V {
    fn visit_item_impl(&mut self, i: &'ast syn::ItemImpl) {
        let old = self.cur_impl.take();
        self.cur_impl = Some(ty_name(&i.self_ty));
        syn::visit::visit_item_impl(self, i);
        self.cur_impl = old;
    }
    fn visit_impl_item_fn(&mut self, f: &'ast syn::ImplItemFn) {
        let mut l = L { loops: vec![], macros: vec![] };
        l.visit_block(&f.block);
        let r = f.span().byte_range(); let b = f.block.span().byte_range(); let s = f.sig.span().byte_range();
        self.out.push(json!({"impl": self.cur_impl, "fn": f.sig.ident.to_string(), "item":[r.start,r.end], "sig":[s.start,s.end], "body":[b.start,b.end], "loops": l.loops, "macros": l.macros}));
    }
    fn visit_item_struct(&mut self, s: &'ast syn::ItemStruct) {
        let r = s.span().byte_range();
        self.out.push(json!({"struct": s.ident.to_string(), "item":[r.start,r.end]}));
    }
    fn visit_item_enum(&mut self, s: &'ast syn::ItemEnum) {
        let r = s.span().byte_range();
        self.out.push(json!({"enum": s.ident.to_string(), "item":[r.start,r.end]}));
    }
}
fn main() {
    let p = std::env::args().nth(1).unwrap();
    let src = std::fs::read_to_string(&p).unwrap();
    let file = syn::parse_file(&src).unwrap();
    let mut v = V { cur_impl: None, out: vec![] };
    v.visit_file(&file);
    println!("{}", serde_json::to_string(&v.out).unwrap());
}
