use syn::visit::Visit;
use syn::spanned::Spanned;
struct V { out: Vec<String> }
impl<'ast> Visit<'ast> for V {
    fn visit_impl_item_fn(&mut self, f: &'ast syn::ImplItemFn) {
        let s = f.span(); let b = f.block.span();
        self.out.push(format!("fn {} item {:?}-{:?} body {:?}", f.sig.ident, s.byte_range(), (), b.byte_range()));
        syn::visit::visit_impl_item_fn(self, f);
    }
    fn visit_expr_for_loop(&mut self, l: &'ast syn::ExprForLoop) {
        self.out.push(format!("  for-loop body at {:?}", l.body.span().byte_range()));
        syn::visit::visit_expr_for_loop(self, l);
    }
    fn visit_stmt_macro(&mut self, m: &'ast syn::StmtMacro) {
        self.out.push(format!("  stmt-macro {} at {:?}", m.mac.path.segments.last().unwrap().ident, m.span().byte_range()));
    }
}
fn main() {
    let p = std::env::args().nth(1).unwrap();
    let src = std::fs::read_to_string(&p).unwrap();
    let file = syn::parse_file(&src).unwrap();
    let mut v = V { out: vec![] };
    v.visit_file(&file);
    for l in v.out.iter().take(40) { println!("{l}"); }
    println!("total {}", v.out.len());
}
