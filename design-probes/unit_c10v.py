from unit_c10 import fn_r1, S, RR
from assemble import *
import subprocess
outside='''
#![feature(allocator_api)]
#![feature(sized_hierarchy)]
use vstd::prelude::*;
use vstd::std_specs::hash::*;
use std::collections::HashMap;
pub mod uri { #[derive(Clone, PartialEq, Eq, Hash)] pub struct Rsync(pub Vec<u8>);
  impl Rsync { pub fn is_parent_of(&self, _o: &Rsync) -> bool { unimplemented!() } } }
#[derive(Clone, PartialEq, Eq)] pub struct Base64(std::sync::Arc<str>);
impl Base64 { pub fn to_hash(&self) -> Hash { unimplemented!() } }
#[derive(Clone, Copy, PartialEq, Eq)] pub struct Hash([u8; 32]);
#[derive(Clone, PartialEq, Eq, Hash)] pub struct CurrentObjectUri(std::sync::Arc<str>);
pub struct PublicationDeltaError(u8);
impl PublicationDeltaError {
    pub fn outside(_j: &uri::Rsync, _u: &uri::Rsync) -> Self { unimplemented!() }
    pub fn present(_u: &uri::Rsync) -> Self { unimplemented!() }
    pub fn no_match(_u: &uri::Rsync) -> Self { unimplemented!() }
}
'''
inside='''
#[verifier::external_type_specification] #[verifier::external_body] pub struct ExRsync(uri::Rsync);
#[verifier::external_type_specification] #[verifier::external_body] pub struct ExBase64(Base64);
#[verifier::external_type_specification] #[verifier::external_body] pub struct ExHash(Hash);
#[verifier::external_type_specification] #[verifier::external_body] pub struct ExCOU(CurrentObjectUri);
#[verifier::external_type_specification] #[verifier::external_body] pub struct ExPDE(PublicationDeltaError);
impl vstd::std_specs::cmp::PartialEqSpecImpl for Hash {
    open spec fn obeys_eq_spec() -> bool { true }
    open spec fn eq_spec(&self, other: &Hash) -> bool { *self == *other }
}
pub assume_specification [<Hash as PartialEq>::eq] (a: &Hash, b: &Hash) -> (r: bool);
pub uninterp spec fn key_of(u: uri::Rsync) -> CurrentObjectUri;
pub uninterp spec fn hash_of(b: Base64) -> Hash;
pub uninterp spec fn parent_of(j: uri::Rsync, u: uri::Rsync) -> bool;
pub assume_specification [uri::Rsync::is_parent_of] (j: &uri::Rsync, u: &uri::Rsync) -> (r: bool) ensures r == parent_of(*j, *u);
pub assume_specification [Base64::to_hash] (b: &Base64) -> (r: Hash) ensures r == hash_of(*b);
impl From<&uri::Rsync> for CurrentObjectUri { #[verifier::external_body] fn from(value: &uri::Rsync) -> (r: Self) ensures r == key_of(*value) { unimplemented!() } }
impl From<uri::Rsync> for CurrentObjectUri { #[verifier::external_body] fn from(value: uri::Rsync) -> (r: Self) ensures r == key_of(value) { unimplemented!() } }
pub assume_specification [PublicationDeltaError::outside] (j: &uri::Rsync, u: &uri::Rsync) -> (r: PublicationDeltaError);
pub assume_specification [PublicationDeltaError::present] (u: &uri::Rsync) -> (r: PublicationDeltaError);
pub assume_specification [PublicationDeltaError::no_match] (u: &uri::Rsync) -> (r: PublicationDeltaError);

pub open spec fn has_hash(m: Map<CurrentObjectUri, Base64>, u: uri::Rsync, h: Hash) -> bool {
    m.contains_key(key_of(u)) && hash_of(m[key_of(u)]) == h
}
pub open spec fn delta_ok(m: Map<CurrentObjectUri, Base64>, d: DeltaElements, jail: uri::Rsync) -> bool {
    &&& forall |i: int| 0 <= i < d.publishes@.len() ==> parent_of(jail, #[trigger] d.publishes@[i].uri) && !m.contains_key(key_of(d.publishes@[i].uri))
    &&& forall |i: int| 0 <= i < d.updates@.len() ==> parent_of(jail, #[trigger] d.updates@[i].uri) && has_hash(m, d.updates@[i].uri, d.updates@[i].hash)
    &&& forall |i: int| 0 <= i < d.withdraws@.len() ==> parent_of(jail, #[trigger] d.withdraws@[i].uri) && has_hash(m, d.withdraws@[i].uri, d.withdraws@[i].hash)
}
'''
body=[]
for st in ['PublishElement','UpdateElement','WithdrawElement','DeltaElements']:
    body.append(S(RR, struct=st))
body.append(S(RR, struct='CurrentObjects').replace('pub struct CurrentObjects(HashMap<CurrentObjectUri, Base64>);','pub struct CurrentObjects(pub HashMap<CurrentObjectUri, Base64>);'))
body.append('impl DeltaElements {\n'+fn_r1(RR,'DeltaElements','publishes','        ensures r@ == self.publishes@,')+'\n'+fn_r1(RR,'DeltaElements','updates','        ensures r@ == self.updates@,')+'\n'+fn_r1(RR,'DeltaElements','withdraws','        ensures r@ == self.withdraws@,')+'\n}')
body.append('impl CurrentObjects {\n'
  + fn_r1(RR,'CurrentObjects','contains','        requires obeys_key_model::<CurrentObjectUri>(),\n        ensures r == has_hash(self.0@, *uri, hash),')
  + '\n' + fn_r1(RR,'CurrentObjects','verify_delta_applies','        requires obeys_key_model::<CurrentObjectUri>(),\n        ensures r is Ok <==> delta_ok(self.0@, *delta, *jail),',
      loops={0:'''            invariant obeys_key_model::<CurrentObjectUri>(),
                forall |i: int| 0 <= i < vx_it.index@ ==> parent_of(*jail, #[trigger] delta.publishes@[i].uri) && !self.0@.contains_key(key_of(delta.publishes@[i].uri)),
''',1:'''            invariant obeys_key_model::<CurrentObjectUri>(),
                forall |i: int| 0 <= i < delta.publishes@.len() ==> parent_of(*jail, #[trigger] delta.publishes@[i].uri) && !self.0@.contains_key(key_of(delta.publishes@[i].uri)),
                forall |i: int| 0 <= i < vx_it.index@ ==> parent_of(*jail, #[trigger] delta.updates@[i].uri) && has_hash(self.0@, delta.updates@[i].uri, delta.updates@[i].hash),
''',2:'''            invariant obeys_key_model::<CurrentObjectUri>(),
                forall |i: int| 0 <= i < delta.publishes@.len() ==> parent_of(*jail, #[trigger] delta.publishes@[i].uri) && !self.0@.contains_key(key_of(delta.publishes@[i].uri)),
                forall |i: int| 0 <= i < delta.updates@.len() ==> parent_of(*jail, #[trigger] delta.updates@[i].uri) && has_hash(self.0@, delta.updates@[i].uri, delta.updates@[i].hash),
                forall |i: int| 0 <= i < vx_it.index@ ==> parent_of(*jail, #[trigger] delta.withdraws@[i].uri) && has_hash(self.0@, delta.withdraws@[i].uri, delta.withdraws@[i].hash),
'''})
  + '\n}')
unit=outside+'\nverus! {\n'+inside+'\n\n'.join(body)+'\n}\nfn main() {}\n'
open('unit_c10v.rs','w').write(unit)
r=subprocess.run(['verus','--edition','2024','--multiple-errors','20','unit_c10v.rs'],capture_output=True,text=True)
out=r.stdout+r.stderr
print('\n'.join(l for l in out.split('\n') if not l.startswith('WARNING') and 'autoderive' not in l)[:6000])
