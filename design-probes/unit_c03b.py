from assemble import *
from unit_c03 import *
import subprocess
def F(path, impl, fn, contract, loops=None):
    return name_ret(fn_with_contract(path, impl, fn, contract, loops))

rev_view = '''
pub open spec fn rev_id(r: Revocation) -> (Serial, Time) { (r.serial, r.expires) }
impl Revocations {
    pub open spec fn has(&self, id: (Serial, Time)) -> bool { exists |i: int| 0 <= i < self.0@.len() && rev_id(#[trigger] self.0@[i]) == id }
}
impl<T> PublishedItem<T> {
    pub open spec fn rid(&self) -> (Serial, Time) { (self.serial, self.expires) }
}
'''
inv = '''            invariant
                obeys_key_model::<ObjectName>(), cert_updates.unsuspended@.len() == 0,
                forall |id: (Serial, Time)| old(self).revocations.has(id) ==> self.revocations.has(id),
                forall |n: ObjectName| old(self).published_objects@.contains_key(n)
                    && (!self.published_objects@.contains_key(n)
                        || self.published_objects@[n] != old(self).published_objects@[n])
                    ==> #[trigger] self.revocations.has(old(self).published_objects@[n].rid()),
'''
body2 = []
body2.append('impl Revocations {\n'+F(CA,'Revocations','add','''        ensures forall |id: (Serial, Time)| final(self).has(id) <==> (old(self).has(id) || id == rev_id(revocation)),''')+'\n}')
body2.append('impl<T> PublishedItem<T> {\n'+F(PUB,'PublishedItem','new','''        ensures r.name == name, r.base64 == base64, r.serial == serial, r.expires == expires, r.hash == hash_of(base64),''')
   +'\n'+F(PUB,'PublishedItem','revoke','''        ensures rev_id(r) == self.rid(),''')+'\n}')
body2.append('impl PublishedObject {\n'+F(PUB,'PublishedObject','for_cert_info','''        ensures r.name == cert.name, r.serial == cert.serial, r.expires == not_after(cert.validity),''')+'\n}')
body2.append('impl KeyObjectSet {\n'+F(PUB,'KeyObjectSet','update_certs','''        requires obeys_key_model::<ObjectName>(), cert_updates.unsuspended@.len() == 0,
        ensures
            forall |id: (Serial, Time)| old(self).revocations.has(id) ==> final(self).revocations.has(id),
            forall |n: ObjectName| old(self).published_objects@.contains_key(n)
                && (!final(self).published_objects@.contains_key(n)
                    || final(self).published_objects@[n] != old(self).published_objects@[n])
                ==> #[trigger] final(self).revocations.has(old(self).published_objects@[n].rid()),''', loops={0:inv,1:inv,2:inv,3:inv})+'\n}')
items=open('items.txt').read().replace('pub struct Revocations(Vec<Revocation>);','pub struct Revocations(pub Vec<Revocation>);')
unit = prelude_outside + impls_outside + '\nverus! {\n' + ext + assumed + items + rev_view + '\n\n'.join(body2) + '\n}\nfn main() {}\n'
open('unit_c03.rs','w').write(unit)
r=subprocess.run(['verus','--edition','2024','unit_c03.rs'],capture_output=True,text=True)
out=r.stdout+r.stderr
import re as _re
print('\n'.join(l for l in out.split('\n') if not l.startswith('WARNING'))[:6000])
