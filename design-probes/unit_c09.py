from unit_c10 import fn_r1, name_ret
from assemble import *
import subprocess
MQ='/repo/src/server/mq.rs'
outside='''
#![feature(allocator_api)]
#![feature(sized_hierarchy)]
use vstd::prelude::*;
pub struct Ident(String);
impl PartialEq for Ident { fn eq(&self, o: &Self) -> bool { self.0 == o.0 } }
pub struct Queue(u8);
pub struct Error(u8);
pub type KrillResult<T> = Result<T, Error>;
pub struct QError(u8);
impl From<QError> for Error { fn from(_: QError) -> Self { Error(0) } }
impl Queue {
    pub fn running_tasks_keys(&mut self) -> Result<Vec<Box<Ident>>, QError> { unimplemented!() }
    pub fn reschedule_running_task(&mut self, _k: &Ident, _ts: Option<u128>) -> Result<(), QError> { unimplemented!() }
}
pub enum Task { QueueStartTasks, Other }
impl Task { pub fn name(&self) -> Box<Ident> { unimplemented!() } }
'''
inside='''
#[verifier::external_type_specification] #[verifier::external_body] pub struct ExIdent(Ident);
#[verifier::external_type_specification] #[verifier::external_body] pub struct ExQueue(Queue);
#[verifier::external_type_specification] #[verifier::external_body] pub struct ExError(Error);
#[verifier::external_type_specification] #[verifier::external_body] pub struct ExQError(QError);
#[verifier::external_type_specification] pub struct ExTask(Task);

// ghost model of the trusted queue
pub uninterp spec fn running(q: Queue) -> Set<Ident>;
pub uninterp spec fn pending(q: Queue) -> Set<Ident>;   // by storage key of origin
pub uninterp spec fn task_name_of(k: Ident) -> Ident;
pub uninterp spec fn qstart_name() -> Ident;

pub assume_specification [Queue::running_tasks_keys] (q: &mut Queue) -> (r: Result<Vec<Box<Ident>>, QError>)
    ensures *final(q) == *old(q),
        r is Ok ==> (forall |k: Ident| running(*old(q)).contains(k) <==> exists |i: int| 0 <= i < r->Ok_0@.len() && *#[trigger] r->Ok_0@[i] == k);
pub assume_specification [Queue::reschedule_running_task] (q: &mut Queue, k: &Ident, ts: Option<u128>) -> (r: Result<(), QError>)
    ensures
        r is Ok ==> running(*final(q)) == running(*old(q)).remove(*k) && pending(*final(q)) == pending(*old(q)).insert(*k),
        r is Err ==> *final(q) == *old(q);
pub assume_specification [Task::name] (t: &Task) -> (r: Box<Ident>) ensures t is QueueStartTasks ==> *r == qstart_name();
pub assume_specification [<Ident as PartialEq>::eq] (a: &Ident, b: &Ident) -> (r: bool) ensures r == (*a == *b);
pub assume_specification [<Error as From<QError>>::from] (e: QError) -> (o: Error);

pub assume_specification<'a, T, A> [<std::boxed::Box<T, A> as std::convert::AsRef<T>>::as_ref] (b: &'a std::boxed::Box<T, A>) -> (r: &'a T)
           where
           A: std::alloc::Allocator,
           T: std::marker::MetaSized + ?Sized,
    ensures r == &**b;

pub struct TaskQueue { pub q: Queue }
'''
f=fn_r1(MQ,'TaskQueue','reschedule_tasks_at_startup','''        ensures r is Ok ==> running(final(self).q) == Set::<Ident>::empty(),''',
   loops={0:'''            invariant true,
'''})
f=f.replace('(&self)','(&mut self)')   # R7
unit=outside+'\nverus! {\n'+inside+'impl TaskQueue {\n'+f+'\n}\n}\nfn main() {}\n'
open('unit_c09.rs','w').write(unit)
r=subprocess.run(['verus','--edition','2024','unit_c09.rs'],capture_output=True,text=True)
out=r.stdout+r.stderr
print('\n'.join(l for l in out.split('\n') if not l.startswith('WARNING'))[:5000])
