// Engine K BOUNDED harnesses for src/server/pubd/rrdp.rs (in-memory RRDP state).
use super::*;
use std::str::FromStr;

fn det_random_state() -> std::hash::RandomState { unsafe { std::mem::transmute((1u64, 2u64)) } }
fn t0() -> Time { Time::new(chrono::DateTime::UNIX_EPOCH) }
fn rnd() -> RrdpFileRandom { RrdpFileRandom(String::new()) }

fn server(snapshot: SnapshotData, deltas: VecDeque<DeltaData>, serial: u64) -> RrdpServer {
    RrdpServer {
        rrdp_base_uri: uri::Https::from_str("https://h/").unwrap(),
        rrdp_base_dir: PathBuf::new(),
        rrdp_archive_dir: PathBuf::new(),
        session: RrdpSession::from_uuid(uuid::Uuid::nil()),
        serial,
        last_update: t0(),
        snapshot,
        deltas,
        staged_elements: HashMap::default(),
    }
}
/// content of 3*n bytes -> size_approx() == 3*n
fn b64(n: usize) -> Base64 { Base64::from_content(&[0u8; 30][..3 * n]) }
fn delta(serial: u64, size_units: usize) -> DeltaData {
    let publishes = if size_units == 0 { vec![] } else {
        vec![PublishElement { uri: uri::Rsync::from_str("rsync://h/m/a").unwrap(), base64: b64(size_units) }]
    };
    DeltaData::new(serial, t0(), rnd(), DeltaElements::new(publishes, vec![], vec![]))
}

// deltas_truncate_size keeps a PREFIX of the delta list (a contiguous run ending at the current serial stays contiguous),
// whatever mix of large and small deltas there is
#[kani::proof]
#[kani::unwind(34)]
#[kani::stub(std::hash::RandomState::new, det_random_state)]
fn k_truncate_size_keeps_prefix() {
    // three deltas (serials 4,3,2): small, LARGE, small; the snapshot is smaller than the large one (concrete scenario,
    // one symbolic choice: whether the snapshot holds 3 or 9 units)
    let mut deltas = VecDeque::new();
    deltas.push_back(delta(4, 1));
    deltas.push_back(delta(3, 10));
    deltas.push_back(delta(2, 1));
    let mut objs: HashMap<CurrentObjectUri, Base64> = HashMap::default();
    let snap_units = if kani::any() { 3 } else { 9 };
    objs.insert(CurrentObjectUri::from(&uri::Rsync::from_str("rsync://h/m/s").unwrap()), b64(snap_units));
    let mut pubs: HashMap<PublisherHandle, CurrentObjects> = HashMap::default();
    pubs.insert(PublisherHandle::from_str("p").unwrap(), CurrentObjects(objs));
    let mut s = server(SnapshotData::new(rnd(), pubs), deltas, 4);
    s.deltas_truncate_size();
    let n = s.deltas.len();
    assert!(n <= 3);
    // prefix: the retained serials are 4, 3, .. contiguous from the front
    let mut i = 0;
    while i < n { assert!(s.deltas[i].serial() == 4 - i as u64); i += 1; }
    // never more than the snapshot size
    let mut tot = 0usize; let mut j = 0;
    while j < n { tot += s.deltas[j].elements().size_approx(); j += 1; }
    assert!(tot <= 3 * snap_units);
    kani::cover!(n == 1);
}

// apply_rrdp_updated: serial + 1, new delta at the front carrying the staged elements, nothing stays staged, and the snapshot
// contains what the publisher staged -- also for a publisher that currently has no entry in the snapshot
#[kani::proof]
#[kani::unwind(34)]
#[kani::stub(std::hash::RandomState::new, det_random_state)]
fn k_apply_rrdp_updated_publisher_without_entry() {
    let alice = PublisherHandle::from_str("a").unwrap();
    let u = uri::Rsync::from_str("rsync://h/m/a/x").unwrap();
    let mut pubs: HashMap<PublisherHandle, CurrentObjects> = HashMap::default();
    let has_empty_entry: bool = kani::any();
    if has_empty_entry { pubs.insert(alice.clone(), CurrentObjects::default()); }
    let mut s = server(SnapshotData::new(rnd(), pubs), VecDeque::new(), 3);
    let mut staged = StagedElements::default();
    staged.merge_new_elements(DeltaElements::new(vec![PublishElement { uri: u.clone(), base64: b64(1) }], vec![], vec![]));
    s.staged_elements.insert(alice.clone(), staged);
    s.apply_rrdp_updated(RrdpUpdated { time: t0(), random: rnd(), deltas_truncate: 10 });
    assert!(s.serial == 4);
    assert!(s.deltas.len() == 1 && s.deltas[0].serial() == 4);
    assert!(s.deltas[0].elements().publishes().len() == 1);
    assert!(s.staged_elements.get(&alice).map(|e| e.0.is_empty()).unwrap_or(true));
    let objs = s.snapshot.get_publisher_objects(&alice);
    assert!(objs.is_some());
    assert!(objs.unwrap().0.contains_key(&CurrentObjectUri::from(&u)));
    kani::cover!(has_empty_entry);
    kani::cover!(!has_empty_entry);
}
