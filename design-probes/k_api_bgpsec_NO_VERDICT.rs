// NO VERDICT: CBMC 6.11 timed out after 900 s at 11 GB (str::split / collect / from_str_radix on 3 symbolic bytes). Kept as a probe only.
// Engine K BOUNDED harness for src/api/bgpsec.rs: the map-key parser reachable from JSON request bodies never panics.
use super::*;

/// every string "ROUTER-" + up to 3 bytes over {'-', '0', 'A', 'g'} (covers: no dash, one dash, two dashes, empty parts,
/// hex / non-hex digits); the parser must return, never panic
#[kani::proof]
#[kani::unwind(12)]
fn k_bgpsec_asn_key_from_str_no_panic() {
    let n: usize = kani::any();
    kani::assume(n <= 3);
    let mut buf = [b'R', b'O', b'U', b'T', b'E', b'R', b'-', 0, 0, 0];
    let mut i = 0;
    while i < 3 {
        let k: u8 = kani::any();
        kani::assume(k < 4);
        buf[7 + i] = match k { 0 => b'-', 1 => b'0', 2 => b'A', _ => b'g' };
        i += 1;
    }
    let s = match std::str::from_utf8(&buf[..7 + n]) { Ok(s) => s, Err(_) => return };
    let r = BgpSecAsnKey::from_str(s);
    // a key identifier is 40 hex digits: nothing this short can be accepted
    assert!(r.is_err());
}
