use vstd::prelude::*;
use vstd::std_specs::hash::*;
use std::collections::{HashMap, VecDeque};
verus! {
fn f_values(m: &HashMap<u32, u64>) -> (s: u64) {
    let mut acc: u64 = 0;
    for v in m.values() { if *v > acc { acc = *v; } }
    acc
}
}
fn main() {}
