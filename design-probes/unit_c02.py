from unit_c10 import fn_r1
from assemble import *
import subprocess
CH='/repo/src/server/ca/child.rs'; CA='/repo/src/api/ca.rs'
def S(path, **kw): return pubfields(strip_attrs(item(path, **kw)[0]))
outside='''
use vstd::prelude::*;
use vstd::std_specs::hash::*;
use std::collections::HashMap;
#[derive(Clone, Copy, PartialEq, Eq, Hash)] pub struct KeyIdentifier([u8; 20]);
#[derive(Clone)] pub struct ResourceSet(Vec<u8>);
impl ResourceSet {
    pub fn contains(&self, _o: &ResourceSet) -> bool { unimplemented!() }
    pub fn intersection(&self, _o: &ResourceSet) -> ResourceSet { unimplemented!() }
    pub fn is_empty(&self) -> bool { unimplemented!() }
}
pub struct IssuanceTimingConfig(u8); pub struct KrillSigner(u8);
pub struct Error(u8);
pub type KrillResult<T> = Result<T, Error>;
pub struct Issued; pub struct Suspended; pub struct Unsuspended; pub struct Received;
pub type IssuedCertificate = CertInfo<Issued>;
pub type SuspendedCert = CertInfo<Suspended>;
pub type UnsuspendedCert = CertInfo<Unsuspended>;
pub type ReceivedCert = CertInfo<Received>;
'''
inside='''
#[verifier::external_type_specification] #[verifier::external_body] pub struct Ex1(KeyIdentifier);
#[verifier::external_type_specification] #[verifier::external_body] pub struct Ex2(ResourceSet);
#[verifier::external_type_specification] #[verifier::external_body] pub struct Ex3(IssuanceTimingConfig);
#[verifier::external_type_specification] #[verifier::external_body] pub struct Ex4(KrillSigner);
#[verifier::external_type_specification] #[verifier::external_body] pub struct Ex5(Error);
#[verifier::external_type_specification] #[verifier::external_body] pub struct Ex6(Issued);
#[verifier::external_type_specification] #[verifier::external_body] pub struct Ex7(Suspended);
#[verifier::external_type_specification] #[verifier::external_body] pub struct Ex8(Unsuspended);
#[verifier::external_type_specification] #[verifier::external_body] pub struct Ex9(Received);
pub uninterp spec fn rs_contains(a: ResourceSet, b: ResourceSet) -> bool;
pub uninterp spec fn rs_inter(a: ResourceSet, b: ResourceSet) -> ResourceSet;
pub uninterp spec fn rs_empty(a: ResourceSet) -> bool;
pub assume_specification [ResourceSet::contains] (a: &ResourceSet, b: &ResourceSet) -> (r: bool) ensures r == rs_contains(*a, *b);
pub assume_specification [ResourceSet::intersection] (a: &ResourceSet, b: &ResourceSet) -> (r: ResourceSet) ensures r == rs_inter(*a, *b);
pub assume_specification [ResourceSet::is_empty] (a: &ResourceSet) -> (r: bool) ensures r == rs_empty(*a);

// simplified CertInfo for this probe: only the fields the unit touches (the real struct was accepted in the C03 probe)
pub struct CertInfo<T> { pub ki: KeyIdentifier, pub resources: ResourceSet, pub marker: std::marker::PhantomData<T> }
impl<T> CertInfo<T> {
    pub fn key_identifier(&self) -> (r: KeyIdentifier) ensures r == self.ki { self.ki }
    #[verifier::external_body]
    pub fn to_converted<Y>(&self) -> (r: CertInfo<Y>) ensures r.ki == self.ki, r.resources == self.resources { unimplemented!() }
    #[verifier::external_body]
    pub fn into_converted<Y>(self) -> (r: CertInfo<Y>) ensures r.ki == self.ki, r.resources == self.resources { unimplemented!() }
}
'''
body=[]
body.append('impl<T> CertInfo<T> {\n'+fn_r1(CA,'CertInfo','reduced_applicable_resources','''        ensures
            r is None <==> rs_contains(*encompassing, self.resources),
            r is Some ==> r->Some_0 == rs_inter(*encompassing, self.resources),''')+'\n}')
body.append(S(CH, struct='ChildCertificates'))
body.append(S(CH, struct='ChildCertificateUpdates'))
body.append('''impl Default for ChildCertificateUpdates { fn default() -> (r: Self) ensures r.issued@.len() == 0, r.removed@.len() == 0, r.suspended@.len() == 0, r.unsuspended@.len() == 0
  { ChildCertificateUpdates { issued: Vec::new(), removed: Vec::new(), suspended: Vec::new(), unsuspended: Vec::new() } } }''')
spec='''
pub open spec fn overclaims(c: ResourceSet, new: ResourceSet) -> bool { !rs_contains(new, c) }
'''
re_issue='''
    #[verifier::external_body]
    fn re_issue(&self, previous: &IssuedCertificate, updated_resources: Option<ResourceSet>, signing_cert: &ReceivedCert,
                issuance_timing: &IssuanceTimingConfig, signer: &KrillSigner) -> (r: KrillResult<IssuedCertificate>)
        ensures r is Ok ==> r->Ok_0.ki == previous.ki && r->Ok_0.resources == (match updated_resources { Some(x) => x, None => previous.resources })
    { unimplemented!() }
'''
contract='''        requires obeys_key_model::<KeyIdentifier>(),
        ensures
            r is Ok ==> r->Ok_0.unsuspended@.len() == 0,
            // every overclaiming issued certificate is either removed (nothing left) or re-issued with exactly the intersection
            r is Ok ==> forall |k: KeyIdentifier| #[trigger] self.issued@.contains_key(k) && overclaims(self.issued@[k].resources, received_cert.resources) ==> (
                if rs_empty(rs_inter(received_cert.resources, self.issued@[k].resources)) {
                    exists |i: int| 0 <= i < r->Ok_0.removed@.len() && r->Ok_0.removed@[i] == self.issued@[k].ki
                } else {
                    exists |i: int| 0 <= i < r->Ok_0.issued@.len() && r->Ok_0.issued@[i].ki == self.issued@[k].ki
                        && r->Ok_0.issued@[i].resources == rs_inter(received_cert.resources, self.issued@[k].resources)
                }),'''
f=fn_r1(CH,'ChildCertificates','shrink_overclaiming',contract, loops={0:'            invariant obeys_key_model::<KeyIdentifier>(), updates.unsuspended@.len() == 0, *updated_resources == received_cert.resources,\n',1:'            invariant obeys_key_model::<KeyIdentifier>(), updates.unsuspended@.len() == 0, *updated_resources == received_cert.resources,\n'})
body.append('impl ChildCertificates {\n'+re_issue+f+'\n}')
unit=outside+'\nverus! {\n'+inside+spec+'\n\n'.join(body)+'\n}\nfn main() {}\n'
open('unit_c02.rs','w').write(unit)
r=subprocess.run(['verus','--edition','2024','--multiple-errors','20','unit_c02.rs'],capture_output=True,text=True)
out=r.stdout+r.stderr
print("=====RESULT")
print('\n'.join(l for l in out.split('\n') if not l.startswith('WARNING') and 'autoderive' not in l)[:5000])
