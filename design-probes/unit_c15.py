from unit_c10 import fn_r1
from assemble import *
import subprocess
TP='/repo/src/server/taproxy.rs'
def S(path, **kw): return pubfields(strip_attrs(item(path, **kw)[0]))
outside='''
use vstd::prelude::*;
use std::collections::HashMap;
#[derive(Clone)] pub struct CaHandle(Vec<u8>);
#[derive(Clone)] pub struct ChildHandle(Vec<u8>);
#[derive(Clone)] pub struct IdCertInfo(Vec<u8>);
#[derive(Clone)] pub struct RepositoryContact(Vec<u8>);
#[derive(Clone)] pub struct TrustAnchorChild(Vec<u8>);
#[derive(Clone, PartialEq, Eq)] pub struct Nonce(std::sync::Arc<str>);
impl Nonce { pub fn new() -> Self { unimplemented!() } }
pub struct TrustAnchorObjects(u8); pub struct TaCertDetails(u8);
pub struct TrustAnchorSignerResponse { pub nonce: Nonce, pub objects: TrustAnchorObjects }
pub struct TrustAnchorSignedResponse(u8);
impl TrustAnchorSignedResponse {
    pub fn validate(&self, _issuer: &IdCertInfo) -> Result<(), Error> { unimplemented!() }
    pub fn content(&self) -> &TrustAnchorSignerResponse { unimplemented!() }
    pub fn into_content(self) -> TrustAnchorSignerResponse { unimplemented!() }
}
pub type KrillResult<T> = Result<T, Error>;
'''
inside='''
#[verifier::external_type_specification] #[verifier::external_body] pub struct ExCaHandle(CaHandle);
#[verifier::external_type_specification] #[verifier::external_body] pub struct ExChildHandle(ChildHandle);
#[verifier::external_type_specification] #[verifier::external_body] pub struct ExIdCertInfo(IdCertInfo);
#[verifier::external_type_specification] #[verifier::external_body] pub struct ExRepositoryContact(RepositoryContact);
#[verifier::external_type_specification] #[verifier::external_body] pub struct ExTrustAnchorChild(TrustAnchorChild);
#[verifier::external_type_specification] #[verifier::external_body] pub struct ExNonce(Nonce);
#[verifier::external_type_specification] #[verifier::external_body] pub struct ExTAO(TrustAnchorObjects);
#[verifier::external_type_specification] #[verifier::external_body] pub struct ExTCD(TaCertDetails);
#[verifier::external_type_specification] pub struct ExTASR(TrustAnchorSignerResponse);
#[verifier::external_type_specification] #[verifier::external_body] pub struct ExTASignedR(TrustAnchorSignedResponse);
impl vstd::std_specs::cmp::PartialEqSpecImpl for Nonce {
    open spec fn obeys_eq_spec() -> bool { true }
    open spec fn eq_spec(&self, other: &Nonce) -> bool { *self == *other }
}
pub assume_specification [<Nonce as PartialEq>::eq] (a: &Nonce, b: &Nonce) -> (r: bool);
pub assume_specification [<Nonce as Clone>::clone] (a: &Nonce) -> (r: Nonce) ensures r == *a;
pub assume_specification [Nonce::new] () -> (r: Nonce);
pub uninterp spec fn valid_sig(r: TrustAnchorSignedResponse, id: IdCertInfo) -> bool;
pub uninterp spec fn nonce_of(r: TrustAnchorSignedResponse) -> Nonce;
pub assume_specification [TrustAnchorSignedResponse::validate] (r: &TrustAnchorSignedResponse, issuer: &IdCertInfo) -> (o: Result<(), Error>) ensures o is Ok <==> valid_sig(*r, *issuer);
pub assume_specification [TrustAnchorSignedResponse::content] (r: &TrustAnchorSignedResponse) -> (o: &TrustAnchorSignerResponse) ensures o.nonce == nonce_of(*r);
pub assume_specification [TrustAnchorSignedResponse::into_content] (r: TrustAnchorSignedResponse) -> (o: TrustAnchorSignerResponse) ensures o.nonce == nonce_of(r);

pub struct TrustAnchorSignerInfo { pub id: IdCertInfo, pub objects: TrustAnchorObjects, pub ta_cert_details: TaCertDetails }
pub enum Error { TaProxyHasNoRequest, TaProxyRequestNonceMismatch(Nonce, Nonce), TaProxyHasNoSigner, TaProxyHasRequest, VxOther }
pub enum TrustAnchorProxyEvent { SignerRequestMade(Nonce), SignerResponseReceived(TrustAnchorSignedResponse), VxOther }
'''
body=[S(TP, struct='TrustAnchorProxy')]
body.append('impl TrustAnchorProxy {\n'
 + fn_r1(TP,'TrustAnchorProxy','process_make_signer_request','        ensures r is Ok <==> self.open_signer_request is None,\n            r is Ok ==> r->Ok_0@.len() == 1 && r->Ok_0@[0] is SignerRequestMade,')
 + '\n' + fn_r1(TP,'TrustAnchorProxy','process_signer_response','''        ensures
            r is Ok ==> self.open_signer_request is Some && nonce_of(response) == self.open_signer_request->Some_0
                && self.signer is Some && valid_sig(response, self.signer->Some_0.id)
                && r->Ok_0@.len() == 1 && r->Ok_0@[0] == TrustAnchorProxyEvent::SignerResponseReceived(response),''')
 + '\n}')
unit=outside+'\nverus! {\n'+inside+'\n\n'.join(body)+'\n}\nfn main() {}\n'
open('unit_c15.rs','w').write(unit)
r=subprocess.run(['verus','--edition','2024','--multiple-errors','20','unit_c15.rs'],capture_output=True,text=True)
out=r.stdout+r.stderr
print('\n'.join(l for l in out.split('\n') if not l.startswith('WARNING') and 'autoderive' not in l)[:5000])
