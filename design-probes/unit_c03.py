from assemble import *
PUB='/repo/src/server/ca/publishing.rs'; CA='/repo/src/api/ca.rs'; CH='/repo/src/server/ca/child.rs'

prelude_outside = '''
use vstd::prelude::*;
use vstd::std_specs::hash::*;
use std::collections::HashMap;
// ---- opaque externals (assumed) ----
#[derive(Clone, PartialEq, Eq, Hash)] pub struct ObjectName(std::sync::Arc<str>);
#[derive(Clone)] pub struct Base64(std::sync::Arc<str>);
#[derive(Clone, Copy, PartialEq, Eq)] pub struct Hash([u8; 32]);
#[derive(Clone, Copy, PartialEq, Eq)] pub struct Serial(u128);
#[derive(Clone, Copy, PartialEq, Eq)] pub struct Time(i64);
#[derive(Clone, Copy, PartialEq, Eq)] pub struct Validity(i64, i64);
#[derive(Clone, Copy, PartialEq, Eq, Hash)] pub struct KeyIdentifier([u8; 20]);
#[derive(Clone)] pub struct ResourceSet(Vec<u8>);
#[derive(Clone)] pub struct RequestResourceLimit(Vec<u8>);
#[derive(Clone)] pub struct Name(Vec<u8>);
#[derive(Clone)] pub struct CsrInfo(Vec<u8>);
#[derive(Clone)] pub struct RepositoryContact(Vec<u8>);
#[derive(Clone)] pub struct PublishedManifest(Vec<u8>);
#[derive(Clone)] pub struct PublishedCrl(Vec<u8>);
#[derive(Clone, Copy)] pub struct ObjectSetRevision(u64);
pub mod uri { #[derive(Clone)] pub struct Rsync(Vec<u8>); }
pub mod rrdp { pub use super::Hash; }
#[derive(Clone)] pub struct Issued; #[derive(Clone)] pub struct Suspended; #[derive(Clone)] pub struct Unsuspended; #[derive(Clone)] pub struct Received;
#[derive(Clone)] pub struct PublishedItemOther;
pub type ReceivedCert = CertInfo<Received>;
pub type IssuedCertificate = CertInfo<Issued>;
pub type SuspendedCert = CertInfo<Suspended>;
pub type UnsuspendedCert = CertInfo<Unsuspended>;
pub type PublishedObject = PublishedItem<PublishedItemOther>;
pub type KrillResult<T> = Result<T, Error>;
pub struct Error;
'''
ext_types = ['ObjectName','Base64','Hash','Serial','Time','Validity','KeyIdentifier','ResourceSet','RequestResourceLimit','Name','CsrInfo','RepositoryContact','PublishedManifest','PublishedCrl','ObjectSetRevision','Issued','Suspended','Unsuspended','Received','PublishedItemOther','Error']
ext = '\n'.join(f'#[verifier::external_type_specification] #[verifier::external_body] pub struct Ex{t}({t});' for t in ext_types)
ext += '\n#[verifier::external_type_specification] #[verifier::external_body] pub struct ExRsync(uri::Rsync);\n'

assumed = '''
// ---- assumed specs of externals ----
pub uninterp spec fn name_of_key(k: KeyIdentifier, ext: Seq<char>) -> ObjectName;
pub uninterp spec fn hash_of(b: Base64) -> Hash;
pub uninterp spec fn not_after(v: Validity) -> Time;
pub uninterp spec fn time_gt_now(t: Time) -> bool;

pub assume_specification [ObjectName::from_key] (ki: &KeyIdentifier, extension: &str) -> (r: ObjectName)
    ensures r == name_of_key(*ki, extension@);
pub assume_specification [<ObjectName as Clone>::clone] (n: &ObjectName) -> (r: ObjectName) ensures r == *n;
pub assume_specification [<Base64 as Clone>::clone] (n: &Base64) -> (r: Base64) ensures r == *n;
pub assume_specification [Base64::to_hash] (b: &Base64) -> (r: Hash) ensures r == hash_of(*b);
pub assume_specification [Validity::not_after] (v: &Validity) -> (r: Time) ensures r == not_after(*v);
pub assume_specification [Time::now] () -> (r: Time);
'''
impls_outside = '''
impl ObjectName { pub fn from_key(_ki: &KeyIdentifier, _extension: &str) -> Self { unimplemented!() } }
impl Base64 { pub fn to_hash(&self) -> Hash { unimplemented!() } }
impl Validity { pub fn not_after(&self) -> Time { unimplemented!() } }
impl Time { pub fn now() -> Time { unimplemented!() } }
'''

def S(path, **kw):
    return pubfields(strip_attrs(item(path, **kw)[0]))

body = []
body.append(S(CA, struct='Revocation'))
body.append('impl Revocation {\n'+name_ret(fn_with_contract(CA,'Revocation','new','        ensures r.serial == serial, r.expires == expires,'))+'\n}')
body.append(S(CA, struct='Revocations'))
body.append(S(CA, struct='CertInfo'))
body.append('impl<T> CertInfo<T> {\n'+name_ret(fn_with_contract(CA,'CertInfo','expires','        ensures r == not_after(self.validity),'))+'\n}')
body.append(S(CH, struct='ChildCertificateUpdates'))
body.append(S(PUB, struct='PublishedItem'))
body.append(S(PUB, struct='KeyObjectSet'))
open('items.txt','w').write('\n\n'.join(body))

