use vstd::prelude::*;

#[derive(Clone)] pub struct CaHandle(String);
pub struct HttpResponse(u8);
pub struct DispatchError(u8);
pub struct KError(u8);
impl From<HttpResponse> for DispatchError { fn from(_: HttpResponse) -> Self { DispatchError(0) } }
impl From<KError> for DispatchError { fn from(_: KError) -> Self { DispatchError(1) } }
pub struct HttpServer(u8);
pub struct Krill(u8);
pub struct Request(u8);
pub struct AuthedRequest(u8);
pub struct AuthInfo(u8);
pub struct Actor(u8);
pub struct Updates(u8);
pub struct Shown(u8);
#[derive(Clone, Copy, PartialEq, Eq)] pub enum Permission { RoutesRead, RoutesUpdate, CaRead }

impl Request {
    pub fn proceed_permitted(self, _p: Permission, _r: Option<&CaHandle>) -> Result<(AuthedRequest, AuthInfo), HttpResponse> { unimplemented!() }
}
impl AuthedRequest {
    pub fn empty(self) -> Result<&'static HttpServer, KError> { unimplemented!() }
    pub fn read_json(self) -> Result<(&'static HttpServer, Updates), KError> { unimplemented!() }
}
impl AuthInfo { pub fn into_actor(self) -> Actor { unimplemented!() } }
impl HttpServer { pub fn krill(&self) -> &Krill { unimplemented!() } }
impl Krill {
    pub fn ca_routes_show(&self, _ca: CaHandle) -> Result<Shown, KError> { unimplemented!() }
    pub fn ca_routes_update(&self, _ca: CaHandle, _u: Updates, _a: Actor) -> Result<(), KError> { unimplemented!() }
}
impl HttpResponse {
    pub fn json(_s: &Shown) -> HttpResponse { unimplemented!() }
    pub fn ok() -> HttpResponse { unimplemented!() }
    pub fn method_not_allowed() -> HttpResponse { unimplemented!() }
}

verus! {
#[verifier::external_type_specification] #[verifier::external_body] pub struct ExCaHandle(CaHandle);
#[verifier::external_type_specification] #[verifier::external_body] pub struct ExHttpResponse(HttpResponse);
#[verifier::external_type_specification] #[verifier::external_body] pub struct ExDispatchError(DispatchError);
#[verifier::external_type_specification] #[verifier::external_body] pub struct ExKError(KError);
#[derive(PartialEq, Eq, Clone, Copy)] pub enum Method { GET, POST, DELETE, PUT, Other }
#[verifier::external_type_specification] #[verifier::external_body] pub struct ExHttpServer(HttpServer);
#[verifier::external_type_specification] #[verifier::external_body] pub struct ExKrill(Krill);
#[verifier::external_type_specification] #[verifier::external_body] pub struct ExRequest(Request);
#[verifier::external_type_specification] #[verifier::external_body] pub struct ExAuthedRequest(AuthedRequest);
#[verifier::external_type_specification] #[verifier::external_body] pub struct ExAuthInfo(AuthInfo);
#[verifier::external_type_specification] #[verifier::external_body] pub struct ExActor(Actor);
#[verifier::external_type_specification] #[verifier::external_body] pub struct ExUpdates(Updates);
#[verifier::external_type_specification] #[verifier::external_body] pub struct ExShown(Shown);
#[verifier::external_type_specification] pub struct ExPermission(Permission);
pub type PermissionAlias = Permission;

pub uninterp spec fn granted_req(r: AuthedRequest) -> (Permission, Option<CaHandle>);
pub uninterp spec fn granted_srv(s: &HttpServer) -> (Permission, Option<CaHandle>);
pub uninterp spec fn granted_k(k: &Krill) -> (Permission, Option<CaHandle>);

#[verifier::external_body] pub fn req_method(r: &Request) -> (m: &Method) { unimplemented!() }
pub assume_specification [Request::proceed_permitted] (r: Request, p: Permission, res: Option<&CaHandle>) -> (o: Result<(AuthedRequest, AuthInfo), HttpResponse>)
    ensures o is Ok ==> granted_req(o->Ok_0.0) == (p, match res { Some(h) => Some(*h), None => None });
pub assume_specification [AuthedRequest::empty] (r: AuthedRequest) -> (o: Result<&'static HttpServer, KError>)
    ensures o is Ok ==> granted_srv(o->Ok_0) == granted_req(r);
pub assume_specification [AuthedRequest::read_json] (r: AuthedRequest) -> (o: Result<(&'static HttpServer, Updates), KError>)
    ensures o is Ok ==> granted_srv(o->Ok_0.0) == granted_req(r);
pub assume_specification [AuthInfo::into_actor] (a: AuthInfo) -> (o: Actor);
pub assume_specification [HttpServer::krill] (s: &HttpServer) -> (k: &Krill) ensures granted_k(k) == granted_srv(s);
pub assume_specification [Krill::ca_routes_show] (k: &Krill, ca: CaHandle) -> (o: Result<Shown, KError>)
    requires granted_k(k) == (Permission::RoutesRead, Some(ca));
pub assume_specification [Krill::ca_routes_update] (k: &Krill, ca: CaHandle, u: Updates, a: Actor) -> (o: Result<(), KError>)
    requires granted_k(k) == (Permission::RoutesUpdate, Some(ca));
pub assume_specification [HttpResponse::json] (s: &Shown) -> (o: HttpResponse);
pub assume_specification [HttpResponse::ok] () -> (o: HttpResponse);
pub assume_specification [HttpResponse::method_not_allowed] () -> (o: HttpResponse);
pub assume_specification [<DispatchError as From<HttpResponse>>::from] (e: HttpResponse) -> (o: DispatchError);
pub assume_specification [<DispatchError as From<KError>>::from] (e: KError) -> (o: DispatchError);

fn routes_index(
    request: Request,
    ca: CaHandle,
) -> Result<HttpResponse, DispatchError> {
    match *req_method(&request) {
        Method::GET => {
            let (request, _) = request.proceed_permitted(
                Permission::RoutesRead, Some(&ca)
            )?;
            let server = request.empty()?;
            Ok(HttpResponse::json(
                &server.krill().ca_routes_show(ca)?
            ))
        }
        Method::POST => {
            let (request, auth) = request.proceed_permitted(
                Permission::RoutesUpdate, Some(&ca)
            )?;
            let (server, updates) = request.read_json()?;
            server.krill().ca_routes_update(
                ca, updates, auth.into_actor()
            )?;
            Ok(HttpResponse::ok())
        }
        _ => Ok(HttpResponse::method_not_allowed())
    }
}
}
fn main() {}
