#![feature(allocator_api)]
#![feature(sized_hierarchy)]
use vstd::prelude::*;
use vstd::std_specs::hash::*;
use std::collections::HashMap;
verus! {
pub assume_specification<'a, K, V, S, A, Q> [std::collections::HashMap::<K, V, S, A>::get_mut] (m: &'a mut std::collections::HashMap<K, V, S, A>, k: &Q) -> (r: std::option::Option<&'a mut V>)
            where
            A: std::alloc::Allocator,
            K: std::cmp::Eq + std::hash::Hash + std::borrow::Borrow<Q>,
            Q: std::marker::MetaSized + std::hash::Hash + std::cmp::Eq + ?Sized,
            S: std::hash::BuildHasher,
    ensures
        obeys_key_model::<K>() && builds_valid_hashers::<S>() ==> (
        match r {
            Some(v) => contains_borrowed_key(old(m)@, k) && maps_borrowed_key_to_value(old(m)@, k, *v) && (forall |kk: K| #[trigger] final(m)@.contains_key(kk) <==> old(m)@.contains_key(kk)) && (forall |kk: K| old(m)@.contains_key(kk) && !maps_borrowed_key_to_value(old(m)@.restrict(set![kk]), k, old(m)@[kk]) ==> #[trigger] final(m)@[kk] == old(m)@[kk]) && maps_borrowed_key_to_value(final(m)@, k, *final(v)),
            None => !contains_borrowed_key(old(m)@, k) && final(m)@ == old(m)@,
        });
pub enum El { P(u64), U(u64, u64), W(u64) }
fn f(m: &mut HashMap<u32, El>, k: u32, c: u64)
    requires obeys_key_model::<u32>()
    ensures old(m)@.contains_key(k) && old(m)@[k] is U ==> final(m)@.contains_key(k) && final(m)@[k] == El::U(old(m)@[k]->U_0, c),
{
    match m.get_mut(&k) {
        Some(El::U(_h, b)) => { *b = c; }
        _ => {}
    }
}
}
fn main() {}
