
use vstd::prelude::*;
use vstd::std_specs::hash::*;
use std::collections::HashMap;
#[derive(Clone)] pub struct CaHandle(String);
#[derive(Clone)] pub struct ResourceSet(Vec<u8>);
#[derive(Clone, Copy, PartialEq, Eq, Hash)] pub struct AsNumber(u32);
#[derive(Clone, Copy, PartialEq, Eq, Hash)] pub struct Ipv4Addr(u32);
#[derive(Clone, Copy, PartialEq, Eq, Hash)] pub struct Ipv6Addr(u128);
#[derive(Clone, Copy, PartialEq, Eq)] pub struct Time(i64);
pub struct RoaIpAddress(u8);
pub struct RoaDeltaError(Vec<u8>);
pub type KrillResult<T> = Result<T, Error>;
impl Default for RoaDeltaError { fn default() -> Self { RoaDeltaError(Vec::new()) } }
impl RoaDeltaError {
    pub fn add_unknown(&mut self, _p: RoaPayload) { unimplemented!() }
    pub fn add_invalid_length(&mut self, _p: RoaConfiguration) { unimplemented!() }
    pub fn add_notheld(&mut self, _p: RoaConfiguration) { unimplemented!() }
    pub fn add_duplicate(&mut self, _p: RoaConfiguration) { unimplemented!() }
    pub fn is_empty(&self) -> bool { unimplemented!() }
}
impl ResourceSet { pub fn contains_roa_address(&self, _a: &RoaIpAddress) -> bool { unimplemented!() } }
impl Time { pub fn now() -> Time { unimplemented!() } }

verus! {
#[verifier::external_type_specification] #[verifier::external_body] pub struct ExCaHandle(CaHandle);
#[verifier::external_type_specification] #[verifier::external_body] pub struct ExResourceSet(ResourceSet);
#[verifier::external_type_specification] #[verifier::external_body] pub struct ExAsNumber(AsNumber);
#[verifier::external_type_specification] #[verifier::external_body] pub struct ExTime(Time);
#[verifier::external_type_specification] #[verifier::external_body] pub struct ExRoaIpAddress(RoaIpAddress);
#[verifier::external_type_specification] #[verifier::external_body] pub struct ExRoaDeltaError(RoaDeltaError);
#[verifier::external_type_specification] #[verifier::external_body] pub struct ExIpv4Addr(Ipv4Addr);
#[verifier::external_type_specification] #[verifier::external_body] pub struct ExIpv6Addr(Ipv6Addr);
pub uninterp spec fn held(r: ResourceSet, p: RoaPayload) -> bool;
pub uninterp spec fn err_count(e: RoaDeltaError) -> nat;
pub uninterp spec fn addr_of(p: RoaPayload) -> RoaIpAddress;

pub assume_specification [<RoaDeltaError as Default>::default] () -> (r: RoaDeltaError) ensures err_count(r) == 0;
pub assume_specification [RoaDeltaError::add_unknown] (e: &mut RoaDeltaError, p: RoaPayload) ensures err_count(*final(e)) == err_count(*old(e)) + 1;
pub assume_specification [RoaDeltaError::add_invalid_length] (e: &mut RoaDeltaError, p: RoaConfiguration) ensures err_count(*final(e)) == err_count(*old(e)) + 1;
pub assume_specification [RoaDeltaError::add_notheld] (e: &mut RoaDeltaError, p: RoaConfiguration) ensures err_count(*final(e)) == err_count(*old(e)) + 1;
pub assume_specification [RoaDeltaError::add_duplicate] (e: &mut RoaDeltaError, p: RoaConfiguration) ensures err_count(*final(e)) == err_count(*old(e)) + 1;
pub assume_specification [RoaDeltaError::is_empty] (e: &RoaDeltaError) -> (b: bool) ensures b == (err_count(*e) == 0);
pub assume_specification [ResourceSet::contains_roa_address] (r: &ResourceSet, a: &RoaIpAddress) -> (b: bool);
pub assume_specification [<CaHandle as Clone>::clone] (h: &CaHandle) -> (r: CaHandle) ensures r == *h;
pub assume_specification [Time::now] () -> (r: Time);

pub enum Error { RoaDeltaError(CaHandle, RoaDeltaError), VxOther }
pub enum CertAuthEvent {
    RouteAuthorizationAdded { auth: RoaPayloadJsonMapKey },
    RouteAuthorizationComment { auth: RoaPayloadJsonMapKey, comment: Option<String> },
    RouteAuthorizationRemoved { auth: RoaPayloadJsonMapKey },
    VxOther,
}

impl RoaPayload {
    #[verifier::external_body]
    pub fn as_roa_ip_address(self) -> (r: RoaIpAddress) ensures r == addr_of(self) { unimplemented!() }
}
impl RoaPayloadJsonMapKey {
    pub fn from(def: RoaPayload) -> (r: Self) ensures r.0 == def { RoaPayloadJsonMapKey(def) }
}
pub open spec fn plen(p: TypedPrefix) -> u8 { match p { TypedPrefix::V4(x) => x.addr_len, TypedPrefix::V6(x) => x.addr_len } }
pub open spec fn ml_valid(p: RoaPayload) -> bool {
    match p.max_length { None => true, Some(m) => m >= plen(p.prefix) && m <= (if p.prefix is V4 { 32u8 } else { 128u8 }) }
}
#[derive(Clone, Copy, PartialEq, Eq, Hash)]
/// The definition of a Route Origin Authorization (ROA) payload.
///
/// We define “ROA payload” to be the originating ASN, a single prefix, and
/// an optional max prefix length.
///
/// An RFC 6482 ROA object may contain multiple prefixes and optional max
/// length values, aggregated by (a single) ASN. The term "Validated ROA
/// Payload" is used in RFC 6811 (BGP Prefix Origin Validation) to describe
/// validated tuples of ASN, Prefix and optional Max Length.
///
/// Note that Krill does not allow users to specify RFC 6482 ROA objects
/// as such. Instead it allows users to configure the intent which
/// "ROA Payloads" should be authorized. We could call this type
/// RoaPayloadIntent, but we stuck with RoaPayload for brevity.
///
/// Krill will create RFC 6482 for RoaPayloads appearing on saved
/// configurations – in as far as the CA holds the prefixes on its
/// certificate(s). It will prefer to issue a single object per payload in
/// accordance with best practices (avoid fate sharing in case a prefix is
/// suddenly no longer held), but aggregation will be done if a
/// (configurable) threshold is exceeded.
//
//  *Warning:* This type is used in stored state.
pub struct RoaPayload {
    /// The autonomous system authorized to originate routes.
    pub asn: AsNumber,

    /// The prefix the system is authorized to originate routes for.
    pub prefix: TypedPrefix,

    /// The maximum prefix length for authorized originated routes.
    ///
    /// If this is `None`, then it is considered to be the length of the
    /// `prefix`.
    pub max_length: Option<u8>,
}

#[derive(Clone, Copy, PartialEq, Eq, Hash)]
/// A [`RoaPayload`] that serializes as a string.
//
//  *Warning:* This type is used in stored state.
pub struct RoaPayloadJsonMapKey(pub RoaPayload);

#[derive(Clone)]
/// This type defines an *intended* configuration for a ROA.
///
/// This type is intended to be used for updates through the API.
///
/// It includes the actual ROA payload that needs be authorized on an RFC 6482
/// ROA object, as well as other information that is only visible to Krill
/// users – like the optional comment field, which can be used to store useful
/// reminders of the purpose of this configuration. And in future perhaps
/// other things such as tags used for classification/monitoring/bpp analysis
/// could be added.
///
/// Note that the [`ConfiguredRoa`] type defines an *existing* configured ROA.
/// Existing ROAs may contain other information that the Krill system is
/// responsible for, rather than the API (update) user. For example: which ROA
/// object(s) the intended configuration appears on.
//
//  *Warning:* This type is used in stored state.
pub struct RoaConfiguration {
    /// The ROA payload definition.
    ///
    /// We flatten the payload and have defaults for other fields, so
    /// that the JSON serialized representation can be backward compatible
    /// with the RoaDefinition type that was used until Krill 0.10.0.
    ///
    /// I.e:
    /// * The API can still accept the 'old' style JSON without comments
    /// * We do not need to do data migrations on upgrade
    /// * The query API will include an extra field ("comment"), but most API
    ///   users will ignore additional fields.
    pub payload: RoaPayload,

    /// An optional comment for the ROA configuration.
    // missing is same as no comment
    pub comment: Option<String>,
}

/// A delta of RoaDefinitions submitted through the API.
///
/// Multiple updates are sent as a single delta, because it's important that
/// all authorizations for a given prefix are published together in order to
/// avoid invalidating announcements.
//
//  *Warning:* This type is used in stored state.
pub struct RoaConfigurationUpdates {
    /// The ROA configurations to be added.
    pub added: Vec<RoaConfiguration>,

    /// The ROA payloads to be removed.
    pub removed: Vec<RoaPayload>,
}

#[derive(Clone)]
/// Meta-information about a configured route authorization.
//
//  *Warning:* This type is used in stored state.
pub struct RouteInfo {
    /// The time the authorization was first added by the user.
    pub since: Time,

    /// An optional comment for the authorization.
    pub comment: Option<String>,

    /// An optional group for the authorization.
    ///
    /// The original idea was to allow grouping of specific payloads instead
    /// of aggregating all of them into one ROA if they have the same ASN.
    /// However, this is currently not used.
    pub group: Option<u32>,
}

#[derive(Clone)]
/// The current configured route authorizations of a CA.
//
//  *Warning:* This type is used in stored state.
pub struct Routes {
    /// The route authorization keyed by ROA payload.
    pub map: HashMap<RoaPayloadJsonMapKey, RouteInfo>,
}

#[derive(Clone, Copy, PartialEq, Eq, Hash)]
/// A prefix that knows which family it belongs to.
///
/// This type serializes into the string representation of the prefix.
//
//  *Warning:* This type is used in stored state.
pub enum TypedPrefix {
    /// An IPv4 prefix.
    V4(Ipv4Prefix),

    /// An IPv6 prefix.
    V6(Ipv6Prefix),
}

#[derive(Clone, Copy, PartialEq, Eq, Hash)]
/// An IPv4 prefix.
//
//  *Warning:* This type is used in stored state.
pub struct Ipv4Prefix {
    /// The address portion of the prefix.
    ///
    /// This cannot be pub because we need to enforce that non-prefix bits are
    /// zero.
    pub addr: Ipv4Addr,

    /// The address length.
    ///
    /// This cannot be pub because it needs to be less than 33.
    pub addr_len: u8,
}

#[derive(Clone, Copy, PartialEq, Eq, Hash)]
/// An IPv6 prefix.
//
//  *Warning:* This type is used in stored state.
pub struct Ipv6Prefix {
    /// The address portion of the prefix.
    ///
    /// This cannot be pub because we need to enforce that non-prefix bits
    /// are zero.
    pub addr: Ipv6Addr,

    /// The address length.
    ///
    /// This cannot be pub because it needs to be less than 129.
    pub addr_len: u8,
}

impl Default for RouteInfo {
    fn default() -> (r: Self)
        ensures r.comment is None
    {
        RouteInfo {
            since: Time::now(),
            comment: None,
            group: None,
        }
    }
}

impl Ipv4Prefix {
/// Returns the address length.
    pub fn addr_len(self) -> (r: u8)
        ensures r == self.addr_len,
{
        self.addr_len
    }
}

impl Ipv6Prefix {
/// Returns the address length.
    pub fn addr_len(self) -> (r: u8)
        ensures r == self.addr_len,
{
        self.addr_len
    }
}

impl TypedPrefix {
/// Returns the prefix length of the prefix.
    pub fn addr_len(self) -> (r: u8)
        ensures r == plen(self),
{
        match self {
            Self::V4(v4) => v4.addr_len(),
            Self::V6(v6) => v6.addr_len(),
        }
    }
}

impl RoaPayload {
/// Returns whether the max length is valid.
    ///
    /// It is valid if it is not smaller than the prefix’s length and not
    /// larger than the maximum prefix length of the address family.
    pub fn max_length_valid(&self) -> (r: bool)
        ensures r == ml_valid(*self),
{
        if let Some(max_length) = self.max_length {
            match self.prefix {
                TypedPrefix::V4(_) => {
                    max_length >= self.prefix.addr_len() && max_length <= 32
                }
                TypedPrefix::V6(_) => {
                    max_length >= self.prefix.addr_len() && max_length <= 128
                }
            }
        } else {
            true
        }
    }
}

impl Routes {
/// Removes an authorization.
    ///
    /// Returns whether the authorization was present and thus was removed.
    pub fn remove(&mut self, auth: &RoaPayloadJsonMapKey) -> (r: bool)
        requires obeys_key_model::<RoaPayloadJsonMapKey>(),
        ensures r == old(self).map@.contains_key(*auth), final(self).map@ == old(self).map@.remove(*auth),
{
        self.map.remove(auth).is_some()
    }
/// Returns the route authorization intent for the given key.
    pub fn get(&self, auth: &RoaPayloadJsonMapKey) -> (r: Option<&RouteInfo>)
        requires obeys_key_model::<RoaPayloadJsonMapKey>(),
        ensures r == (if self.map@.contains_key(*auth) { Some(&self.map@[*auth]) } else { None::<&RouteInfo> }),
{
        self.map.get(auth)
    }
/// Adds a new authorization with default route info.
    pub fn add(&mut self, auth: RoaPayloadJsonMapKey) 
        requires obeys_key_model::<RoaPayloadJsonMapKey>(),
        ensures final(self).map@.dom() == old(self).map@.dom().insert(auth), final(self).map@[auth].comment is None,
{
        self.map.insert(auth, RouteInfo::default());
    }
    #[verifier::external_body]
    pub fn update_comment(&mut self, auth: &RoaPayloadJsonMapKey, comment: Option<String>)
        ensures final(self).map@.dom() == old(self).map@.dom(),
    { unimplemented!() }
/// Processes configuration updates.
    ///
    /// Verifies that the updates are correct, i.e.:
    /// * additions are for prefixes that are part of `all_resources`,
    /// * removals are for known authorizations
    /// * additions are
    ///   - no duplicates, or
    ///   - not covered by remaining after the removals.
    ///
    /// Returns the resulting desired configurations and the events for
    /// persisting the changes, or an error in case of issues.
    pub fn process_updates(
        &self,
        handle: &CaHandle,
        all_resources: &ResourceSet,
        updates: &RoaConfigurationUpdates,
    ) -> (r: KrillResult<(Self, Vec<CertAuthEvent>)>)
        requires obeys_key_model::<RoaPayloadJsonMapKey>(),
        ensures
            r is Ok ==> forall |i: int| 0 <= i < updates.added@.len() ==> ml_valid(#[trigger] updates.added@[i].payload),
{
        let mut delta_errors = RoaDeltaError::default();
        let mut res = vec![];

        // Keep track of routes as they will be after applying the updates
        let mut desired_routes = self.clone();

        // make sure that all removals are held
        for roa_payload in &updates.removed 
            invariant obeys_key_model::<RoaPayloadJsonMapKey>(),

{
            let auth = RoaPayloadJsonMapKey::from(*roa_payload);
            if desired_routes.remove(&auth) {
                res.push(CertAuthEvent::RouteAuthorizationRemoved { auth });
            }
            else {
                delta_errors.add_unknown(*roa_payload)
            }
        }

        // make sure that all new additions are allowed
        for roa_configuration in vx_it: &updates.added 
            invariant obeys_key_model::<RoaPayloadJsonMapKey>(),
                forall |j: int| 0 <= j < vx_it.index@ ==> (ml_valid(#[trigger] updates.added@[j].payload) || err_count(delta_errors) > 0),

{
            let roa_payload = roa_configuration.payload;
            let comment = roa_configuration.comment.as_ref();

            let auth = RoaPayloadJsonMapKey::from(roa_payload);

            if !roa_payload.max_length_valid() {
                // The (max) length is invalid for this prefix
                delta_errors.add_invalid_length(roa_configuration.clone());
            }
            else if !all_resources.contains_roa_address(
                &roa_payload.as_roa_ip_address()
            ) {
                // We do not hold the prefix
                delta_errors.add_notheld(roa_configuration.clone());
            }
            else if let Some(info) = desired_routes.get(&auth) {
                // We have an existing info for this payload, this may be an
                // attempt to update the comment.
                if info.comment.as_ref() != comment {
                    // Update comment
                    res.push(CertAuthEvent::RouteAuthorizationComment {
                        auth,
                        comment: comment.cloned(),
                    });
                }
                else {
                    // Duplicate entry. We could be idempotent, but perhaps
                    // it's best to return an error
                    // instead because it seems that the user is out of sync
                    // with the current state.
                    delta_errors.add_duplicate(roa_configuration.clone());
                }
            }
            else {
                // Ok, this seems okay now
                res.push(CertAuthEvent::RouteAuthorizationAdded { auth });

                // Track to check if update has duplicates
                desired_routes.add(auth);

                if comment.is_some() {
                    // Track to check if update has duplicates
                    desired_routes.update_comment(
                        &auth, comment.cloned()
                    );
                    res.push(CertAuthEvent::RouteAuthorizationComment {
                        auth,
                        comment: comment.cloned(),
                    });
                }
            }
        }

        if !delta_errors.is_empty() {
            Err(Error::RoaDeltaError(handle.clone(), delta_errors))
        }
        else {
            Ok((desired_routes, res))
        }
    }
}
}
fn main() {}
