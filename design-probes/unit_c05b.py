from unit_c05 import *
outside2 = outside.replace("#[derive(Clone, Copy, PartialEq, Eq, Hash)] pub struct TypedPrefix(u128, u8, bool);\n","#[derive(Clone, Copy, PartialEq, Eq, Hash)] pub struct Ipv4Addr(u32);\n#[derive(Clone, Copy, PartialEq, Eq, Hash)] pub struct Ipv6Addr(u128);\n").replace("impl TypedPrefix { pub fn addr_len(self) -> u8 { self.1 } }\n","")
ext_types2=[t for t in ext_types if t!='TypedPrefix']+['Ipv4Addr','Ipv6Addr']
ext2='\n'.join(f'#[verifier::external_type_specification] #[verifier::external_body] pub struct Ex{t}({t});' for t in ext_types2)
assumed2 = assumed.replace("pub uninterp spec fn plen(p: TypedPrefix) -> u8;\n","").replace("pub uninterp spec fn is_v4(p: TypedPrefix) -> bool;\n","").replace("pub assume_specification [TypedPrefix::addr_len] (p: TypedPrefix) -> (r: u8) ensures r == plen(p);\n","")
assumed2 += '''
impl RoaPayload {
    #[verifier::external_body]
    pub fn as_roa_ip_address(self) -> (r: RoaIpAddress) ensures r == addr_of(self) { unimplemented!() }
}
impl RoaPayloadJsonMapKey {
    pub fn from(def: RoaPayload) -> (r: Self) ensures r.0 == def { RoaPayloadJsonMapKey(def) }
}
pub open spec fn plen(p: TypedPrefix) -> u8 { match p { TypedPrefix::V4(x) => x.addr_len, TypedPrefix::V6(x) => x.addr_len } }
pub open spec fn ml_valid(p: RoaPayload) -> bool {
    match p.max_length { None => true, Some(m) => m >= plen(p.prefix) && m <= (if p.prefix is V4 { 32u8 } else { 128u8 }) }
}
'''
items=open('items05.txt').read()
more=[]
more.append('#[derive(Clone, Copy, PartialEq, Eq, Hash)]\n'+S(API, enum='TypedPrefix'))
more.append('#[derive(Clone, Copy, PartialEq, Eq, Hash)]\n'+S(API, struct='Ipv4Prefix'))
more.append('#[derive(Clone, Copy, PartialEq, Eq, Hash)]\n'+S(API, struct='Ipv6Prefix'))
more.append('''impl Default for RouteInfo {
    fn default() -> (r: Self)
        ensures r.comment is None
    {
        RouteInfo {
            since: Time::now(),
            comment: None,
            group: None,
        }
    }
}''')
more.append('impl Ipv4Prefix {\n'+F(API,'Ipv4Prefix','addr_len','        ensures r == self.addr_len,')+'\n}')
more.append('impl Ipv6Prefix {\n'+F(API,'Ipv6Prefix','addr_len','        ensures r == self.addr_len,')+'\n}')
more.append('impl TypedPrefix {\n'+F(API,'TypedPrefix','addr_len','        ensures r == plen(self),')+'\n}')
more.append('impl RoaPayload {\n'+F(API,'RoaPayload','max_length_valid','        ensures r == ml_valid(*self),')+'\n}')
inv_rm='''            invariant
                obeys_key_model::<RoaPayloadJsonMapKey>(),
                err_count(delta_errors) == 0 ==> true,
'''
more.append('impl Routes {\n'
  + F(ROA,'Routes','remove','        requires obeys_key_model::<RoaPayloadJsonMapKey>(),\n        ensures r == old(self).map@.contains_key(*auth), final(self).map@ == old(self).map@.remove(*auth),')
  + '\n' + F(ROA,'Routes','get','        requires obeys_key_model::<RoaPayloadJsonMapKey>(),\n        ensures r == (if self.map@.contains_key(*auth) { Some(&self.map@[*auth]) } else { None::<&RouteInfo> }),')
  + '\n' + fn_with_contract(ROA,'Routes','add','        requires obeys_key_model::<RoaPayloadJsonMapKey>(),\n        ensures final(self).map@.dom() == old(self).map@.dom().insert(auth), final(self).map@[auth].comment is None,')
  + '\n' + '''    #[verifier::external_body]
    pub fn update_comment(&mut self, auth: &RoaPayloadJsonMapKey, comment: Option<String>)
        ensures final(self).map@.dom() == old(self).map@.dom(),
    { unimplemented!() }'''
  + '\n' + F(ROA,'Routes','process_updates','''        requires obeys_key_model::<RoaPayloadJsonMapKey>(),
        ensures
            r is Ok ==> forall |i: int| 0 <= i < updates.added@.len() ==> ml_valid(#[trigger] updates.added@[i].payload),''',
        loops={0:'''            invariant obeys_key_model::<RoaPayloadJsonMapKey>(),
''',1:'''            invariant obeys_key_model::<RoaPayloadJsonMapKey>(),
                forall |j: int| 0 <= j < vx_it.index@ ==> (ml_valid(#[trigger] updates.added@[j].payload) || err_count(delta_errors) > 0),
''' })
  + '\n}')
unit = outside2 + '\nverus! {\n' + ext2 + assumed2 + items + '\n\n' + '\n\n'.join(more) + '\n}\nfn main() {}\n'
# R1: remove log macros (none here). 
open('unit_c05.rs','w').write(unit)
r=subprocess.run(['verus','--edition','2024','unit_c05.rs'],capture_output=True,text=True)
out=r.stdout+r.stderr
print('\n'.join(l for l in out.split('\n') if not l.startswith('WARNING') and 'Verus does not (yet) support autoderive' not in l)[:7000])
