from unit_c10 import fn_r1
from assemble import *
import subprocess
RC='/repo/src/server/ca/rc.rs'; KEYS='/repo/src/server/ca/keys.rs'
def S(path, **kw): return pubfields(strip_attrs(item(path, **kw)[0]))
outside='''
use vstd::prelude::*;
#[derive(Clone, Copy, PartialEq, Eq)] pub struct KeyIdentifier([u8; 20]);
#[derive(Clone)] pub struct ReceivedCert(Vec<u8>);
#[derive(Clone)] pub struct IssuanceRequest(Vec<u8>);
#[derive(Clone)] pub struct RepoInfo(Vec<u8>);
#[derive(Clone)] pub struct RevocationRequest(Vec<u8>);
#[derive(Clone)] pub struct ResourceClassName(Vec<u8>);
#[derive(Clone)] pub struct ParentHandle(Vec<u8>);
#[derive(Clone)] pub struct CaHandle(Vec<u8>);
#[derive(Clone)] pub struct Roas(Vec<u8>);
#[derive(Clone)] pub struct AspaObjects(Vec<u8>);
#[derive(Clone)] pub struct BgpSecCertificates(Vec<u8>);
#[derive(Clone)] pub struct ChildCertificates(Vec<u8>);
#[derive(Clone, Copy)] pub struct Time(i64);
pub struct Routes(u8); pub struct AspaDefinitions(u8); pub struct BgpSecDefinitions(u8); pub struct Config(u8); pub struct KrillSigner(u8);
pub type KrillResult<T> = Result<T, Error>;
pub type CurrentKey = CertifiedKey;
pub type NewKey = CertifiedKey;
pub use Error as KrillError;
impl ReceivedCert { pub fn key_identifier(&self) -> KeyIdentifier { unimplemented!() } }
'''
ext_types=['KeyIdentifier','ReceivedCert','IssuanceRequest','RepoInfo','RevocationRequest','ResourceClassName','ParentHandle','CaHandle','Roas','AspaObjects','BgpSecCertificates','ChildCertificates','Time','Routes','AspaDefinitions','BgpSecDefinitions','Config','KrillSigner']
ext='\n'.join(f'#[verifier::external_type_specification] #[verifier::external_body] pub struct Ex{t}({t});' for t in ext_types)
inside=ext+'''
impl vstd::std_specs::cmp::PartialEqSpecImpl for KeyIdentifier {
    open spec fn obeys_eq_spec() -> bool { true }
    open spec fn eq_spec(&self, other: &KeyIdentifier) -> bool { *self == *other }
}
pub assume_specification [<KeyIdentifier as PartialEq>::eq] (a: &KeyIdentifier, b: &KeyIdentifier) -> (r: bool);
pub uninterp spec fn ki_of(c: ReceivedCert) -> KeyIdentifier;
pub assume_specification [ReceivedCert::key_identifier] (c: &ReceivedCert) -> (r: KeyIdentifier) ensures r == ki_of(*c);
pub assume_specification [<ResourceClassName as Clone>::clone] (n: &ResourceClassName) -> (r: ResourceClassName) ensures r == *n;
pub assume_specification [<ReceivedCert as Clone>::clone] (n: &ReceivedCert) -> (r: ReceivedCert) ensures r == *n;

pub enum Error { KeyUseNoMatch(KeyIdentifier), KeyUseNoOldKey, KeyUseNoNewKey, KeyRollActivatePendingRequests, VxOther }
pub enum CertAuthEvent {
    KeyPendingToNew { resource_class_name: ResourceClassName, new_key: CertifiedKey },
    KeyPendingToActive { resource_class_name: ResourceClassName, current_key: CertifiedKey },
    CertificateReceived { resource_class_name: ResourceClassName, ki: KeyIdentifier, rcvd_cert: ReceivedCert },
    KeyRollFinished { resource_class_name: ResourceClassName },
    VxOther,
}
pub enum Phase { Pending, Active, RollPending, RollNew, RollOld }
pub open spec fn phase(k: KeyState) -> Phase {
    match k { KeyState::Pending(_) => Phase::Pending, KeyState::Active(_) => Phase::Active, KeyState::RollPending(_, _) => Phase::RollPending,
              KeyState::RollNew(_, _) => Phase::RollNew, KeyState::RollOld(_, _) => Phase::RollOld }
}
'''
body=[]
for st in ['CertifiedKey','PendingKey','OldKey']:
    body.append('#[derive(Clone)]\n'+S(KEYS, struct=st))
body.append(S(KEYS, enum='KeyState'))
body.append(S(RC, struct='ResourceClass'))
body.append('impl CertifiedKey {\n'+fn_r1(KEYS,'CertifiedKey','create','        ensures r.key_id == ki_of(incoming_cert), r.incoming_cert == incoming_cert, r.request is None,')
  +'\n'+fn_r1(KEYS,'CertifiedKey','key_id','        ensures r == self.key_id,')
  +'\n'+fn_r1(KEYS,'CertifiedKey','set_incoming_cert','        ensures final(self).request is None, final(self).incoming_cert == cert, final(self).key_id == old(self).key_id,')+'\n}')
body.append('impl PendingKey {\n'+fn_r1(KEYS,'PendingKey','new','        ensures r.key_id == key_id, r.request is None,')+'\n'+fn_r1(KEYS,'PendingKey','key_id','        ensures r == self.key_id,')+'\n}')
body.append('impl OldKey {\n'+fn_r1(KEYS,'OldKey','new','        ensures r.key == key, r.revoke_req == revoke_req,')+'\n'+fn_r1(KEYS,'OldKey','set_incoming_cert','        ensures final(self).key.request is None, final(self).key.key_id == old(self).key.key_id, final(self).revoke_req == old(self).revoke_req,')+'\n}')
rcfns=[]
rcfns.append(fn_r1(RC,'ResourceClass','apply_received_cert','        requires !(phase(old(self).key_state) is Pending),\n        ensures phase(final(self).key_state) == phase(old(self).key_state),'))
rcfns.append(fn_r1(RC,'ResourceClass','apply_pending_key_id_added','        requires phase(old(self).key_state) is Active,\n        ensures phase(final(self).key_state) is RollPending, final(self).key_state->RollPending_1 == old(self).key_state->Active_0,'))
rcfns.append(fn_r1(RC,'ResourceClass','apply_pending_key_to_new','        requires phase(old(self).key_state) is RollPending,\n        ensures phase(final(self).key_state) is RollNew, final(self).key_state->RollNew_0 == new, final(self).key_state->RollNew_1 == old(self).key_state->RollPending_1,'))
rcfns.append(fn_r1(RC,'ResourceClass','apply_pending_key_to_active','        requires phase(old(self).key_state) is Pending,\n        ensures final(self).key_state == KeyState::Active(new),'))
rcfns.append(fn_r1(RC,'ResourceClass','apply_new_key_activated','        requires phase(old(self).key_state) is RollNew,\n        ensures phase(final(self).key_state) is RollOld, final(self).key_state->RollOld_0 == old(self).key_state->RollNew_0, final(self).key_state->RollOld_1.key == old(self).key_state->RollNew_1,'))
rcfns.append(fn_r1(RC,'ResourceClass','apply_old_key_removed','        requires phase(old(self).key_state) is RollOld,\n        ensures final(self).key_state == KeyState::Active(old(self).key_state->RollOld_0),'))
rcfns.append(fn_r1(RC,'ResourceClass','process_keyroll_finish','        ensures r is Ok ==> phase(self.key_state) is RollOld && r->Ok_0 is KeyRollFinished,\n            r is Err ==> !(phase(self.key_state) is RollOld),'))
rcfns.append(fn_r1(RC,'ResourceClass','key_roll_possible','        ensures r == (phase(self.key_state) is Active),'))
body.append('impl ResourceClass {\n'+'\n'.join(rcfns)+'\n}')
unit=outside+'\nverus! {\n'+inside+'\n\n'.join(body)+'\n}\nfn main() {}\n'
open('unit_c04.rs','w').write(unit)
r=subprocess.run(['verus','--edition','2024','--multiple-errors','20','unit_c04.rs'],capture_output=True,text=True)
out=r.stdout+r.stderr
print('\n'.join(l for l in out.split('\n') if not l.startswith('WARNING') and 'autoderive' not in l)[:6000])
