// Fully symbolic 2 ROAs x 2 origins harnesses: 12 GB / no verdict in 20 min (CBMC 6.11). Replaced by the *_small variants.
// validate_set: every origin of the set gets exactly the RFC 6811 verdict w.r.t. ALL given ROAs (nothing dropped, nothing merged)
#[kani::proof]
#[kani::unwind(4)]
fn k_validate_set_2x2() {
    let (p0, p1) = (any_v4(), any_v4());
    let (c0, c1) = (any_cfg(p0), any_cfg(p1));
    let roas = [Roa::new(p0, &c0), Roa::new(p1, &c1)];
    let q = any_v4();
    let origins = [RouteOrigin { prefix: q, origin: any_asn() }, RouteOrigin { prefix: q, origin: any_asn() }];
    let mut target = Vec::new();
    ValidatedRouteOrigin::validate_set(mk_origin_set(&origins), &roas, &mut target);
    assert!(target.len() == 2);
    assert!(target[0].route_origin == origins[0] && target[1].route_origin == origins[1]);
    assert!(code(target[0].validity) == expected([(&c0, p0), (&c1, p1)], origins[0]));
    assert!(code(target[1].validity) == expected([(&c0, p0), (&c1, p1)], origins[1]));
    kani::cover!(code(target[0].validity) == 0 && p0 == p1 && c0.roa_configuration.payload.asn == c1.roa_configuration.payload.asn);
    kani::cover!(code(target[0].validity) == 1);
    kani::cover!(code(target[0].validity) == 4);
}

// categorise_roa: the reported authorizes set is exactly the origins this ROA matches; a ROA is only called redundant
// if another ROA really includes its definition (same AS, covering prefix, max length at least as large)
#[kani::proof]
#[kani::unwind(4)]
fn k_categorise_roa_2x2() {
    let (p0, p1) = (any_v4(), any_v4());
    let (c0, c1) = (any_cfg(p0), any_cfg(p1));
    let roas = [Roa::new(p0, &c0), Roa::new(p1, &c1)];
    let q = any_v4();
    let origins = [RouteOrigin { prefix: q, origin: any_asn() }, RouteOrigin { prefix: q, origin: any_asn() }];
    kani::assume(origins[0].origin != origins[1].origin);
    let mut validated = Vec::new();
    ValidatedRouteOrigin::validate_set(mk_origin_set(&origins), &roas, &mut validated);
    let entry = BgpAnalyser::categorise_roa(roas[0], &validated, &roas);
    let m0 = matches(&c0, p0, origins[0]);
    let m1 = matches(&c0, p0, origins[1]);
    let carries = matches!(entry.state, BgpAnalysisState::RoaSeen | BgpAnalysisState::RoaRedundant | BgpAnalysisState::RoaTooPermissive);
    if carries {
        assert!(entry.authorizes.len() == (m0 as usize) + (m1 as usize));
        assert!(entry.authorizes.contains(&Announcement::from(origins[0])) == m0);
        assert!(entry.authorizes.contains(&Announcement::from(origins[1])) == m1);
    }
    if c0.roa_configuration.payload.asn != AsNumber::AS0 && !m0 && !m1 {
        assert!(!matches!(entry.state, BgpAnalysisState::RoaSeen | BgpAnalysisState::RoaTooPermissive));
    }
    if entry.state == BgpAnalysisState::RoaRedundant {
        // the other ROA includes this definition
        assert!(c1.roa_configuration.payload != c0.roa_configuration.payload);
        assert!(c1.roa_configuration.payload.asn == c0.roa_configuration.payload.asn);
        assert!(p1.covers(p0));
        assert!(eml(&c1, p1) >= eml(&c0, p0));
    }
    // never proposes as unseen/removable a ROA that validates an observed announcement
    if m0 || m1 { assert!(entry.state != BgpAnalysisState::RoaUnseen && entry.state != BgpAnalysisState::RoaDisallowing); }
    kani::cover!(entry.state == BgpAnalysisState::RoaRedundant);
    kani::cover!(entry.state == BgpAnalysisState::RoaSeen);
}


// ---- slim categorise_roa variant: TIMEOUT after 900 s (CBMC 6.11), no verdict; the classification predicates are covered by V unit c17_categorise ----
// categorise_roa, slim: same universe, 2 ROAs x 1 origin
#[kani::proof]
#[kani::unwind(6)]
fn k_categorise_roa_small() {
    let (p0, p1) = (small_v4(), small_v4());
    let (c0, c1) = (small_cfg(p0), small_cfg(p1));
    let roas = [Roa::new(p0, &c0), Roa::new(p1, &c1)];
    let origins = [RouteOrigin { prefix: small_v4(), origin: any_asn() }];
    let mut validated = Vec::new();
    ValidatedRouteOrigin::validate_set(mk_origin_set(&origins), &roas, &mut validated);
    let entry = BgpAnalyser::categorise_roa(roas[0], &validated, &roas);
    let m0 = matches(&c0, p0, origins[0]);
    let carries = matches!(entry.state, BgpAnalysisState::RoaSeen | BgpAnalysisState::RoaRedundant | BgpAnalysisState::RoaTooPermissive);
    if carries {
        assert!(entry.authorizes.len() == (m0 as usize));
    }
    if c0.roa_configuration.payload.asn != AsNumber::AS0 && !m0 {
        assert!(!matches!(entry.state, BgpAnalysisState::RoaSeen | BgpAnalysisState::RoaTooPermissive));
    }
    if entry.state == BgpAnalysisState::RoaRedundant {
        assert!(c1.roa_configuration.payload != c0.roa_configuration.payload);
        assert!(c1.roa_configuration.payload.asn == c0.roa_configuration.payload.asn);
        assert!(p1.covers(p0));
        assert!(eml(&c1, p1) >= eml(&c0, p0));
    }
    if m0 { assert!(entry.state != BgpAnalysisState::RoaUnseen && entry.state != BgpAnalysisState::RoaDisallowing); }
    kani::cover!(entry.state == BgpAnalysisState::RoaRedundant);
    kani::cover!(entry.state == BgpAnalysisState::RoaSeen);
}
