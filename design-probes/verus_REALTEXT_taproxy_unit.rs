
use vstd::prelude::*;
use std::collections::HashMap;
#[derive(Clone)] pub struct CaHandle(Vec<u8>);
#[derive(Clone)] pub struct ChildHandle(Vec<u8>);
#[derive(Clone)] pub struct IdCertInfo(Vec<u8>);
#[derive(Clone)] pub struct RepositoryContact(Vec<u8>);
#[derive(Clone)] pub struct TrustAnchorChild(Vec<u8>);
#[derive(Clone, PartialEq, Eq)] pub struct Nonce(std::sync::Arc<str>);
impl Nonce { pub fn new() -> Self { unimplemented!() } }
pub struct TrustAnchorObjects(u8); pub struct TaCertDetails(u8);
pub struct TrustAnchorSignerResponse { pub nonce: Nonce, pub objects: TrustAnchorObjects }
pub struct TrustAnchorSignedResponse(u8);
impl TrustAnchorSignedResponse {
    pub fn validate(&self, _issuer: &IdCertInfo) -> Result<(), Error> { unimplemented!() }
    pub fn content(&self) -> &TrustAnchorSignerResponse { unimplemented!() }
    pub fn into_content(self) -> TrustAnchorSignerResponse { unimplemented!() }
}
pub type KrillResult<T> = Result<T, Error>;

verus! {

#[verifier::external_type_specification] #[verifier::external_body] pub struct ExCaHandle(CaHandle);
#[verifier::external_type_specification] #[verifier::external_body] pub struct ExChildHandle(ChildHandle);
#[verifier::external_type_specification] #[verifier::external_body] pub struct ExIdCertInfo(IdCertInfo);
#[verifier::external_type_specification] #[verifier::external_body] pub struct ExRepositoryContact(RepositoryContact);
#[verifier::external_type_specification] #[verifier::external_body] pub struct ExTrustAnchorChild(TrustAnchorChild);
#[verifier::external_type_specification] #[verifier::external_body] pub struct ExNonce(Nonce);
#[verifier::external_type_specification] #[verifier::external_body] pub struct ExTAO(TrustAnchorObjects);
#[verifier::external_type_specification] #[verifier::external_body] pub struct ExTCD(TaCertDetails);
#[verifier::external_type_specification] pub struct ExTASR(TrustAnchorSignerResponse);
#[verifier::external_type_specification] #[verifier::external_body] pub struct ExTASignedR(TrustAnchorSignedResponse);
impl vstd::std_specs::cmp::PartialEqSpecImpl for Nonce {
    open spec fn obeys_eq_spec() -> bool { true }
    open spec fn eq_spec(&self, other: &Nonce) -> bool { *self == *other }
}
pub assume_specification [<Nonce as PartialEq>::eq] (a: &Nonce, b: &Nonce) -> (r: bool);
pub assume_specification [<Nonce as Clone>::clone] (a: &Nonce) -> (r: Nonce) ensures r == *a;
pub assume_specification [Nonce::new] () -> (r: Nonce);
pub uninterp spec fn valid_sig(r: TrustAnchorSignedResponse, id: IdCertInfo) -> bool;
pub uninterp spec fn nonce_of(r: TrustAnchorSignedResponse) -> Nonce;
pub assume_specification [TrustAnchorSignedResponse::validate] (r: &TrustAnchorSignedResponse, issuer: &IdCertInfo) -> (o: Result<(), Error>) ensures o is Ok <==> valid_sig(*r, *issuer);
pub assume_specification [TrustAnchorSignedResponse::content] (r: &TrustAnchorSignedResponse) -> (o: &TrustAnchorSignerResponse) ensures o.nonce == nonce_of(*r);
pub assume_specification [TrustAnchorSignedResponse::into_content] (r: TrustAnchorSignedResponse) -> (o: TrustAnchorSignerResponse) ensures o.nonce == nonce_of(r);

pub struct TrustAnchorSignerInfo { pub id: IdCertInfo, pub objects: TrustAnchorObjects, pub ta_cert_details: TaCertDetails }
pub enum Error { TaProxyHasNoRequest, TaProxyRequestNonceMismatch(Nonce, Nonce), TaProxyHasNoSigner, TaProxyHasRequest, VxOther }
pub enum TrustAnchorProxyEvent { SignerRequestMade(Nonce), SignerResponseReceived(TrustAnchorSignedResponse), VxOther }
/// Krill Trust Anchors are split into the following two components:
///   - Trust Anchor Proxy
///   - Trust Anchor Signer
///
/// The Trust Anchor Proxy performs all Trust Anchor responsibilities
/// *except* for signing using the Trust Anchor private key. That function
/// is handled by the Trust Anchor Signer instead. The reason for this
/// division is that it allows for operations where the signer is kept
/// on a separate offline system. The proxy on the other hand can maintain
/// the communication with child CAs and take care of publication.
///
/// Note however, that the signer can also be be embedded to support test
/// systems as well as functional and regression testing of the proxy-signer
/// communication.
///
/// Another (unrelated) thing to note is that Krill Trust Anchors are, for
/// the moment, set up to always claim all IPv4, IPv6 and ASN resources. This
/// is inline with how the current RIR Trust Anchors are being managed at the
/// moment. That said, we may add support for claiming (and changing) a
/// specific set of resources in future.
//
//  *Warning:* This type is used in stored state.
pub struct TrustAnchorProxy {
    // event-sourcing support
    pub handle: CaHandle,
    pub version: u64,

    // ID certificate used by this proxy
    pub id: IdCertInfo,

    // The associated signer. Needs to be added after initialisation.
    pub signer: Option<TrustAnchorSignerInfo>,

    // The proxy is responsible for publishing all objects.
    pub repository: Option<RepositoryContact>,

    // Typically the Trust Anchor would be set up with a single child, that
    // gets a certificate with all resources. This child can then be the
    // de-facto *online* trust anchor in setups where the Trust Anchor Signer
    // is kept offline. This is useful because signing certificates to many
    // children - and especially updating their resources - directly under
    // an offline signer would be cumbersome, or at the very least add
    // significant delays in operation.
    //
    // But, there may be use cases for multiple children under the Trust
    // Anchor. In particular for testing purposes where the signer is not
    // offline.
    //
    // For this reason we support any number of child CAs to exist under
    // the TA.
    pub child_details: HashMap<ChildHandle, TrustAnchorChild>,

    // Track if there is any open signer request. Responses MUST match the
    // the nonce. Furthermore, child interactions are suspended when there
    // is an open request. We first need to process the response, before we
    // can accept new requests from any child.
    pub open_signer_request: Option<Nonce>,
}

impl TrustAnchorProxy {
fn process_make_signer_request(
        &self,
    ) -> (r: KrillResult<Vec<TrustAnchorProxyEvent>>)
        ensures r is Ok <==> self.open_signer_request is None,
            r is Ok ==> r->Ok_0@.len() == 1 && r->Ok_0@[0] is SignerRequestMade,
{
        if self.open_signer_request.is_some() {
            Err(Error::TaProxyHasRequest)
        } else {
            Ok(vec![TrustAnchorProxyEvent::SignerRequestMade(Nonce::new())])
        }
    }
fn process_signer_response(
        &self,
        response: TrustAnchorSignedResponse,
    ) -> (r: KrillResult<Vec<TrustAnchorProxyEvent>>)
        ensures
            r is Ok ==> self.open_signer_request is Some && nonce_of(response) == self.open_signer_request->Some_0
                && self.signer is Some && valid_sig(response, self.signer->Some_0.id)
                && r->Ok_0@.len() == 1 && r->Ok_0@[0] == TrustAnchorProxyEvent::SignerResponseReceived(response),
{
        let open_request_nonce = self
            .open_signer_request
            .as_ref()
            .ok_or(Error::TaProxyHasNoRequest)?;

        if &response.content().nonce != open_request_nonce {
            // It seems that the user uploaded the wrong the response.
            Err(Error::TaProxyRequestNonceMismatch(
                response.into_content().nonce,
                open_request_nonce.clone(),
            ))
        } else if let Some(signer) = &self.signer {
            // Ensure that the response was validly signed.
            response.validate(&signer.id)?;

            // We accept the response as is. Since children cannot be
            // modified, and requests cannot change as long as
            // there is an open signer request we cannot have any
            // mismatches between the children and child requests in the proxy
            // vs the children and responses received from the
            // signer.
            //
            // In other words.. we trust that the associated signer functions
            // correctly and we have no further defensive coding
            // on this side.
            //
            // Note that if we would reject the response, then there would be
            // no way of telling the signer why. So, this is also
            // a matter of the 'the signer is always right'.
            Ok(vec![TrustAnchorProxyEvent::SignerResponseReceived(
                response,
            )])
        } else {
            // This is rather unexpected.. it implies that we had a request,
            // but no signer. Still - return a clean error for
            // this, so unlikely as this may be, it can be
            // investigated.
            Err(Error::TaProxyHasNoSigner)
        }
    }
}
}
fn main() {}
