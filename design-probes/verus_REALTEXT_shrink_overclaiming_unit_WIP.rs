
use vstd::prelude::*;
use vstd::std_specs::hash::*;
use std::collections::HashMap;
#[derive(Clone, Copy, PartialEq, Eq, Hash)] pub struct KeyIdentifier([u8; 20]);
#[derive(Clone)] pub struct ResourceSet(Vec<u8>);
impl ResourceSet {
    pub fn contains(&self, _o: &ResourceSet) -> bool { unimplemented!() }
    pub fn intersection(&self, _o: &ResourceSet) -> ResourceSet { unimplemented!() }
    pub fn is_empty(&self) -> bool { unimplemented!() }
}
pub struct IssuanceTimingConfig(u8); pub struct KrillSigner(u8);
pub struct Error(u8);
pub type KrillResult<T> = Result<T, Error>;
pub struct Issued; pub struct Suspended; pub struct Unsuspended; pub struct Received;
pub type IssuedCertificate = CertInfo<Issued>;
pub type SuspendedCert = CertInfo<Suspended>;
pub type UnsuspendedCert = CertInfo<Unsuspended>;
pub type ReceivedCert = CertInfo<Received>;

verus! {

#[verifier::external_type_specification] #[verifier::external_body] pub struct Ex1(KeyIdentifier);
#[verifier::external_type_specification] #[verifier::external_body] pub struct Ex2(ResourceSet);
#[verifier::external_type_specification] #[verifier::external_body] pub struct Ex3(IssuanceTimingConfig);
#[verifier::external_type_specification] #[verifier::external_body] pub struct Ex4(KrillSigner);
#[verifier::external_type_specification] #[verifier::external_body] pub struct Ex5(Error);
#[verifier::external_type_specification] #[verifier::external_body] pub struct Ex6(Issued);
#[verifier::external_type_specification] #[verifier::external_body] pub struct Ex7(Suspended);
#[verifier::external_type_specification] #[verifier::external_body] pub struct Ex8(Unsuspended);
#[verifier::external_type_specification] #[verifier::external_body] pub struct Ex9(Received);
pub uninterp spec fn rs_contains(a: ResourceSet, b: ResourceSet) -> bool;
pub uninterp spec fn rs_inter(a: ResourceSet, b: ResourceSet) -> ResourceSet;
pub uninterp spec fn rs_empty(a: ResourceSet) -> bool;
pub assume_specification [ResourceSet::contains] (a: &ResourceSet, b: &ResourceSet) -> (r: bool) ensures r == rs_contains(*a, *b);
pub assume_specification [ResourceSet::intersection] (a: &ResourceSet, b: &ResourceSet) -> (r: ResourceSet) ensures r == rs_inter(*a, *b);
pub assume_specification [ResourceSet::is_empty] (a: &ResourceSet) -> (r: bool) ensures r == rs_empty(*a);

// simplified CertInfo for this probe: only the fields the unit touches (the real struct was accepted in the C03 probe)
pub struct CertInfo<T> { pub ki: KeyIdentifier, pub resources: ResourceSet, pub marker: std::marker::PhantomData<T> }
impl<T> CertInfo<T> {
    pub fn key_identifier(&self) -> (r: KeyIdentifier) ensures r == self.ki { self.ki }
    #[verifier::external_body]
    pub fn to_converted<Y>(&self) -> (r: CertInfo<Y>) ensures r.ki == self.ki, r.resources == self.resources { unimplemented!() }
    #[verifier::external_body]
    pub fn into_converted<Y>(self) -> (r: CertInfo<Y>) ensures r.ki == self.ki, r.resources == self.resources { unimplemented!() }
}

pub open spec fn overclaims(c: ResourceSet, new: ResourceSet) -> bool { !rs_contains(new, c) }
impl<T> CertInfo<T> {
/// Returns a set of reduced applicable resources.
    ///
    /// This set is the intersection of the encompassing resources and this
    /// certificate's current resources.
    ///
    /// Returns `None` if the current resource set is not overclaiming and
    /// does not need to be reduced.
    pub fn reduced_applicable_resources(
        &self, encompassing: &ResourceSet,
    ) -> (r: Option<ResourceSet>)
        ensures
            r is None <==> rs_contains(*encompassing, self.resources),
            r is Some ==> r->Some_0 == rs_inter(*encompassing, self.resources),
{
        if encompassing.contains(&self.resources) {
            None
        } else {
            Some(encompassing.intersection(&self.resources))
        }
    }
}

/// The collection of certificates issued under a resource class.
//
//  *Warning:* This type is used in stored state.
pub struct ChildCertificates {
    /// The certificates for active CAs.
    //
    // Note: we cannot remove the alias unless we migrate existing json on
    // upgrade.
    pub issued: HashMap<KeyIdentifier, IssuedCertificate>,

    /// The certificates for suspended child CAs.
    pub suspended: HashMap<KeyIdentifier, SuspendedCert>,
}

/// Describes an update to the set of ROAs under a ResourceClass.
//
//  *Warning:* This type is used in stored state.
pub struct ChildCertificateUpdates {
    /// Issued certificates that have been added.
    ///
    /// Note that these are typically newly issued certificates, but can
    /// also be a previously issued certificates which have been suspended
    /// and are now unsuspended.
    pub issued: Vec<IssuedCertificate>,

    /// Key identifiers of certificates that have been removed.
    ///
    /// Added keys will be revoked.
    pub removed: Vec<KeyIdentifier>,

    /// The certificates that have been suspended.
    pub suspended: Vec<SuspendedCert>,

    /// The certificates that have been unsuspended.
    ///
    /// This is no longer used as of Krill 0.16.0, but kept because it is in
    /// stored state.
    pub unsuspended: Vec<UnsuspendedCert>,
}

impl Default for ChildCertificateUpdates { fn default() -> (r: Self) ensures r.issued@.len() == 0, r.removed@.len() == 0, r.suspended@.len() == 0, r.unsuspended@.len() == 0
  { ChildCertificateUpdates { issued: Vec::new(), removed: Vec::new(), suspended: Vec::new(), unsuspended: Vec::new() } } }

impl ChildCertificates {

    #[verifier::external_body]
    fn re_issue(&self, previous: &IssuedCertificate, updated_resources: Option<ResourceSet>, signing_cert: &ReceivedCert,
                issuance_timing: &IssuanceTimingConfig, signer: &KrillSigner) -> (r: KrillResult<IssuedCertificate>)
        ensures r is Ok ==> r->Ok_0.ki == previous.ki && r->Ok_0.resources == (match updated_resources { Some(x) => x, None => previous.resources })
    { unimplemented!() }
/// Shrink any overclaiming certificates.
    ///
    /// Note: We need to pro-actively shrink child certificates to avoid
    /// invalidating them. But, if we gain additional resources it is up to
    /// child to request a new certificate with those resources.
    pub fn shrink_overclaiming(
        &self,
        received_cert: &ReceivedCert,
        issuance_timing: &IssuanceTimingConfig,
        signer: &KrillSigner,
    ) -> (r: KrillResult<ChildCertificateUpdates>)
        requires obeys_key_model::<KeyIdentifier>(),
        ensures
            r is Ok ==> r->Ok_0.unsuspended@.len() == 0,
            // every overclaiming issued certificate is either removed (nothing left) or re-issued with exactly the intersection
            r is Ok ==> forall |k: KeyIdentifier| #[trigger] self.issued@.contains_key(k) && overclaims(self.issued@[k].resources, received_cert.resources) ==> (
                if rs_empty(rs_inter(received_cert.resources, self.issued@[k].resources)) {
                    exists |i: int| 0 <= i < r->Ok_0.removed@.len() && r->Ok_0.removed@[i] == self.issued@[k].ki
                } else {
                    exists |i: int| 0 <= i < r->Ok_0.issued@.len() && r->Ok_0.issued@[i].ki == self.issued@[k].ki
                        && r->Ok_0.issued@[i].resources == rs_inter(received_cert.resources, self.issued@[k].resources)
                }),
{
        let mut updates = ChildCertificateUpdates::default();

        let updated_resources = &received_cert.resources;

        for issued in self.issued.values() 
            invariant obeys_key_model::<KeyIdentifier>(), updates.unsuspended@.len() == 0, *updated_resources == received_cert.resources,

{
            if let Some(reduced_set) =
                issued.reduced_applicable_resources(updated_resources)
            {
                if reduced_set.is_empty() {
                    // revoke
                    updates.removed.push(issued.key_identifier());
                }
                else {
                    // re-issue
                    updates.issued.push(self.re_issue(
                        issued,
                        Some(reduced_set),
                        received_cert,
                        issuance_timing,
                        signer,
                    )?);
                }
            }
        }

        // Also shrink suspended, in case they would come back
        for suspended in self.suspended.values() 
            invariant obeys_key_model::<KeyIdentifier>(), updates.unsuspended@.len() == 0, *updated_resources == received_cert.resources,

{
            if let Some(reduced_set) =
                suspended.reduced_applicable_resources(updated_resources)
            {
                if reduced_set.is_empty() {
                    // revoke
                    updates.removed.push(suspended.key_identifier());
                }
                else {
                    // re-issue shrunk suspended
                    //
                    // Note: this will not be published yet, but remain
                    // suspended until the child contacts us again, or is
                    // manually un-suspended.
                    updates.suspended.push(
                        self.re_issue(
                            &suspended.to_converted(),
                            Some(reduced_set),
                            received_cert,
                            issuance_timing,
                            signer,
                        )?.into_converted(),
                    );
                }
            }
        }

        Ok(updates)
    }
}
}
fn main() {}
