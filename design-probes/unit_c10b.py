from unit_c10 import *
spec='''
pub open spec fn merge1(o: Option<DeltaElement>, n: DeltaElement) -> Option<DeltaElement> {
    match n {
        DeltaElement::Publish(p) => match o {
            Some(DeltaElement::Publish(_sp)) => Some(DeltaElement::Publish(p)),
            Some(DeltaElement::Update(su)) => Some(DeltaElement::Update(UpdateElement { uri: su.uri, hash: su.hash, base64: p.base64 })),
            Some(DeltaElement::Withdraw(sw)) => Some(DeltaElement::Update(UpdateElement { uri: p.uri, hash: sw.hash, base64: p.base64 })),
            None => Some(DeltaElement::Publish(p)),
        },
        DeltaElement::Update(u) => match o {
            Some(DeltaElement::Publish(sp)) => Some(DeltaElement::Publish(PublishElement { uri: sp.uri, base64: u.base64 })),
            Some(DeltaElement::Update(su)) => Some(DeltaElement::Update(UpdateElement { uri: su.uri, hash: su.hash, base64: u.base64 })),
            Some(DeltaElement::Withdraw(sw)) => Some(DeltaElement::Update(UpdateElement { uri: u.uri, hash: sw.hash, base64: u.base64 })),
            None => Some(DeltaElement::Update(u)),
        },
        DeltaElement::Withdraw(w) => match o {
            Some(DeltaElement::Publish(_sp)) => None,
            Some(DeltaElement::Update(su)) => Some(DeltaElement::Withdraw(WithdrawElement { uri: w.uri, hash: su.hash })),
            Some(DeltaElement::Withdraw(sw)) => Some(DeltaElement::Withdraw(sw)),
            None => Some(DeltaElement::Withdraw(w)),
        },
    }
}
pub open spec fn get_opt(m: Map<uri::Rsync, DeltaElement>, k: uri::Rsync) -> Option<DeltaElement> {
    if m.contains_key(k) { Some(m[k]) } else { None }
}
pub open spec fn distinct_uris(d: DeltaElements) -> bool {
    &&& forall |i: int, j: int| 0 <= i < j < d.publishes@.len() ==> d.publishes@[i].uri != d.publishes@[j].uri
    &&& forall |i: int, j: int| 0 <= i < j < d.updates@.len() ==> d.updates@[i].uri != d.updates@[j].uri
    &&& forall |i: int, j: int| 0 <= i < j < d.withdraws@.len() ==> d.withdraws@[i].uri != d.withdraws@[j].uri
    &&& forall |i: int, j: int| 0 <= i < d.publishes@.len() && 0 <= j < d.updates@.len() ==> d.publishes@[i].uri != d.updates@[j].uri
    &&& forall |i: int, j: int| 0 <= i < d.publishes@.len() && 0 <= j < d.withdraws@.len() ==> d.publishes@[i].uri != d.withdraws@[j].uri
    &&& forall |i: int, j: int| 0 <= i < d.updates@.len() && 0 <= j < d.withdraws@.len() ==> d.updates@[i].uri != d.withdraws@[j].uri
}
// the element of d (if any) that addresses k, restricted to the first np publishes, nu updates, nw withdraws
pub open spec fn hit_p(d: DeltaElements, np: int, k: uri::Rsync) -> bool { exists |i: int| 0 <= i < np && #[trigger] d.publishes@[i].uri == k }
pub open spec fn hit_u(d: DeltaElements, nu: int, k: uri::Rsync) -> bool { exists |i: int| 0 <= i < nu && #[trigger] d.updates@[i].uri == k }
pub open spec fn hit_w(d: DeltaElements, nw: int, k: uri::Rsync) -> bool { exists |i: int| 0 <= i < nw && #[trigger] d.withdraws@[i].uri == k }
pub open spec fn expect(o: Map<uri::Rsync, DeltaElement>, d: DeltaElements, np: int, nu: int, nw: int, k: uri::Rsync) -> Option<DeltaElement> {
    if hit_p(d, np, k) { let i = choose |i: int| 0 <= i < np && #[trigger] d.publishes@[i].uri == k; merge1(get_opt(o, k), DeltaElement::Publish(d.publishes@[i])) }
    else if hit_u(d, nu, k) { let i = choose |i: int| 0 <= i < nu && #[trigger] d.updates@[i].uri == k; merge1(get_opt(o, k), DeltaElement::Update(d.updates@[i])) }
    else if hit_w(d, nw, k) { let i = choose |i: int| 0 <= i < nw && #[trigger] d.withdraws@[i].uri == k; merge1(get_opt(o, k), DeltaElement::Withdraw(d.withdraws@[i])) }
    else { get_opt(o, k) }
}
'''
contract='''        requires obeys_key_model::<uri::Rsync>(), distinct_uris(elements),
        ensures forall |k: uri::Rsync| get_opt(final(self).0@, k) == #[trigger] expect(old(self).0@, elements, elements.publishes@.len() as int, elements.updates@.len() as int, elements.withdraws@.len() as int, k),'''
inv0='''            invariant obeys_key_model::<uri::Rsync>(), distinct_uris(elements),
                publishes@ == elements.publishes@, updates@ == elements.updates@, withdraws@ == elements.withdraws@,
                forall |k: uri::Rsync| get_opt(self.0@, k) == #[trigger] expect(old(self).0@, elements, vx_it.index@ as int, 0, 0, k),
'''
inv1='''            invariant obeys_key_model::<uri::Rsync>(), distinct_uris(elements),
                updates@ == elements.updates@, withdraws@ == elements.withdraws@,
                forall |k: uri::Rsync| get_opt(self.0@, k) == #[trigger] expect(old(self).0@, elements, elements.publishes@.len() as int, vx_it.index@ as int, 0, k),
'''
inv2='''            invariant obeys_key_model::<uri::Rsync>(), distinct_uris(elements),
                withdraws@ == elements.withdraws@,
                forall |k: uri::Rsync| get_opt(self.0@, k) == #[trigger] expect(old(self).0@, elements, elements.publishes@.len() as int, elements.updates@.len() as int, vx_it.index@ as int, k),
'''
body2=[b for b in body if not b.startswith('impl StagedElements')]
body2.append('impl StagedElements {\n'+fn_r1(RR,'StagedElements','merge_new_elements',contract,loops={0:inv0,1:inv1,2:inv2})+'\n}')
unit=outside+'\nverus! {\n'+ext+'\n\n'.join(body2[:-1])+spec+body2[-1]+'\n}\nfn main() {}\n'
open('unit_c10b.rs','w').write(unit)
r=subprocess.run(['verus','--edition','2024','--multiple-errors','10','unit_c10b.rs'],capture_output=True,text=True)
out=r.stdout+r.stderr
print('\n'.join(l for l in out.split('\n') if not l.startswith('WARNING') and 'autoderive' not in l)[:6000])
