
use vstd::prelude::*;
#[derive(Clone)] pub struct PublisherHandle(Vec<u8>);
pub struct Bytes(Vec<u8>);
pub struct KrillRuntime(u8); pub struct Config { pub rfc8181_log_dir: Option<String> } pub struct KrillSigner(u8);
pub struct CmsLogger(u8);
pub struct RepositoryAccessProxy(u8); pub struct RepositoryContentProxy(u8); pub struct RrdpUpdatesConfig(u8);
pub struct PublicationCms(u8);
pub struct KError(u8);
pub mod publication {
    pub struct Message(pub u8); #[derive(PartialEq, Eq)] pub struct PublishDelta(pub u8); pub struct ReportError(pub u8); pub struct ErrorReply(pub u8); pub struct ReportErrorCode(pub u8);
    impl Message { pub fn as_query(self) -> Result<super::Query, super::KError> { unimplemented!() } pub fn error(_e: ErrorReply) -> Message { unimplemented!() }
                   pub fn list_reply(_l: super::ListReply) -> Message { unimplemented!() } pub fn success() -> Message { unimplemented!() } }
    impl ReportError { pub fn with_code(_c: ReportErrorCode) -> Self { unimplemented!() } }
    impl ErrorReply { pub fn for_error(_e: ReportError) -> Self { unimplemented!() } }
    pub use super::Query;
}
pub struct ListReply(u8);
impl KrillRuntime { pub fn config(&self) -> &Config { unimplemented!() } pub fn signer(&self) -> &KrillSigner { unimplemented!() } }
impl CmsLogger { pub fn for_rfc8181_rcvd(_d: Option<&String>, _p: &PublisherHandle) -> Self { unimplemented!() }
  pub fn received(&self, _b: &Bytes) -> Result<(), KError> { unimplemented!() } pub fn reply(&self, _b: &Bytes) -> Result<(), KError> { unimplemented!() } }
impl RepositoryAccessProxy {
  pub fn decode_and_validate(&self, _p: &PublisherHandle, _b: &Bytes) -> Result<PublicationCms, KError> { unimplemented!() }
  pub fn create_response(&self, _m: publication::Message, _s: &KrillSigner) -> Result<PublicationCms, KError> { unimplemented!() } }
impl PublicationCms { pub fn into_message(self) -> publication::Message { unimplemented!() } pub fn to_bytes(&self) -> Bytes { unimplemented!() } }
pub type KrillResult<T> = Result<T, Error>;
impl From<KError> for Error { fn from(_: KError) -> Self { Error::VxOther } }
pub fn vx_string() -> String { String::new() }

verus! {

#[verifier::external_type_specification] #[verifier::external_body] pub struct Ex1(PublisherHandle);
#[verifier::external_type_specification] #[verifier::external_body] pub struct Ex2(Bytes);
#[verifier::external_type_specification] #[verifier::external_body] pub struct Ex3(KrillRuntime);
#[verifier::external_type_specification] #[verifier::external_body] pub struct Ex4(KrillSigner);
#[verifier::external_type_specification] #[verifier::external_body] pub struct Ex5(CmsLogger);
#[verifier::external_type_specification] #[verifier::external_body] pub struct Ex6(RepositoryAccessProxy);
#[verifier::external_type_specification] #[verifier::external_body] pub struct Ex7(RepositoryContentProxy);
#[verifier::external_type_specification] #[verifier::external_body] pub struct Ex8(RrdpUpdatesConfig);
#[verifier::external_type_specification] #[verifier::external_body] pub struct Ex9(PublicationCms);
#[verifier::external_type_specification] #[verifier::external_body] pub struct Ex10(KError);
#[verifier::external_type_specification] #[verifier::external_body] pub struct Ex11(publication::Message);
#[verifier::external_type_specification] #[verifier::external_body] pub struct Ex12(publication::PublishDelta);
#[verifier::external_type_specification] #[verifier::external_body] pub struct Ex13(publication::ReportError);
#[verifier::external_type_specification] #[verifier::external_body] pub struct Ex14(publication::ErrorReply);
#[verifier::external_type_specification] #[verifier::external_body] pub struct Ex15(publication::ReportErrorCode);
#[verifier::external_type_specification] #[verifier::external_body] pub struct Ex16(ListReply);
#[verifier::external_type_specification] pub struct Ex17(Config);

#[derive(PartialEq, Eq, Structural)]
pub enum QueryKind { List, Delta }
#[derive(PartialEq, Eq)]
pub enum Query { List, Delta(publication::PublishDelta) }
impl vstd::std_specs::cmp::PartialEqSpecImpl for Query {
    open spec fn obeys_eq_spec() -> bool { true }
    open spec fn eq_spec(&self, other: &Query) -> bool { *self == *other }
}
pub enum Error { Custom(String), VxOther }
impl Error { #[verifier::external_body] pub fn to_rfc8181_error_code(&self) -> (c: publication::ReportErrorCode) { unimplemented!() } }

// capability: established only by decode_and_validate
pub uninterp spec fn validated8181(p: PublisherHandle, b: Bytes) -> bool;
pub uninterp spec fn query_of(b: Bytes) -> Query;

pub assume_specification [vx_string] () -> (s: String);
pub assume_specification [KrillRuntime::config] (k: &KrillRuntime) -> (c: &Config);
pub assume_specification [KrillRuntime::signer] (k: &KrillRuntime) -> (c: &KrillSigner);
pub assume_specification [CmsLogger::for_rfc8181_rcvd] (d: Option<&String>, p: &PublisherHandle) -> (l: CmsLogger);
pub assume_specification [CmsLogger::received] (l: &CmsLogger, b: &Bytes) -> (r: Result<(), KError>);
pub assume_specification [CmsLogger::reply] (l: &CmsLogger, b: &Bytes) -> (r: Result<(), KError>);
pub uninterp spec fn cms_bytes(c: PublicationCms) -> Bytes;
pub uninterp spec fn msg_bytes_of(m: publication::Message) -> Bytes;
pub assume_specification [RepositoryAccessProxy::decode_and_validate] (a: &RepositoryAccessProxy, p: &PublisherHandle, b: &Bytes) -> (r: Result<PublicationCms, KError>)
    ensures r is Ok ==> validated8181(*p, *b) && cms_bytes(r->Ok_0) == *b;
pub assume_specification [RepositoryAccessProxy::create_response] (a: &RepositoryAccessProxy, m: publication::Message, s: &KrillSigner) -> (r: Result<PublicationCms, KError>);
pub assume_specification [PublicationCms::into_message] (c: PublicationCms) -> (m: publication::Message) ensures msg_bytes_of(m) == cms_bytes(c);
pub assume_specification [PublicationCms::to_bytes] (c: &PublicationCms) -> (b: Bytes);
pub assume_specification [publication::Message::as_query] (m: publication::Message) -> (r: Result<Query, KError>) ensures r is Ok ==> r->Ok_0 == query_of(msg_bytes_of(m));
pub assume_specification [publication::Message::error] (e: publication::ErrorReply) -> (m: publication::Message);
pub assume_specification [publication::ReportError::with_code] (c: publication::ReportErrorCode) -> (m: publication::ReportError);
pub assume_specification [publication::ErrorReply::for_error] (c: publication::ReportError) -> (m: publication::ErrorReply);
pub assume_specification [<Error as From<KError>>::from] (e: KError) -> (o: Error);
/// RepositoryManager is responsible for:
/// * verifying that a publisher is allowed to publish
/// * publish content to RRDP and rsync
pub struct RepositoryManager {
    /// The repository access manager portion.
    pub access: RepositoryAccessProxy,

    /// The repository content manager portion.
    pub content: RepositoryContentProxy,

    /// The configuration for RRDP update details.
    pub rrdp_updates_config: RrdpUpdatesConfig,
}
impl RepositoryManager {

    #[verifier::external_body]
    pub fn rfc8181_message(&self, publisher_handle: &PublisherHandle, query: Query, krill: &KrillRuntime) -> (r: KrillResult<publication::Message>)
        requires exists |b: Bytes| validated8181(*publisher_handle, b) && query == query_of(b),
    { unimplemented!() }
/// Handles a publication protocol request and returns a signed response.
    pub fn rfc8181(
        &self,
        publisher_handle: PublisherHandle,
        msg_bytes: Bytes,
        krill: &KrillRuntime,
    ) -> (r: KrillResult<Bytes>)
        ensures true,
{
        let cms_logger = CmsLogger::for_rfc8181_rcvd(
            krill.config().rfc8181_log_dir.as_ref(),
            &publisher_handle,
        );

        let cms = self.access.decode_and_validate(
            &publisher_handle, &msg_bytes
        ).map_err(|e| {
            Error::Custom(vx_string())
        })?;
        let message = cms.into_message();
        let query = message.as_query()?;

        let is_list_query = query == publication::Query::List;

        let response_result = self.rfc8181_message(
            &publisher_handle, query, krill
        );

        let should_log_cms = response_result.is_err() || !is_list_query;

        let response = match response_result {
            Ok(response) => response,
            Err(e) => {
                let error_code = e.to_rfc8181_error_code();
                let report_error =
                    publication::ReportError::with_code(error_code);
                let error_reply =
                    publication::ErrorReply::for_error(report_error);

                publication::Message::error(error_reply)
            }
        };

        let response_bytes = self.access.create_response(
            response, krill.signer(),
        )?.to_bytes();

        if should_log_cms {
            cms_logger.received(&msg_bytes)?;
            cms_logger.reply(&response_bytes)?;
        }

        Ok(response_bytes)
    }
}
}
fn main() {}
