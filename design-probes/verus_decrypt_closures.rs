use vstd::prelude::*;
#[derive(Clone)] pub struct Handle { s: String }
pub struct OsslErr { c: u8 }
verus! {
#[verifier::external_type_specification] #[verifier::external_body] pub struct ExHandle(Handle);
#[verifier::external_type_specification] #[verifier::external_body] pub struct ExOsslErr(OsslErr);

pub enum Error { Custom(String), Unknown(Handle), Cred(String) }

#[verifier::external_body]
pub fn vx_fmt() -> (s: String) { String::new() }

pub uninterp spec fn aead_open(key: Seq<u8>, nonce: Seq<u8>, ct: Seq<u8>, tag: Seq<u8>) -> Option<Seq<u8>>;

#[verifier::external_body]
pub fn decrypt_aead(key: &[u8], iv: Option<&[u8]>, aad: &[u8], data: &[u8], tag: &[u8]) -> (r: Result<Vec<u8>, OsslErr>)
    ensures
        iv is Some,
        match r { Ok(p) => aead_open(key@, iv->Some_0@, data@, tag@) == Some(p@), Err(_) => aead_open(key@, iv->Some_0@, data@, tag@) is None }
{ unimplemented!() }

pub const CLEARTEXT_PREFIX_LEN: usize = 28;
pub const CHACHA20_NONCE_BYTE_LEN: usize = 12;

pub fn decrypt(key: &[u8], payload: &[u8]) -> (res: Result<Vec<u8>, Error>)
    ensures
        res is Ok ==> payload@.len() > 28 && aead_open(key@, payload@.subrange(0,12), payload@.subrange(28, payload@.len() as int), payload@.subrange(12,28)) == Some(res->Ok_0@),
{
    if payload.len() <= CLEARTEXT_PREFIX_LEN {
        return Err(Error::Cred(
            "Decryption error: Insufficient data".to_string(),
        ));
    }

    let nonce = &payload[0..CHACHA20_NONCE_BYTE_LEN];
    let tag = &payload[CHACHA20_NONCE_BYTE_LEN..CLEARTEXT_PREFIX_LEN];
    let cipher_text = &payload[CLEARTEXT_PREFIX_LEN..];

    decrypt_aead(
        key,
        Some(nonce),
        &[],
        cipher_text,
        tag,
    )
    .map_err(|err| {
        Error::Cred(
            vx_fmt()
        )
    })
}

pub struct Child { pub n: u8 }
pub struct Ca { pub children: Vec<Child>, pub handle: Handle, pub cur: Option<Child> }

impl Ca {
    pub fn get_child(&self, i: usize) -> (r: Result<&Child, Error>)
        ensures r is Ok <==> i < self.children@.len()
    {
        self.children.get(i).ok_or_else(|| {
            Error::Unknown(self.handle.clone())
        })
    }
    pub fn chain(&self, x: u8) -> (r: bool)
        ensures r == (self.cur is Some && self.cur->Some_0.n == x)
    {
        if let Some(c) = &self.cur { if c.n == x { true } else { false } } else { false }
    }
}
}
fn main() {}
