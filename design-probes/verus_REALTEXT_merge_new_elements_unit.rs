
#![feature(allocator_api)]
#![feature(sized_hierarchy)]
use vstd::prelude::*;
use vstd::std_specs::hash::*;
use std::collections::HashMap;
pub mod uri { #[derive(Clone, PartialEq, Eq, Hash)] pub struct Rsync(pub Vec<u8>); }
#[derive(Clone, PartialEq, Eq)] pub struct Base64(std::sync::Arc<str>);
#[derive(Clone, Copy, PartialEq, Eq)] pub struct Hash([u8; 32]);

verus! {

#[verifier::external_type_specification] #[verifier::external_body] pub struct ExRsync(uri::Rsync);
#[verifier::external_type_specification] #[verifier::external_body] pub struct ExBase64(Base64);
#[verifier::external_type_specification] #[verifier::external_body] pub struct ExHash(Hash);
pub assume_specification [<uri::Rsync as Clone>::clone] (n: &uri::Rsync) -> (r: uri::Rsync) ensures r == *n;

pub assume_specification<'a, K, V, S, A, Q> [std::collections::HashMap::<K, V, S, A>::get_mut] (m: &'a mut std::collections::HashMap<K, V, S, A>, k: &Q) -> (r: std::option::Option<&'a mut V>)
            where
            A: std::alloc::Allocator,
            K: std::cmp::Eq + std::hash::Hash + std::borrow::Borrow<Q>,
            Q: std::marker::MetaSized + std::hash::Hash + std::cmp::Eq + ?Sized,
            S: std::hash::BuildHasher,
    ensures
        obeys_key_model::<K>() && builds_valid_hashers::<S>() ==> (
        match r {
            Some(v) => contains_borrowed_key(old(m)@, k) && maps_borrowed_key_to_value(old(m)@, k, *v)
                && (forall |kk: K| #[trigger] final(m)@.contains_key(kk) <==> old(m)@.contains_key(kk))
                && (forall |kk: K| old(m)@.contains_key(kk) && !maps_borrowed_key_to_value(old(m)@.restrict(set![kk]), k, old(m)@[kk]) ==> #[trigger] final(m)@[kk] == old(m)@[kk])
                && maps_borrowed_key_to_value(final(m)@, k, *final(v)),
            None => !contains_borrowed_key(old(m)@, k) && final(m)@ == old(m)@,
        });
/// A publish element as used in the RRDP protocol.
///
/// Note that the difference with the publication protocol is the absence of
/// the tag.
//
//  *Warning:* This type is used in stored state.
pub struct PublishElement {
    /// The URI identifying the object to be published.
    pub uri: uri::Rsync,

    /// The Base64 encoded content of the object to be published.
    pub base64: Base64,
}

/// An update element as used in the RRDP protocol.
///
/// Note that the difference with the publication protocol is the absence of
/// the tag.
//
//  *Warning:* This type is used in stored state.
pub struct UpdateElement {
    /// The URI identifying the object to be updated.
    pub uri: uri::Rsync,

    /// The hash of the current content of the object to be updated.
    pub hash: Hash,

    /// The new content of the object to be updated.
    pub base64: Base64,
}

/// A withdraw element as used in the RRDP protocol.
///
/// Note that the difference with the publication protocol is the absence of
//
//  *Warning:* This type is used in stored state.
/// the tag.
pub struct WithdrawElement {
    /// The URI identifying the object to be withdrawn.
    pub uri: uri::Rsync,

    /// The hash of the current content of the object to be withdrawn.
    pub hash: Hash,
}

/// The elements of an RRDP delta.
//
//  *Warning:* This type is used in stored state.
pub struct DeltaElements {
    /// The objects to be published.
    pub publishes: Vec<PublishElement>,

    /// The objects to be updated.
    pub updates: Vec<UpdateElement>,

    /// The objects to be withdrawn.
    pub withdraws: Vec<WithdrawElement>,
}

/// This type is used to combine staged delta elements for publishers.
///
/// It uses a map with object URIs as key, because this is the unique key that
/// identifies objects in the publication protocol.
//
//  *Warning:* This type is used in stored state.
pub struct StagedElements(pub HashMap<uri::Rsync, DeltaElement>);

/// An element in an RRDP delta.
//
//  *Warning:* This type is used in stored state.
pub enum DeltaElement {
    Publish(PublishElement),
    Update(UpdateElement),
    Withdraw(WithdrawElement),
}

impl DeltaElements {
/// Converts the value into its three constituent portions.
    pub fn unpack(
        self
    ) -> (r: (
        Vec<PublishElement>,
        Vec<UpdateElement>,
        Vec<WithdrawElement>,
    ))
        ensures r.0 == self.publishes, r.1 == self.updates, r.2 == self.withdraws,
{
        (self.publishes, self.updates, self.withdraws)
    }
}
pub open spec fn merge1(o: Option<DeltaElement>, n: DeltaElement) -> Option<DeltaElement> {
    match n {
        DeltaElement::Publish(p) => match o {
            Some(DeltaElement::Publish(_sp)) => Some(DeltaElement::Publish(p)),
            Some(DeltaElement::Update(su)) => Some(DeltaElement::Update(UpdateElement { uri: su.uri, hash: su.hash, base64: p.base64 })),
            Some(DeltaElement::Withdraw(sw)) => Some(DeltaElement::Update(UpdateElement { uri: p.uri, hash: sw.hash, base64: p.base64 })),
            None => Some(DeltaElement::Publish(p)),
        },
        DeltaElement::Update(u) => match o {
            Some(DeltaElement::Publish(sp)) => Some(DeltaElement::Publish(PublishElement { uri: sp.uri, base64: u.base64 })),
            Some(DeltaElement::Update(su)) => Some(DeltaElement::Update(UpdateElement { uri: su.uri, hash: su.hash, base64: u.base64 })),
            Some(DeltaElement::Withdraw(sw)) => Some(DeltaElement::Update(UpdateElement { uri: u.uri, hash: sw.hash, base64: u.base64 })),
            None => Some(DeltaElement::Update(u)),
        },
        DeltaElement::Withdraw(w) => match o {
            Some(DeltaElement::Publish(_sp)) => None,
            Some(DeltaElement::Update(su)) => Some(DeltaElement::Withdraw(WithdrawElement { uri: w.uri, hash: su.hash })),
            Some(DeltaElement::Withdraw(sw)) => Some(DeltaElement::Withdraw(sw)),
            None => Some(DeltaElement::Withdraw(w)),
        },
    }
}
pub open spec fn get_opt(m: Map<uri::Rsync, DeltaElement>, k: uri::Rsync) -> Option<DeltaElement> {
    if m.contains_key(k) { Some(m[k]) } else { None }
}
pub open spec fn distinct_uris(d: DeltaElements) -> bool {
    &&& forall |i: int, j: int| 0 <= i < j < d.publishes@.len() ==> d.publishes@[i].uri != d.publishes@[j].uri
    &&& forall |i: int, j: int| 0 <= i < j < d.updates@.len() ==> d.updates@[i].uri != d.updates@[j].uri
    &&& forall |i: int, j: int| 0 <= i < j < d.withdraws@.len() ==> d.withdraws@[i].uri != d.withdraws@[j].uri
    &&& forall |i: int, j: int| 0 <= i < d.publishes@.len() && 0 <= j < d.updates@.len() ==> d.publishes@[i].uri != d.updates@[j].uri
    &&& forall |i: int, j: int| 0 <= i < d.publishes@.len() && 0 <= j < d.withdraws@.len() ==> d.publishes@[i].uri != d.withdraws@[j].uri
    &&& forall |i: int, j: int| 0 <= i < d.updates@.len() && 0 <= j < d.withdraws@.len() ==> d.updates@[i].uri != d.withdraws@[j].uri
}

pub open spec fn has_p(d: DeltaElements, k: uri::Rsync) -> bool { exists |i: int| 0 <= i < d.publishes@.len() && #[trigger] d.publishes@[i].uri == k }
pub open spec fn has_u(d: DeltaElements, k: uri::Rsync) -> bool { exists |i: int| 0 <= i < d.updates@.len() && #[trigger] d.updates@[i].uri == k }
pub open spec fn has_w(d: DeltaElements, k: uri::Rsync) -> bool { exists |i: int| 0 <= i < d.withdraws@.len() && #[trigger] d.withdraws@[i].uri == k }
pub open spec fn pi(d: DeltaElements, k: uri::Rsync) -> int { choose |i: int| 0 <= i < d.publishes@.len() && #[trigger] d.publishes@[i].uri == k }
pub open spec fn ui(d: DeltaElements, k: uri::Rsync) -> int { choose |i: int| 0 <= i < d.updates@.len() && #[trigger] d.updates@[i].uri == k }
pub open spec fn wi(d: DeltaElements, k: uri::Rsync) -> int { choose |i: int| 0 <= i < d.withdraws@.len() && #[trigger] d.withdraws@[i].uri == k }
pub open spec fn expect(o: Map<uri::Rsync, DeltaElement>, d: DeltaElements, np: int, nu: int, nw: int, k: uri::Rsync) -> Option<DeltaElement> {
    if has_p(d, k) && pi(d, k) < np { merge1(get_opt(o, k), DeltaElement::Publish(d.publishes@[pi(d, k)])) }
    else if has_u(d, k) && ui(d, k) < nu { merge1(get_opt(o, k), DeltaElement::Update(d.updates@[ui(d, k)])) }
    else if has_w(d, k) && wi(d, k) < nw { merge1(get_opt(o, k), DeltaElement::Withdraw(d.withdraws@[wi(d, k)])) }
    else { get_opt(o, k) }
}
// under distinctness the chosen index is the unique one
pub proof fn lemma_pi(d: DeltaElements, i: int)
    requires distinct_uris(d), 0 <= i < d.publishes@.len()
    ensures has_p(d, d.publishes@[i].uri), pi(d, d.publishes@[i].uri) == i, !has_u(d, d.publishes@[i].uri), !has_w(d, d.publishes@[i].uri)
{
    let k = d.publishes@[i].uri;
    assert(d.publishes@[i].uri == k);
    let j = pi(d, k);
    assert(0 <= j < d.publishes@.len() && d.publishes@[j].uri == k);
    if j < i { assert(d.publishes@[j].uri != d.publishes@[i].uri); }
    if i < j { assert(d.publishes@[i].uri != d.publishes@[j].uri); }
    if has_u(d, k) { let x = ui(d, k); assert(d.publishes@[i].uri != d.updates@[x].uri); }
    if has_w(d, k) { let x = wi(d, k); assert(d.publishes@[i].uri != d.withdraws@[x].uri); }
}
pub proof fn lemma_ui(d: DeltaElements, i: int)
    requires distinct_uris(d), 0 <= i < d.updates@.len()
    ensures has_u(d, d.updates@[i].uri), ui(d, d.updates@[i].uri) == i, !has_p(d, d.updates@[i].uri), !has_w(d, d.updates@[i].uri)
{
    let k = d.updates@[i].uri;
    assert(d.updates@[i].uri == k);
    let j = ui(d, k);
    assert(0 <= j < d.updates@.len() && d.updates@[j].uri == k);
    if j < i { assert(d.updates@[j].uri != d.updates@[i].uri); }
    if i < j { assert(d.updates@[i].uri != d.updates@[j].uri); }
    if has_p(d, k) { let x = pi(d, k); assert(d.publishes@[x].uri != d.updates@[i].uri); }
    if has_w(d, k) { let x = wi(d, k); assert(d.updates@[i].uri != d.withdraws@[x].uri); }
}
pub proof fn lemma_wi(d: DeltaElements, i: int)
    requires distinct_uris(d), 0 <= i < d.withdraws@.len()
    ensures has_w(d, d.withdraws@[i].uri), wi(d, d.withdraws@[i].uri) == i, !has_p(d, d.withdraws@[i].uri), !has_u(d, d.withdraws@[i].uri)
{
    let k = d.withdraws@[i].uri;
    assert(d.withdraws@[i].uri == k);
    let j = wi(d, k);
    assert(0 <= j < d.withdraws@.len() && d.withdraws@[j].uri == k);
    if j < i { assert(d.withdraws@[j].uri != d.withdraws@[i].uri); }
    if i < j { assert(d.withdraws@[i].uri != d.withdraws@[j].uri); }
    if has_p(d, k) { let x = pi(d, k); assert(d.publishes@[x].uri != d.withdraws@[i].uri); }
    if has_u(d, k) { let x = ui(d, k); assert(d.updates@[x].uri != d.withdraws@[i].uri); }
}
impl StagedElements {
/// Merge a new DeltaElements into this existing (unpublished)
    /// StagedElements.
    ///
    /// It is assumed that both sets make sense with regards to the current
    /// files as published in the RRDP snapshot. I.e. *this* StagedElements
    /// is assumed to be verified and can be applied to the current snapshot.
    ///
    /// The new StagedElements is assumed to be verified against the current
    /// snapshot after *this* existing StagedElements has been applied.
    ///
    /// We keep a single StagedElements per CA, for simplicity. The
    /// StagedElements contains all changes that the CA published at the
    /// Publication Server, which are not *yet* published in the public
    /// RPKI repository.
    ///
    /// CAs may wish to publish further changes, even before the staged
    /// changes become visible in the public RPKI repository. When merging
    /// these changes we need to take care to ensure that the changes make
    /// sense in relation to the current published *snapshot*.
    ///
    /// This operation is not entirely trivial as we need to make sure that
    /// any hashes in updates and withdraws after merge match the current
    /// snapshot, i.e. the new snapshot could refer to hashes of not yet
    /// published objects. We may also simply "forget" objects that were
    /// staged for publication, and then withdrawn, without ever have been
    /// published.
    ///
    /// Also note (again) that all changes have been verified before when
    /// this is called. That means that while certain corner cases could be
    /// problematic (e.g. double withdraw of an object), we will largely
    /// ignore such issues here. We need to do this, because we get these
    /// changes as write-ahead-log (WAL) changes and therefore applying
    /// them is not allowed to fail. In these cases we will log a warning
    /// that a "publish merge conflict" was found and resolved.
    fn merge_new_elements(&mut self, elements: DeltaElements) 
        requires obeys_key_model::<uri::Rsync>(), distinct_uris(elements),
        ensures forall |k: uri::Rsync| get_opt(final(self).0@, k) == #[trigger] expect(old(self).0@, elements, elements.publishes@.len() as int, elements.updates@.len() as int, elements.withdraws@.len() as int, k),
{
        let (publishes, updates, withdraws) = elements.unpack();

        let general_merge_message = "Non-critical publish merge conflict resolved. Please contact rpki-team@nlnetlabs.nl if this happens more frequently.";

        for pbl in vx_it: publishes 
            invariant obeys_key_model::<uri::Rsync>(), distinct_uris(elements),
                publishes@ == elements.publishes@, updates@ == elements.updates@, withdraws@ == elements.withdraws@,
                forall |k: uri::Rsync| get_opt(self.0@, k) == #[trigger] expect(old(self).0@, elements, vx_it.index@ as int, 0, 0, k),

{
            let ghost m0 = self.0@; let ghost i0 = vx_it.index@ as int;
            proof { lemma_pi(elements, i0); assert(pbl == elements.publishes@[i0]); }
            let uri = pbl.uri.clone();
            match self.0.get_mut(&uri) {
                Some(DeltaElement::Publish(staged_publish)) => {
                    
                    self.0.insert(uri, DeltaElement::Publish(pbl));
                }

                Some(DeltaElement::Update(staged_update)) => {
                    
                    staged_update.base64 = pbl.base64;
                }
                Some(DeltaElement::Withdraw(staged_withdraw)) => {
                    // A new publish that follows a withdraw for the same URI
                    // should be an Update of the original
                    // file.
                    let hash = staged_withdraw.hash;
                    let update = UpdateElement {
                        uri: uri.clone(), hash, base64: pbl.base64
                    };
                    self.0.insert(uri, DeltaElement::Update(update));
                }
                None => {
                    // This is just a fresh publish element, nothing to merge,
                    // we can just insert it.
                    self.0.insert(uri, DeltaElement::Publish(pbl));
                }
            }
            proof {
                assert forall |k: uri::Rsync| get_opt(self.0@, k) == #[trigger] expect(old(self).0@, elements, i0 + 1, 0, 0, k) by {
                    assert(get_opt(m0, k) == expect(old(self).0@, elements, i0, 0, 0, k));
                    if k == elements.publishes@[i0].uri {
                    } else {
                        if has_p(elements, k) { let j = pi(elements, k); assert(elements.publishes@[j].uri == k); assert(j != i0); }
                    }
                }
            }
        }

        for mut upd in vx_it: updates 
            invariant obeys_key_model::<uri::Rsync>(), distinct_uris(elements),
                updates@ == elements.updates@, withdraws@ == elements.withdraws@,
                forall |k: uri::Rsync| get_opt(self.0@, k) == #[trigger] expect(old(self).0@, elements, elements.publishes@.len() as int, vx_it.index@ as int, 0, k),

{
            let ghost m0 = self.0@; let ghost i0 = vx_it.index@ as int;
            proof { lemma_ui(elements, i0); assert(upd == elements.updates@[i0]); }
            let uri = upd.uri.clone();
            match self.0.get_mut(&uri) {
                Some(DeltaElement::Publish(staged_publish)) => {
                    // An update that follows a *staged* publish, should be
                    // merged into a fresh new publish
                    // with the updated content.
                    //
                    // To the outside world (RRDP delta in particular) this
                    // will look like a single publish.
                    staged_publish.base64 = upd.base64;
                }
                Some(DeltaElement::Update(staged_update)) => {
                    // An update that follows a *staged* update, should be
                    // merged into an update with the
                    // updated content, but it should keep
                    // the hash (i.e. object it replaces) from the existing
                    // staged update.
                    //
                    // To the outside world (RRDP delta in particular) this
                    // will look like a single update.
                    staged_update.base64 = upd.base64;
                }
                Some(DeltaElement::Withdraw(staged_withdraw)) => {
                    
                    upd.hash = staged_withdraw.hash;
                    self.0.insert(uri, DeltaElement::Update(upd));
                }
                None => {
                    // A new update, nothing to merge. Just include it.
                    self.0.insert(uri, DeltaElement::Update(upd));
                }
            }
            proof {
                assert forall |k: uri::Rsync| get_opt(self.0@, k) == #[trigger] expect(old(self).0@, elements, elements.publishes@.len() as int, i0 + 1, 0, k) by {
                    assert(get_opt(m0, k) == expect(old(self).0@, elements, elements.publishes@.len() as int, i0, 0, k));
                    if k == elements.updates@[i0].uri {
                    } else {
                        if has_u(elements, k) { let j = ui(elements, k); assert(elements.updates@[j].uri == k); assert(j != i0); }
                    }
                }
            }
        }

        for mut wdr in vx_it: withdraws 
            invariant obeys_key_model::<uri::Rsync>(), distinct_uris(elements),
                withdraws@ == elements.withdraws@,
                forall |k: uri::Rsync| get_opt(self.0@, k) == #[trigger] expect(old(self).0@, elements, elements.publishes@.len() as int, elements.updates@.len() as int, vx_it.index@ as int, k),

{
            let ghost m0 = self.0@; let ghost i0 = vx_it.index@ as int;
            proof { lemma_wi(elements, i0); assert(wdr == elements.withdraws@[i0]); }
            let uri = wdr.uri.clone();
            match self.0.get(&uri) {
                Some(DeltaElement::Publish(_)) => {
                    // We had a staged fresh publish for this object. So when
                    // combining we should just remove the
                    // staged entry completely. I.e. it won't
                    // have been visible to the outside world.
                    self.0.remove(&uri);
                }
                Some(DeltaElement::Update(staged_update)) => {
                    // We had a staged update for a file we now wish to
                    // remove. But, the staged updated
                    // files was never visible in public RRDP. Therefore,
                    // we should update the hash of the withdraw to the
                    // original hash.
                    wdr.hash = staged_update.hash;
                    self.0.insert(uri, DeltaElement::Withdraw(wdr));
                }
                Some(DeltaElement::Withdraw(staged_wdr)) => {
                    // This should never happen. But leave the original
                    // withdraw in place because
                    // that already matches the current file in public RRDP.
                    
                }
                None => {
                    // No staged changes for this element, so we can just add
                    // the withdraw as-is. It should match
                    // the current file in public RRDP.
                    self.0.insert(uri, DeltaElement::Withdraw(wdr));
                }
            }
            proof {
                assert forall |k: uri::Rsync| get_opt(self.0@, k) == #[trigger] expect(old(self).0@, elements, elements.publishes@.len() as int, elements.updates@.len() as int, i0 + 1, k) by {
                    assert(get_opt(m0, k) == expect(old(self).0@, elements, elements.publishes@.len() as int, elements.updates@.len() as int, i0, k));
                    if k == elements.withdraws@[i0].uri {
                    } else {
                        if has_w(elements, k) { let j = wi(elements, k); assert(elements.withdraws@[j].uri == k); assert(j != i0); }
                    }
                }
            }
        }
    }
}
}
fn main() {}
