use vstd::prelude::*;
use std::collections::{HashMap, VecDeque};
verus! {
fn f_dq(d: &mut VecDeque<u64>, x: u64, n: usize)
    ensures final(d)@.len() <= n + 1
{
    d.truncate(n);
    d.push_front(x);
}
}
fn main() {}
