use vstd::prelude::*;

#[derive(Clone)] pub struct KeyIdentifier { x: [u8; 20] }
#[derive(Clone)] pub struct ReceivedCert { _p: u8 }
#[derive(Clone)] pub struct IssuanceRequest { _p: u8 }
#[derive(Clone)] pub struct RevocationRequest { _p: u8 }

verus! {

#[verifier::external_type_specification] #[verifier::external_body] pub struct ExKeyIdentifier(KeyIdentifier);
#[verifier::external_type_specification] #[verifier::external_body] pub struct ExReceivedCert(ReceivedCert);
#[verifier::external_type_specification] #[verifier::external_body] pub struct ExIssuanceRequest(IssuanceRequest);
#[verifier::external_type_specification] #[verifier::external_body] pub struct ExRevocationRequest(RevocationRequest);

#[derive(Clone)]
pub struct CertifiedKey {
    pub key_id: KeyIdentifier,
    pub incoming_cert: ReceivedCert,
    pub request: Option<IssuanceRequest>,
}
#[derive(Clone)]
pub struct PendingKey {
    pub key_id: KeyIdentifier,
    pub request: Option<IssuanceRequest>,
}
#[derive(Clone)]
pub struct OldKey { pub key: CertifiedKey, pub revoke_req: RevocationRequest }

pub enum KeyState {
    Pending(PendingKey),
    Active(CertifiedKey),
    RollPending(PendingKey, CertifiedKey),
    RollNew(CertifiedKey, CertifiedKey),
    RollOld(CertifiedKey, OldKey),
}

pub enum Error { KeyUseNoNewKey, KeyRollActivatePendingRequests, KeyUseNoOldKey }

pub enum Ev { KeyRollActivated { revoke_req: RevocationRequest }, KeyRollFinished }

#[verifier::external_body]
fn revoke_key(k: &KeyIdentifier) -> (r: Result<RevocationRequest, Error>)
{ unimplemented!() }

impl KeyState {
    pub fn append_keyroll_activate(
        &self,
        events: &mut Vec<Ev>,
    ) -> (res: Result<(), Error>)
        ensures
            res is Ok ==> (self is RollNew && final(events)@.len() == old(events)@.len() + 1
                 && final(events)@.last() is KeyRollActivated
                 && self->RollNew_0.request is None && self->RollNew_1.request is None),
            res is Err ==> final(events)@ == old(events)@,
    {
        match self {
            KeyState::RollNew(new, current) => {
                if new.request.is_some() || current.request.is_some() {
                    Err(Error::KeyRollActivatePendingRequests)
                }
                else {
                    let revoke_req = revoke_key(
                        &current.key_id,
                    )?;
                    events.push(Ev::KeyRollActivated {
                        revoke_req,
                    });
                    Ok(())
                }
            }
            _ => Err(Error::KeyUseNoNewKey),
        }
    }
}

pub struct ResourceClass { pub key_state: KeyState }

impl ResourceClass {
    pub fn key_roll_possible(&self) -> (b: bool)
        ensures b == (self.key_state is Active)
    {
        matches!(&self.key_state, KeyState::Active(_))
    }

    pub fn apply_old_key_removed(&mut self)
        requires old(self).key_state is RollOld
        ensures final(self).key_state is Active
    {
        match &self.key_state {
            KeyState::RollOld(current, _old) => {
                self.key_state = KeyState::Active(current.clone());
            }
            _ => panic!(
                "Should never create event to remove old key, when \
                there is none"
            ),
        }
    }
}
}
fn main() {}
