use vstd::prelude::*;
use vstd::std_specs::hash::*;
use std::collections::HashMap;

#[derive(Clone, PartialEq, Eq, Hash)] pub struct ObjectName { s: String }
#[derive(Clone)] pub struct Base64 { s: String }
#[derive(Clone, Copy)] pub struct Serial(u128);
#[derive(Clone, Copy)] pub struct Time(i64);

verus! {

#[verifier::external_type_specification] #[verifier::external_body] pub struct ExObjectName(ObjectName);
#[verifier::external_type_specification] #[verifier::external_body] pub struct ExBase64(Base64);
#[verifier::external_type_specification] #[verifier::external_body] pub struct ExSerial(Serial);
#[verifier::external_type_specification] #[verifier::external_body] pub struct ExTime(Time);

pub assume_specification [<ObjectName as Clone>::clone] (n: &ObjectName) -> (r: ObjectName)
    ensures r == *n;

#[derive(Clone, Copy)]
pub struct Revocation { pub serial: Serial, pub expires: Time }

pub struct Revocations { pub v: Vec<Revocation> }

impl Revocations {
    pub open spec fn view(&self) -> Set<Revocation> { self.v@.to_set() }

    #[verifier::external_body]
    pub fn add(&mut self, r: Revocation)
        ensures final(self)@ == old(self)@.insert(r)
    { self.v.push(r) }
}

pub struct PublishedObject { pub name: ObjectName, pub base64: Base64, pub serial: Serial, pub expires: Time }

impl PublishedObject {
    pub open spec fn rev(&self) -> Revocation { Revocation { serial: self.serial, expires: self.expires } }
    pub fn revoke(&self) -> (r: Revocation) ensures r == self.rev() {
        Revocation { serial: self.serial, expires: self.expires }
    }
}

pub struct IssuedCertificate { pub name: ObjectName, pub base64: Base64, pub serial: Serial, pub expires: Time }

#[verifier::external_body]
pub fn for_cert_info(c: &IssuedCertificate) -> (r: PublishedObject)
    ensures r.serial == c.serial, r.expires == c.expires, r.name == c.name
{ unimplemented!() }

pub struct Updates { pub removed: Vec<ObjectName>, pub issued: Vec<IssuedCertificate> }

pub struct KeyObjectSet {
    pub revocations: Revocations,
    pub published_objects: HashMap<ObjectName, PublishedObject>,
}

impl KeyObjectSet {
    fn update_certs(&mut self, cert_updates: &Updates)
        requires obeys_key_model::<ObjectName>(),
        ensures
            old(self).revocations@.subset_of(final(self).revocations@),
            forall |n: ObjectName| old(self).published_objects@.contains_key(n)
                && (!final(self).published_objects@.contains_key(n)
                    || final(self).published_objects@[n] != old(self).published_objects@[n])
                ==> #[trigger] final(self).revocations@.contains(old(self).published_objects@[n].rev()),
    {
        for removed in &cert_updates.removed
            invariant
                obeys_key_model::<ObjectName>(),
                old(self).revocations@.subset_of(self.revocations@),
                forall |n: ObjectName| old(self).published_objects@.contains_key(n)
                    && (!self.published_objects@.contains_key(n)
                        || self.published_objects@[n] != old(self).published_objects@[n])
                    ==> #[trigger] self.revocations@.contains(old(self).published_objects@[n].rev()),
        {
            if let Some(old) = self.published_objects.remove(removed) {
                self.revocations.add(old.revoke());
            }
        }

        for issued in &cert_updates.issued
            invariant
                obeys_key_model::<ObjectName>(),
                old(self).revocations@.subset_of(self.revocations@),
                forall |n: ObjectName| old(self).published_objects@.contains_key(n)
                    && (!self.published_objects@.contains_key(n)
                        || self.published_objects@[n] != old(self).published_objects@[n])
                    ==> #[trigger] self.revocations@.contains(old(self).published_objects@[n].rev()),
        {
            let published_object = for_cert_info(issued);
            if let Some(old) = self
                .published_objects
                .insert(issued.name.clone(), published_object)
            {
                self.revocations.add(old.revoke());
            }
        }
    }
}
}
fn main() {}
