
#![feature(allocator_api)]
#![feature(sized_hierarchy)]
use vstd::prelude::*;
use vstd::std_specs::hash::*;
use std::collections::HashMap;
pub mod uri { #[derive(Clone, PartialEq, Eq, Hash)] pub struct Rsync(pub Vec<u8>);
  impl Rsync { pub fn is_parent_of(&self, _o: &Rsync) -> bool { unimplemented!() } } }
#[derive(Clone, PartialEq, Eq)] pub struct Base64(std::sync::Arc<str>);
impl Base64 { pub fn to_hash(&self) -> Hash { unimplemented!() } }
#[derive(Clone, Copy, PartialEq, Eq)] pub struct Hash([u8; 32]);
#[derive(Clone, PartialEq, Eq, Hash)] pub struct CurrentObjectUri(std::sync::Arc<str>);
pub struct PublicationDeltaError(u8);
impl PublicationDeltaError {
    pub fn outside(_j: &uri::Rsync, _u: &uri::Rsync) -> Self { unimplemented!() }
    pub fn present(_u: &uri::Rsync) -> Self { unimplemented!() }
    pub fn no_match(_u: &uri::Rsync) -> Self { unimplemented!() }
}

verus! {

#[verifier::external_type_specification] #[verifier::external_body] pub struct ExRsync(uri::Rsync);
#[verifier::external_type_specification] #[verifier::external_body] pub struct ExBase64(Base64);
#[verifier::external_type_specification] #[verifier::external_body] pub struct ExHash(Hash);
#[verifier::external_type_specification] #[verifier::external_body] pub struct ExCOU(CurrentObjectUri);
#[verifier::external_type_specification] #[verifier::external_body] pub struct ExPDE(PublicationDeltaError);
impl vstd::std_specs::cmp::PartialEqSpecImpl for Hash {
    open spec fn obeys_eq_spec() -> bool { true }
    open spec fn eq_spec(&self, other: &Hash) -> bool { *self == *other }
}
pub assume_specification [<Hash as PartialEq>::eq] (a: &Hash, b: &Hash) -> (r: bool);
pub uninterp spec fn key_of(u: uri::Rsync) -> CurrentObjectUri;
pub uninterp spec fn hash_of(b: Base64) -> Hash;
pub uninterp spec fn parent_of(j: uri::Rsync, u: uri::Rsync) -> bool;
pub assume_specification [uri::Rsync::is_parent_of] (j: &uri::Rsync, u: &uri::Rsync) -> (r: bool) ensures r == parent_of(*j, *u);
pub assume_specification [Base64::to_hash] (b: &Base64) -> (r: Hash) ensures r == hash_of(*b);
impl From<&uri::Rsync> for CurrentObjectUri { #[verifier::external_body] fn from(value: &uri::Rsync) -> (r: Self) ensures r == key_of(*value) { unimplemented!() } }
impl From<uri::Rsync> for CurrentObjectUri { #[verifier::external_body] fn from(value: uri::Rsync) -> (r: Self) ensures r == key_of(value) { unimplemented!() } }
pub assume_specification [PublicationDeltaError::outside] (j: &uri::Rsync, u: &uri::Rsync) -> (r: PublicationDeltaError);
pub assume_specification [PublicationDeltaError::present] (u: &uri::Rsync) -> (r: PublicationDeltaError);
pub assume_specification [PublicationDeltaError::no_match] (u: &uri::Rsync) -> (r: PublicationDeltaError);

pub open spec fn has_hash(m: Map<CurrentObjectUri, Base64>, u: uri::Rsync, h: Hash) -> bool {
    m.contains_key(key_of(u)) && hash_of(m[key_of(u)]) == h
}
pub open spec fn delta_ok(m: Map<CurrentObjectUri, Base64>, d: DeltaElements, jail: uri::Rsync) -> bool {
    &&& forall |i: int| 0 <= i < d.publishes@.len() ==> parent_of(jail, #[trigger] d.publishes@[i].uri) && !m.contains_key(key_of(d.publishes@[i].uri))
    &&& forall |i: int| 0 <= i < d.updates@.len() ==> parent_of(jail, #[trigger] d.updates@[i].uri) && has_hash(m, d.updates@[i].uri, d.updates@[i].hash)
    &&& forall |i: int| 0 <= i < d.withdraws@.len() ==> parent_of(jail, #[trigger] d.withdraws@[i].uri) && has_hash(m, d.withdraws@[i].uri, d.withdraws@[i].hash)
}
/// A publish element as used in the RRDP protocol.
///
/// Note that the difference with the publication protocol is the absence of
/// the tag.
//
//  *Warning:* This type is used in stored state.
pub struct PublishElement {
    /// The URI identifying the object to be published.
    pub uri: uri::Rsync,

    /// The Base64 encoded content of the object to be published.
    pub base64: Base64,
}

/// An update element as used in the RRDP protocol.
///
/// Note that the difference with the publication protocol is the absence of
/// the tag.
//
//  *Warning:* This type is used in stored state.
pub struct UpdateElement {
    /// The URI identifying the object to be updated.
    pub uri: uri::Rsync,

    /// The hash of the current content of the object to be updated.
    pub hash: Hash,

    /// The new content of the object to be updated.
    pub base64: Base64,
}

/// A withdraw element as used in the RRDP protocol.
///
/// Note that the difference with the publication protocol is the absence of
//
//  *Warning:* This type is used in stored state.
/// the tag.
pub struct WithdrawElement {
    /// The URI identifying the object to be withdrawn.
    pub uri: uri::Rsync,

    /// The hash of the current content of the object to be withdrawn.
    pub hash: Hash,
}

/// The elements of an RRDP delta.
//
//  *Warning:* This type is used in stored state.
pub struct DeltaElements {
    /// The objects to be published.
    pub publishes: Vec<PublishElement>,

    /// The objects to be updated.
    pub updates: Vec<UpdateElement>,

    /// The objects to be withdrawn.
    pub withdraws: Vec<WithdrawElement>,
}

/// The current set of published objects.
//
//  *Warning:* This type is used in stored state.
pub struct CurrentObjects(pub HashMap<CurrentObjectUri, Base64>);

impl DeltaElements {
/// Returns a reference to the published elements.
    pub fn publishes(&self) -> (r: &[PublishElement])
        ensures r@ == self.publishes@,
{
        &self.publishes
    }
/// Returns a reference to the updated elements.
    pub fn updates(&self) -> (r: &[UpdateElement])
        ensures r@ == self.updates@,
{
        &self.updates
    }
/// Returns a reference to the withdrawn elements.
    pub fn withdraws(&self) -> (r: &[WithdrawElement])
        ensures r@ == self.withdraws@,
{
        &self.withdraws
    }
}

impl CurrentObjects {
/// Returns whether the set contains an object with the given URI and hash.
    fn contains(&self, hash: Hash, uri: &uri::Rsync) -> (r: bool)
        requires obeys_key_model::<CurrentObjectUri>(),
        ensures r == has_hash(self.0@, *uri, hash),
{
        match self.0.get(&CurrentObjectUri::from(uri)) {
            Some(base64) => base64.to_hash() == hash,
            None => false,
        }
    }
/// Verifies that a delta can be applied to this set of objects.
    ///
    /// Checks that all object URIs are under `jail`, that published objects
    /// aren’t in the set, and that updated and deleted objects are in the set
    /// with the
    /// given hash.
    pub fn verify_delta_applies(
        &self,
        delta: &DeltaElements,
        jail: &uri::Rsync,
    ) -> (r: Result<(), PublicationDeltaError>)
        requires obeys_key_model::<CurrentObjectUri>(),
        ensures r is Ok <==> delta_ok(self.0@, *delta, *jail),
{
        for p in vx_it: delta.publishes() 
            invariant obeys_key_model::<CurrentObjectUri>(),
                forall |i: int| 0 <= i < vx_it.index@ ==> parent_of(*jail, #[trigger] delta.publishes@[i].uri) && !self.0@.contains_key(key_of(delta.publishes@[i].uri)),

{
            if !jail.is_parent_of(&p.uri) {
                return Err(PublicationDeltaError::outside(jail, &p.uri));
            }
            if self.0.contains_key(&CurrentObjectUri::from(&p.uri)) {
                return Err(PublicationDeltaError::present(&p.uri));
            }
        }

        for u in vx_it: delta.updates() 
            invariant obeys_key_model::<CurrentObjectUri>(),
                forall |i: int| 0 <= i < delta.publishes@.len() ==> parent_of(*jail, #[trigger] delta.publishes@[i].uri) && !self.0@.contains_key(key_of(delta.publishes@[i].uri)),
                forall |i: int| 0 <= i < vx_it.index@ ==> parent_of(*jail, #[trigger] delta.updates@[i].uri) && has_hash(self.0@, delta.updates@[i].uri, delta.updates@[i].hash),

{
            if !jail.is_parent_of(&u.uri) {
                return Err(PublicationDeltaError::outside(jail, &u.uri));
            }
            if !self.contains(u.hash, &u.uri) {
                return Err(PublicationDeltaError::no_match(&u.uri));
            }
        }

        for w in vx_it: delta.withdraws() 
            invariant obeys_key_model::<CurrentObjectUri>(),
                forall |i: int| 0 <= i < delta.publishes@.len() ==> parent_of(*jail, #[trigger] delta.publishes@[i].uri) && !self.0@.contains_key(key_of(delta.publishes@[i].uri)),
                forall |i: int| 0 <= i < delta.updates@.len() ==> parent_of(*jail, #[trigger] delta.updates@[i].uri) && has_hash(self.0@, delta.updates@[i].uri, delta.updates@[i].hash),
                forall |i: int| 0 <= i < vx_it.index@ ==> parent_of(*jail, #[trigger] delta.withdraws@[i].uri) && has_hash(self.0@, delta.withdraws@[i].uri, delta.withdraws@[i].hash),

{
            if !jail.is_parent_of(&w.uri) {
                return Err(PublicationDeltaError::outside(jail, &w.uri));
            }
            if !self.contains(w.hash, &w.uri) {
                return Err(PublicationDeltaError::no_match(&w.uri));
            }
        }

        Ok(())
    }
}
}
fn main() {}
