from assemble import *
import subprocess, re
RR='/repo/src/server/pubd/rrdp.rs'
def S(path, **kw): return pubfields(strip_attrs(item(path, **kw)[0]))
def fn_r1(path, impl, fn, contract, loops=None, ghosts=None):
    """like fn_with_contract but also deletes log macros (R1) and supports ghost inserts at absolute anchors"""
    text,e,src=item(path, **{'impl':impl,'fn':fn})
    a,b=e['item']; sb=e['body'][0]
    ins=[(sb,'\n'+contract+'\n',0)]
    for k,inv in (loops or {}).items():
        ins.append((e['loops'][k]['body'][0], '\n'+inv+'\n',0))
        if 'vx_it' in inv and e['loops'][k]['kind']=='for':
            ins.append((e['loops'][k]['expr'][0], 'vx_it: ',0))
    dels=[]
    for m in e['macros']:
        if m['name'] in ('error','warn','info','debug','trace'):
            s0,s1=m['span']
            if src[s1:s1+1]==b';': s1+=1
            dels.append((s0,s1))
    out=[];pos=a
    events=sorted([(p,'i',t) for p,t,_ in ins]+[(s0,'d',s1) for s0,s1 in dels])
    for p,kind,x in events:
        if p<pos: continue
        out.append(src[pos:p].decode())
        if kind=='i': out.append(x); pos=p
        else: pos=x
    out.append(src[pos:b].decode())
    return name_ret(''.join(out))

outside='''
#![feature(allocator_api)]
#![feature(sized_hierarchy)]
use vstd::prelude::*;
use vstd::std_specs::hash::*;
use std::collections::HashMap;
pub mod uri { #[derive(Clone, PartialEq, Eq, Hash)] pub struct Rsync(pub Vec<u8>); }
#[derive(Clone, PartialEq, Eq)] pub struct Base64(std::sync::Arc<str>);
#[derive(Clone, Copy, PartialEq, Eq)] pub struct Hash([u8; 32]);
'''
ext='''
#[verifier::external_type_specification] #[verifier::external_body] pub struct ExRsync(uri::Rsync);
#[verifier::external_type_specification] #[verifier::external_body] pub struct ExBase64(Base64);
#[verifier::external_type_specification] #[verifier::external_body] pub struct ExHash(Hash);
pub assume_specification [<uri::Rsync as Clone>::clone] (n: &uri::Rsync) -> (r: uri::Rsync) ensures r == *n;

pub assume_specification<'a, K, V, S, A, Q> [std::collections::HashMap::<K, V, S, A>::get_mut] (m: &'a mut std::collections::HashMap<K, V, S, A>, k: &Q) -> (r: std::option::Option<&'a mut V>)
            where
            A: std::alloc::Allocator,
            K: std::cmp::Eq + std::hash::Hash + std::borrow::Borrow<Q>,
            Q: std::marker::MetaSized + std::hash::Hash + std::cmp::Eq + ?Sized,
            S: std::hash::BuildHasher,
    ensures
        obeys_key_model::<K>() && builds_valid_hashers::<S>() ==> (
        match r {
            Some(v) => contains_borrowed_key(old(m)@, k) && maps_borrowed_key_to_value(old(m)@, k, *v)
                && (forall |kk: K| #[trigger] final(m)@.contains_key(kk) <==> old(m)@.contains_key(kk))
                && (forall |kk: K| old(m)@.contains_key(kk) && !maps_borrowed_key_to_value(old(m)@.restrict(set![kk]), k, old(m)@[kk]) ==> #[trigger] final(m)@[kk] == old(m)@[kk])
                && maps_borrowed_key_to_value(final(m)@, k, *final(v)),
            None => !contains_borrowed_key(old(m)@, k) && final(m)@ == old(m)@,
        });
'''
body=[]
for st in ['PublishElement','UpdateElement','WithdrawElement','DeltaElements','StagedElements']:
    body.append(S(RR, struct=st).replace('pub struct StagedElements(HashMap<uri::Rsync, DeltaElement>);','pub struct StagedElements(pub HashMap<uri::Rsync, DeltaElement>);'))
body.append(S(RR, enum='DeltaElement'))
body.append('impl DeltaElements {\n'+fn_r1(RR,'DeltaElements','unpack','        ensures r.0 == self.publishes, r.1 == self.updates, r.2 == self.withdraws,')+'\n}')
body.append('impl StagedElements {\n'+fn_r1(RR,'StagedElements','merge_new_elements','        requires obeys_key_model::<uri::Rsync>(),\n        ensures true,',
   loops={0:'            invariant obeys_key_model::<uri::Rsync>(),\n',1:'            invariant obeys_key_model::<uri::Rsync>(),\n',2:'            invariant obeys_key_model::<uri::Rsync>(),\n'})+'\n}')
unit=outside+'\nverus! {\n'+ext+'\n\n'.join(body)+'\n}\nfn main() {}\n'
open('unit_c10.rs','w').write(unit)
r=subprocess.run(['verus','--edition','2024','unit_c10.rs'],capture_output=True,text=True)
out=r.stdout+r.stderr
print('\n'.join(l for l in out.split('\n') if not l.startswith('WARNING') and 'autoderive' not in l)[:5000])
