// Replay of finding F8 (C02) on the real code: append to src/server/ca/rc.rs.
// Failed obligation: C02.c02_childcerts.ChildCertificates::add_issued_certificate.ensures.one_record_per_key
// History: child gets a certificate, is suspended, is unsuspended (process_child_unsuspend re-issues through
// append_child_certify, i.e. ChildCertificatesUpdated { issued: [cert] }), then the issuer's own certificate shrinks.
// Before the fix the unsuspended child's key is left in both `issued` and `suspended`, shrink_overclaiming emits an
// issued AND a suspended update for the same key, and applying them withdraws the active child's certificate.
#[cfg(test)]
mod vx_f8_tests {
    use std::str::FromStr;
    use rpki::repository::cert::{KeyUsage, Overclaim, TbsCert};
    use rpki::repository::x509::Name;
    use crate::commons::crypto::KrillSignerBuilder;
    use crate::commons::test;
    use crate::config::ConfigDefaults;
    use super::*;

    fn make_rcvd_cert(signer: &KrillSigner, key: &KeyIdentifier, resources: &ResourceSet) -> ReceivedCert {
        let pub_key = signer.get_key_info(key).unwrap();
        let name = Name::from_pub_key(&pub_key);
        let mut tbs = TbsCert::new(
            signer.random_serial().unwrap(), name.clone(), SignSupport::sign_validity_years(1),
            Some(name), pub_key, KeyUsage::Ca, Overclaim::Refuse,
        );
        tbs.set_basic_ca(Some(true));
        tbs.set_ca_repository(Some(test::rsync("rsync://localhost/repo/ca/0/")));
        tbs.set_rpki_manifest(Some(test::rsync("rsync://localhost/repo/ca/0/ca.mft")));
        tbs.set_as_resources(resources.to_as_resources());
        tbs.set_v4_resources(resources.to_ip_resources_v4());
        tbs.set_v6_resources(resources.to_ip_resources_v6());
        let cert = signer.sign_cert(tbs, key).unwrap();
        ReceivedCert::create(
            cert, test::rsync("rsync://localhost/repo/parent/ca.cer"), resources.clone(), RequestResourceLimit::default(),
        ).unwrap()
    }

    /// exactly the order of the ChildCertificatesUpdated arm of CertAuth::apply
    fn apply_cert_events(rc: &mut ResourceClass, events: Vec<CertAuthEvent>) {
        for event in events {
            match event {
                CertAuthEvent::CertificateReceived { ki, rcvd_cert, .. } => rc.apply_received_cert(ki, rcvd_cert),
                CertAuthEvent::ChildCertificatesUpdated { updates, .. } => {
                    for cert in updates.issued { rc.apply_added_issued_certificate(cert) }
                    for cert in updates.unsuspended { rc.apply_unsuspend_certificate(cert) }
                    for key in updates.removed { rc.apply_removed_revoked_key(&key) }
                    for cert in updates.suspended { rc.apply_suspend_certificate(cert) }
                }
                _ => {}
            }
        }
    }

    #[test]
    fn vx_f8_unsuspended_child_keeps_certificate_when_issuer_shrinks() {
        let storage = test::mem_storage();
        let data_dir = tempfile::tempdir().unwrap();
        let config = Config::test(storage.default_uri(), Some(data_dir.path()), false, false, false, false);
        let signers = ConfigDefaults::signers();
        let signer = KrillSignerBuilder::new(&storage, std::time::Duration::from_secs(1), &signers).build().unwrap();
        let handle = CaHandle::from_str("ca").unwrap();
        let rcn = ResourceClassName::from(0);

        let ca_key = signer.create_key().unwrap();
        let ca_resources = ResourceSet::from_strs("AS65000", "10.0.0.0/16", "").unwrap();
        let mut rc = ResourceClass::create(
            rcn.clone(), rcn.to_string(), ParentHandle::from_str("parent").unwrap(), rcn.clone(), ca_key,
        );
        rc.apply_pending_key_to_active(CertifiedKey::create(make_rcvd_cert(&signer, &ca_key, &ca_resources)));

        // the child is entitled to 10.0.0.0/16 and gets it
        let child_key = signer.create_key().unwrap();
        let csr = CsrInfo::new(
            test::rsync("rsync://localhost/repo/child/0/"), test::rsync("rsync://localhost/repo/child/0/child.mft"),
            None, signer.get_key_info(&child_key).unwrap(),
        );
        let issued = rc.issue_cert(csr, &ca_resources, RequestResourceLimit::default(), &config.issuance_timing, &signer).unwrap();
        rc.apply_added_issued_certificate(issued);

        // the child is suspended (process_child_suspend_inactive: ChildCertificatesUpdated { suspended })
        let suspended: SuspendedCert = rc.issued(&child_key).unwrap().to_converted();
        rc.apply_suspend_certificate(suspended);
        assert!(rc.issued(&child_key).is_none() && rc.suspended(&child_key).is_some());

        // the child is unsuspended (process_child_unsuspend -> append_child_certify: ChildCertificatesUpdated { issued })
        let s = rc.suspended(&child_key).unwrap().clone();
        let reissued = rc.issue_cert(s.csr_info.clone(), &s.resources, s.limit.clone(), &config.issuance_timing, &signer).unwrap();
        rc.apply_added_issued_certificate(reissued);
        assert!(rc.issued(&child_key).is_some());
        assert!(rc.suspended(&child_key).is_none(), "F8: unsuspended key is still filed as suspended as well");

        // the issuer loses half of its space: the active child must end up with the part both still hold
        let shrunk = ResourceSet::from_strs("AS65000", "10.0.0.0/17", "").unwrap();
        let events = rc.process_received_cert(
            &handle, make_rcvd_cert(&signer, &ca_key, &shrunk),
            &Routes::default(), &AspaDefinitions::default(), &BgpSecDefinitions::default(), &config, &signer,
        ).unwrap();
        apply_cert_events(&mut rc, events);
        let cert = rc.issued(&child_key).expect("F8: the active child's certificate was withdrawn");
        assert_eq!(cert.resources, shrunk);
    }
}
