// Replay of finding F4 (C05) on the real code: append to src/server/ca/aspa.rs.
// Failed obligation: C05.c05_aspa.AspaDefinitions::process_updates.ensures.applied_entirely
//   (named step: ...process_updates.assert.event_replays_to_working_copy)
// An accepted ASPA delta must be applied entirely: replaying the events it returns (what is stored, and what the CA is
// rebuilt from) must give the definitions it returns (what the ASPA objects of the same command are issued from).
// Before the fix the provider diff of each add_or_replace entry was taken against the definitions as they were BEFORE the
// delta, not against the working copy, so a delta that removes and re-adds a customer, or lists a customer twice,
// stores something else than it publishes.
#[cfg(test)]
mod vx_f4_tests {
    use super::*;
    use std::str::FromStr;
    use rpki::repository::resources::Asn;
    use crate::api::aspa::ProviderAsn;

    fn def(s: &str) -> AspaDefinition { AspaDefinition::from_str(s).unwrap() }

    /// the three ASPA configuration arms of CertAuth::apply
    fn replay(start: &AspaDefinitions, events: Vec<CertAuthEvent>) -> AspaDefinitions {
        let mut aspas = start.clone();
        for event in events {
            match event {
                CertAuthEvent::AspaConfigAdded { aspa_config } => aspas.add_or_replace(aspa_config),
                CertAuthEvent::AspaConfigUpdated { customer, update } => aspas.apply_update(customer, &update),
                CertAuthEvent::AspaConfigRemoved { customer } => aspas.remove(customer),
                _ => unreachable!(),
            }
        }
        aspas
    }

    fn sorted(d: &AspaDefinitions) -> Vec<(CustomerAsn, Vec<ProviderAsn>)> {
        let mut v: Vec<_> = d.iter().map(|a| { let mut p = a.providers.clone(); p.sort(); (a.customer, p) }).collect();
        v.sort();
        v
    }

    #[test]
    fn vx_f4_remove_and_re_add_in_one_delta() {
        let handle = CaHandle::from_str("ca").unwrap();
        let resources = ResourceSet::from_strs("AS65000", "", "").unwrap();
        let mut current = AspaDefinitions::default();
        current.add_or_replace(def("AS65000 => AS65001, AS65002"));

        let updates = AspaDefinitionUpdates {
            add_or_replace: vec![def("AS65000 => AS65001, AS65003")],
            remove: vec![Asn::from_u32(65000)],
        };
        let (published, events) = current.process_updates(&handle, &resources, updates).unwrap();
        assert_eq!(sorted(&published), vec![(Asn::from_u32(65000), vec![Asn::from_u32(65001), Asn::from_u32(65003)])]);
        assert_eq!(sorted(&replay(&current, events)), sorted(&published), "F4: stored configuration differs from the published one");
    }

    #[test]
    fn vx_f4_customer_twice_in_one_delta() {
        let handle = CaHandle::from_str("ca").unwrap();
        let resources = ResourceSet::from_strs("AS65000", "", "").unwrap();
        let mut current = AspaDefinitions::default();
        current.add_or_replace(def("AS65000 => AS65001"));

        let updates = AspaDefinitionUpdates {
            add_or_replace: vec![def("AS65000 => AS65002"), def("AS65000 => AS65001")],
            remove: vec![],
        };
        let (published, events) = current.process_updates(&handle, &resources, updates).unwrap();
        assert_eq!(sorted(&published), vec![(Asn::from_u32(65000), vec![Asn::from_u32(65001)])]);
        assert_eq!(sorted(&replay(&current, events)), sorted(&published), "F4: stored configuration differs from the published one");
    }
}
