// Replay of known finding F5 on the real code: append to src/server/pubd/rrdp.rs.
// Fails on the current tree: 6 deltas retained although rrdp_delta_files_max_nr = 3 (all younger than rrdp_delta_files_min_seconds).
#[cfg(test)]
mod vx_f5_tests {
    use super::*;
    use std::str::FromStr;
    use crate::config::RrdpUpdatesConfig;

    /// F5 replay: several updates within rrdp_delta_files_min_seconds exceed rrdp_delta_files_max_nr.
    #[test]
    fn vx_f5_young_deltas_exceed_max_nr() {
        let mut server = RrdpServer::create(
            uri::Https::from_str("https://h/rrdp/").unwrap(), std::path::Path::new("/tmp/vx-f5"), RrdpSession::random()
        );
        let cfg = RrdpUpdatesConfig {
            rrdp_delta_files_min_nr: 1, rrdp_delta_files_min_seconds: 1200, rrdp_delta_files_max_nr: 3,
            rrdp_delta_files_max_seconds: 3600, rrdp_delta_interval_min_seconds: 0, rrdp_files_archive: false,
        };
        for _ in 0..6 {
            let upd = server.update_rrdp(cfg).unwrap();
            server.apply_rrdp_updated(upd);
        }
        assert!(server.deltas.len() <= 3, "retained {} deltas, configured maximum 3", server.deltas.len());
    }
}
