// Replay of finding F3 on the real code: append to src/server/mq.rs.
// Fails on the tree before the fix (running == 1 after restart), passes after.
#[cfg(test)]
mod vx_f3_tests {
    use super::*;
    use crate::commons::storage::StorageSystem;

    /// F3 replay: the daemon stopped while exactly ONE task was running.
    #[test]
    fn vx_f3_single_running_task_is_requeued_at_startup() {
        let storage = StorageSystem::new_memory(None);
        let tasks = TaskQueue::new(&storage).unwrap();
        tasks.schedule(Task::RepublishIfNeeded, now()).unwrap();
        let claimed = tasks.pop();
        assert!(claimed.is_some());
        assert_eq!(tasks.q.running_tasks_remaining().unwrap(), 1);
        // "restart"
        tasks.reschedule_tasks_at_startup().unwrap();
        assert_eq!(tasks.q.running_tasks_remaining().unwrap(), 0, "task still marked running after restart");
        assert_eq!(tasks.q.pending_tasks_remaining().unwrap(), 1);
        // and the recurring task can be scheduled/claimed again
        tasks.schedule_missing(Task::RepublishIfNeeded, now()).unwrap();
        assert!(tasks.pop().is_some());
    }
}
