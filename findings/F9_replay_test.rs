// appended to src/daemon/http/auth/providers/config_file.rs (after the `struct Auth` item) to replay finding F9 on the real code:
//   cargo test --offline --lib f9_login_as_another


//============ Tests =========================================================

#[cfg(test)]
mod tests {
    use super::*;
    use crate::daemon::http::auth::Role;

    const SALT: &str = "00112233445566778899aabbccddeeff";

    /// Produces the password hash as it would be stored in the config.
    fn config_password_hash(username: &str, password: &str) -> String {
        let params = scrypt::Params::new(
            PW_HASH_LOG_N, PW_HASH_R, PW_HASH_P,
            scrypt::Params::RECOMMENDED_LEN,
        ).unwrap();
        let mut interim: [u8; 32] = [0; 32];
        scrypt::scrypt(
            password.as_bytes(),
            format!("krill-lagosta-{username}").as_bytes(),
            &params, &mut interim,
        ).unwrap();
        let mut hash: [u8; 32] = [0; 32];
        scrypt::scrypt(
            &interim, &hex::decode(SALT).unwrap(), &params, &mut hash,
        ).unwrap();
        hex::encode(hash)
    }

    /// Returns a real hyper request with a Basic authorization header.
    ///
    /// There is no way to create a `hyper::body::Incoming` by hand, so the
    /// request is sent over a loopback connection and picked up in the
    /// service function.
    async fn login_request(username: &str, password: &str) -> HyperRequest {
        use std::io::Write;

        let listener = tokio::net::TcpListener::bind(
            "127.0.0.1:0"
        ).await.unwrap();
        let addr = listener.local_addr().unwrap();
        let (tx, mut rx) = tokio::sync::mpsc::unbounded_channel();
        tokio::spawn(async move {
            let (stream, _) = listener.accept().await.unwrap();
            let _ = hyper::server::conn::http1::Builder::new()
                .serve_connection(
                    hyper_util::rt::TokioIo::new(stream),
                    hyper::service::service_fn(move |req: HyperRequest| {
                        let tx = tx.clone();
                        async move {
                            let _ = tx.send(req);
                            Ok::<_, std::convert::Infallible>(
                                hyper::Response::new(String::new())
                            )
                        }
                    })
                ).await;
        });

        let auth = BASE64_ENGINE.encode(format!("{username}:{password}"));
        let mut client = std::net::TcpStream::connect(addr).unwrap();
        client.write_all(
            format!(
                "POST /auth/login HTTP/1.1\r\n\
                 Host: localhost\r\n\
                 Authorization: Basic {auth}\r\n\
                 Content-Length: 0\r\n\r\n"
            ).as_bytes()
        ).unwrap();
        let request = rx.recv().await.unwrap();
        drop(client);
        request
    }

    /// F9 (C20): two configured users whose names are equal after NFKC normalisation -- "\u{fb01}ona" (written with the
    /// fi ligature; read-only) and "fiona" (admin).  Both entries are what `krillc config user --id <name>` prints: the key
    /// is the id as typed, the hash is made with the weak salt of the NORMALISED id.  login() checks the presented password
    /// against the entry found under the name as presented, but then takes identity and role from the entry found under the
    /// normalised name.
    #[tokio::test]
    async fn f9_login_as_another_user_with_nfkc_equivalent_name() {
        let mut users = HashMap::new();
        users.insert("\u{fb01}ona".to_string(), UserDetails {
            password_hash: Token::from(config_password_hash("fiona", "password-of-the-readonly-user")),
            salt: SALT.into(), role: "readonly".into(),
        });
        users.insert("fiona".to_string(), UserDetails {
            password_hash: Token::from(config_password_hash("fiona", "password-of-the-admin")),
            salt: SALT.into(), role: "admin".into(),
        });
        let mut roles = RoleMap::new();
        roles.add("admin", Role::admin());
        roles.add("readonly", Role::readonly());
        let provider = AuthProvider {
            users, roles: Arc::new(roles),
            session_key: crypt::CryptState::from_key_bytes([0x17; 32]).unwrap(),
            session_cache: SessionCache::new(),
        };
        // the read-only user presents her own name and her own password ...
        let res = provider.login(&login_request("\u{fb01}ona", "password-of-the-readonly-user").await).await;
        // ... and must either be refused or be logged in as herself (role readonly)
        match res {
            Err(_) => {}
            Ok(user) => assert_eq!(
                user.role(), "readonly",
                "the read-only user's password logged her in as {:?} with role {:?}", user.id(), user.role()
            ),
        }
    }
}
