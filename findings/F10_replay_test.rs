// added inside `mod test` of src/server/pubd/rrdp.rs to replay finding F10 on the real code:
//   cargo test --offline --lib f10_uri_scheme_case
    /// F10 (C10): rpki's `uri::Rsync` accepts the scheme in any case and compares it case-insensitively, and the jail
    /// check accepts both spellings -- but `CurrentObjectUri::from`, the key under which published objects are filed,
    /// is only canonical in the host name (rpki's `canonical_module()` returns the module as written unless the
    /// AUTHORITY contains an upper-case letter).  A publish of an object that is present, spelled with `RSYNC://`,
    /// is accepted as new; an update / withdraw with the right hash through that spelling is refused.
    #[test]
    fn f10_uri_scheme_case_names_same_object() {
        let jail = rsync("rsync://localhost/repo/alice/");
        let lower = rsync("rsync://localhost/repo/alice/a.cer");
        let upper = rsync("RSYNC://localhost/repo/alice/a.cer");
        // the two spellings are the same URI for rpki-rs and both are inside the publisher's jail
        assert_eq!(lower, upper);
        assert!(jail.is_parent_of(&upper));

        let content_1 = Base64::from_content(&[1]);
        let content_2 = Base64::from_content(&[2]);
        let mut objects = CurrentObjects::default();
        let first = DeltaElements::new(
            vec![PublishElement { uri: lower.clone(), base64: content_1.clone() }], vec![], vec![],
        );
        objects.verify_delta_applies(&first, &jail).unwrap();
        objects.apply_delta(first);
        assert_eq!(objects.len(), 1);

        // a second publish of the object that is present must be refused
        let again = DeltaElements::new(
            vec![PublishElement { uri: upper.clone(), base64: content_2.clone() }], vec![], vec![],
        );
        assert!(
            matches!(objects.verify_delta_applies(&again, &jail), Err(PublicationDeltaError::ObjectAlreadyPresent(_))),
            "publish of the present object accepted as new under the spelling {upper}"
        );
        // and a withdraw with the right hash must be accepted
        let withdraw = DeltaElements::new(
            vec![], vec![], vec![WithdrawElement { uri: upper.clone(), hash: content_1.to_hash() }],
        );
        assert!(objects.verify_delta_applies(&withdraw, &jail).is_ok(), "withdraw with matching hash refused for {upper}");
    }
