// Replay of finding F2 on the real code: paste into `mod tests` of src/server/ca/certauth.rs.
// Fails on the tree before commit 08b59cea (events == []), passes after.
    /// F2 replay: a child whose class name is mapped revokes its key under the name it was told.
    #[test]
    fn vx_f2_revoke_under_mapped_class_name() {
        use std::str::FromStr;
        let mut ca: serde_json::Value = serde_json::from_str(include_str!(
            "../../../test-resources/migrations/v0_13_1_pubserver/cas/testbed/snapshot.json"
        )).unwrap();
        ca.pointer_mut("/children/NLnetLabs").unwrap().as_object_mut().unwrap()
            .insert("rcn_map".into(), serde_json::json!({"0": "child-class"}));
        let ca: CertAuth = serde_json::from_value(ca).unwrap();
        let child = ChildHandle::from_str("NLnetLabs").unwrap();
        let key = KeyIdentifier::from_str("B2F9D7A5A5A9D791BE2BB641C9AF19505D100C2F").unwrap();
        assert!(ca.get_child(&child).unwrap().is_issued(&key));
        assert_eq!(ca.get_child(&child).unwrap().parent_name_for_rcn(&ResourceClassName::from("child-class")), ResourceClassName::from("0"));
        let req = RevocationRequest::new(ResourceClassName::from("child-class"), key);
        let evs = ca.process_child_revoke_key(child, req).unwrap();
        assert_eq!(evs.len(), 2, "revocation under the mapped class name was answered positively but had no effect: {:?}", evs);
    }
