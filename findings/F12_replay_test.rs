// added inside `mod tests` of src/server/ca/certauth.rs to replay finding F12 on the real code:
//   cargo test --offline --lib f12_revoke_request_naming_another_class
    /// Creates a new key with a self-signed CA certificate for it.
    fn certified_key(signer: &KrillSigner) -> super::super::keys::CertifiedKey {
        use rpki::ca::idexchange::RepoInfo;
        use rpki::repository::cert::{KeyUsage, Overclaim, TbsCert};
        use crate::commons::crypto::SignSupport;

        let key = signer.create_key().unwrap();
        let pub_key = signer.get_key_info(&key).unwrap();
        let name = pub_key.to_subject_name();
        let resources = ResourceSet::all();
        let repo_info = RepoInfo::new(
            test::rsync("rsync://localhost/repo/ca/"),
            Some(test::https("https://localhost/rrdp/notification.xml")),
        );

        let mut cert = TbsCert::new(
            signer.random_serial().unwrap(),
            name.clone(),
            SignSupport::sign_validity_years(1),
            Some(name),
            pub_key.clone(),
            KeyUsage::Ca,
            Overclaim::Refuse,
        );
        cert.set_basic_ca(Some(true));
        cert.set_ca_repository(Some(repo_info.ca_repository("")));
        cert.set_rpki_manifest(Some(repo_info.resolve(
            "",
            ObjectName::mft_from_ca_key(&pub_key.key_identifier()).as_ref(),
        )));
        cert.set_rpki_notify(repo_info.rpki_notify().cloned());
        cert.set_as_resources(resources.to_as_resources());
        cert.set_v4_resources(resources.to_ip_resources_v4());
        cert.set_v6_resources(resources.to_ip_resources_v6());
        let cert = signer.sign_cert(cert, &key).unwrap();

        super::super::keys::CertifiedKey::create(
            ReceivedCert::create(
                cert,
                test::rsync("rsync://localhost/repo/ta/ta.cer"),
                resources,
                RequestResourceLimit::default(),
            ).unwrap()
        )
    }


    /// F12 (C03): a CA with two resource classes "0" and "1"; the child's certificate for key K was issued in class "0".  The
    /// child sends a revocation request that names class "1" and key K.  process_child_revoke_key only checks that K is in
    /// use in SOME class (ChildDetails::is_issued), answers positively, and emits the revocation for class "1", where it is
    /// a no-op: the certificate in class "0" stays issued and published and never reaches the CRL, while the child's key is
    /// now recorded as revoked -- so that even removing the child later leaves the certificate behind.
    #[test]
    fn f12_revoke_request_naming_another_class() {
        use rpki::ca::idexchange::RepoInfo;
        use std::str::FromStr;

        test::test_in_memory(|storage_uri| {
            let signers = ConfigDefaults::signers();
            let signer = KrillSignerBuilder::new(storage_uri, Duration::from_secs(1), &signers).build().unwrap();
            let timing: IssuanceTimingConfig = serde_json::from_str("{}").unwrap();

            let rcn0 = ResourceClassName::from(0);
            let rcn1 = ResourceClassName::from(1);
            let parent = ParentHandle::from_str("parent").unwrap();
            let child = ChildHandle::from_str("child").unwrap();
            let child_resources = ResourceSet::from_strs("AS65000", "10.0.0.0/8", "").unwrap();

            let mut ca = CertAuth::init(
                &CaHandle::from_str("ca").unwrap(),
                CertAuthInitEvent { id: Rfc8183Id::generate(&signer).unwrap() }
            );
            for rcn in [&rcn0, &rcn1] {
                let current_key = certified_key(&signer);
                ca.apply(CertAuthEvent::ResourceClassAdded {
                    resource_class_name: rcn.clone(), parent: parent.clone(),
                    parent_resource_class_name: rcn.clone(), pending_key: current_key.key_id(),
                });
                ca.apply(CertAuthEvent::KeyPendingToActive { resource_class_name: rcn.clone(), current_key });
            }
            ca.apply(CertAuthEvent::ChildAdded {
                child: child.clone(),
                id_cert: Rfc8183Id::generate(&signer).unwrap().cert().clone(),
                resources: child_resources.clone(),
            });

            // issue a certificate to the child in class 0
            let child_key = signer.create_key().unwrap();
            let child_pub_key = signer.get_key_info(&child_key).unwrap();
            let child_repo = RepoInfo::new(
                test::rsync("rsync://localhost/repo/child/"),
                Some(test::https("https://localhost/rrdp/notification.xml")),
            );
            let csr_info = CsrInfo::new(
                child_repo.ca_repository(""),
                child_repo.resolve("", ObjectName::mft_from_ca_key(&child_key).as_ref()),
                child_repo.rpki_notify().cloned(),
                child_pub_key,
            );
            let issued = ca.resources.get(&rcn0).unwrap().issue_cert(
                csr_info, &child_resources, RequestResourceLimit::default(), &timing, &signer,
            ).unwrap();
            ca.apply(CertAuthEvent::ChildCertificateIssued {
                child: child.clone(), resource_class_name: rcn0.clone(), ki: child_key,
            });
            let mut updates = ChildCertificateUpdates::default();
            updates.issued.push(issued);
            ca.apply(CertAuthEvent::ChildCertificatesUpdated { resource_class_name: rcn0.clone(), updates });
            assert!(ca.resources.get(&rcn0).unwrap().issued(&child_key).is_some());

            // the child asks to revoke K, naming class 1
            let res = ca.process_child_revoke_key(child.clone(), RevocationRequest::new(rcn1.clone(), child_key));
            if let Ok(events) = res {
                // answered positively (the caller sends the confirmation): then the certificate must be gone
                for event in events { ca.apply(event) }
                assert!(
                    ca.resources.get(&rcn0).unwrap().issued(&child_key).is_none(),
                    "revocation request answered positively, but the certificate is still issued in class 0"
                );
            }
            // and whatever the answer was: removing the child must remove the certificate
            for event in ca.process_child_remove(&child).unwrap() { ca.apply(event) }
            assert!(
                ca.resources.get(&rcn0).unwrap().issued(&child_key).is_none(),
                "child removed, but its certificate is still issued in class 0"
            );
        });
    }
