// appended to src/commons/eventsourcing/test.rs to replay finding F11 on the real code:
//   cargo test --offline --lib f11_command_history_rows_limit
/// F11 (C16): `GET /api/v1/cas/<ca>/history/commands/<rows>/<offset>` parses `<rows>` as usize and hands it, unchecked, to
/// `Vec::with_capacity` in AggregateStore::command_history_for_records.  A large value panics with "capacity overflow"
/// (release builds abort on panic); the request needs no more than read access to the CA.
#[test]
fn f11_command_history_rows_limit_from_the_path_is_not_a_capacity() {
    let storage_uri = mem_storage();
    let counter = EventCounter::default();
    let manager = AggregateStore::<Person>::create(&storage_uri, const { Ident::make("person") }, false).unwrap();
    let bob_handle = MyHandle::from_str("bob").unwrap();
    manager.add_with_context(PersonInitCommand::make(bob_handle.clone(), "bob".to_string()), &counter).unwrap();
    manager.command_with_context(PersonCommand::go_around_sun(bob_handle.clone(), None), &counter).unwrap();

    for rows in [usize::MAX, usize::MAX / 2, (isize::MAX as usize) / 8] {
        let history = manager.command_history(
            &bob_handle,
            CommandHistoryCriteria { offset: 0, rows_limit: Some(rows), ..Default::default() },
        ).unwrap();
        assert_eq!(history.total, 1);
        assert_eq!(history.commands.len(), 1);
    }
}
