// Engine K BOUNDED harness for src/daemon/http/auth/providers/admin_token.rs: the admin token authenticates only verbatim.
// Bound: tokens over the alphabet {a,b} of length <= 2 (presented) and 1..=2 (configured).
use super::*;

fn small_string(max: usize) -> String {
    let len: usize = kani::any();
    kani::assume(len <= max);
    let mut s = String::new();
    let mut i = 0;
    while i < len {
        s.push(if kani::any() { 'a' } else { 'b' });
        i += 1;
    }
    s
}

/// HashMap construction reads OS randomness; a fixed hasher state stands in (no map is looked up by this harness)
fn det_random_state() -> std::hash::RandomState { unsafe { std::mem::transmute((1u64, 2u64)) } }

// the bearer token the (stubbed) request carries; set by the harness
static mut VX_BEARER: Option<String> = None;
fn stub_get_bearer_token(_request: &HyperRequest) -> Option<Token> {
    #[allow(static_mut_refs)]
    unsafe { VX_BEARER.clone().map(Token::from) }
}

#[kani::proof]
#[kani::unwind(4)]
#[kani::stub(crate::commons::httpclient::get_bearer_token, stub_get_bearer_token)]
#[kani::stub(std::hash::RandomState::new, det_random_state)]
fn k_admin_token_verbatim_only() {
    let required = small_string(2);
    kani::assume(!required.is_empty());
    let presented: Option<String> = if kani::any() { Some(small_string(2)) } else { None };
    unsafe { VX_BEARER = presented.clone(); }
    let provider = AuthProvider { required_token: Token::from(required.clone()), user_id: "admin-token".into(), role: Role::admin().into() };
    // the request value is never inspected: get_bearer_token is stubbed
    let slot: Box<std::mem::MaybeUninit<HyperRequest>> = Box::new(std::mem::MaybeUninit::uninit());
    let request: &HyperRequest = unsafe { &*slot.as_ptr() };
    let res = provider.authenticate(request);
    match presented {
        None => assert!(matches!(res, Ok(None))),
        Some(p) => {
            if p == required { assert!(matches!(res, Ok(Some(_)))); } else { assert!(res.is_err()); }
        }
    }
    kani::cover!(matches!(res, Ok(Some(_))));
    kani::cover!(res.is_err());
}
