// Engine K harnesses for src/server/bgp/riswhois.rs: prefix algebra (RFC 6811 "covers") and index conversions.
use super::*;
use crate::api::roa::vx_kani_k_api_roa::{any_v4, any_v6};

/// bit-level spec: a covers b  <=>  len(a) <= len(b) and b's first len(a) bits equal a's
fn covers4_spec(a: Ipv4Prefix, b: Ipv4Prefix) -> bool {
    a.addr_len() <= b.addr_len()
        && (a.addr_len() == 0 || (a.addr().to_bits() >> (32 - a.addr_len())) == (b.addr().to_bits() >> (32 - a.addr_len())))
}
fn covers6_spec(a: Ipv6Prefix, b: Ipv6Prefix) -> bool {
    a.addr_len() <= b.addr_len()
        && (a.addr_len() == 0 || (a.addr().to_bits() >> (128 - a.addr_len())) == (b.addr().to_bits() >> (128 - a.addr_len())))
}

#[kani::proof]
fn k_covers_v4() {
    let a = any_v4();
    let b = any_v4();
    assert!(a.covers(b) == covers4_spec(a, b));
    // the other implementation in the tree agrees
    assert!(a.covers(b) == TypedPrefix::V4(a).matching_or_less_specific(TypedPrefix::V4(b)));
    kani::cover!(a.covers(b) && a.addr_len() > 0 && a.addr_len() < b.addr_len());
    kani::cover!(!a.covers(b) && a.addr_len() < b.addr_len());
}

#[kani::proof]
fn k_covers_v6() {
    let a = any_v6();
    let b = any_v6();
    assert!(a.covers(b) == covers6_spec(a, b));
    kani::cover!(a.covers(b) && a.addr_len() > 0 && a.addr_len() < b.addr_len());
    kani::cover!(!a.covers(b) && a.addr_len() < b.addr_len());
}

#[kani::proof]
fn k_covers_v6_agrees_with_typed() {
    let a = any_v6();
    let b = any_v6();
    assert!(a.covers(b) == TypedPrefix::V6(a).matching_or_less_specific(TypedPrefix::V6(b)));
}

// closest_ancestor covers both, keeps the type invariant, and no longer common prefix exists
#[kani::proof]
fn k_closest_ancestor_v4() {
    let a = any_v4();
    let b = any_v4();
    let c = a.closest_ancestor(b);
    assert!(c.addr_len() <= 32);
    assert!(c.addr_len() == 32 || c.addr().to_bits() & (u32::MAX >> c.addr_len()) == 0);
    assert!(covers4_spec(c, a) && covers4_spec(c, b));
    // maximality: one more bit of a's address no longer covers b (or the length is already the shorter of the two)
    if c.addr_len() < a.addr_len() && c.addr_len() < b.addr_len() {
        assert!(a.bit(c.addr_len()) != b.bit(c.addr_len()));
    }
}
#[kani::proof]
fn k_closest_ancestor_v6() {
    let a = any_v6();
    let b = any_v6();
    let c = a.closest_ancestor(b);
    assert!(c.addr_len() <= 128);
    assert!(c.addr_len() == 128 || c.addr().to_bits() & (u128::MAX >> c.addr_len()) == 0);
    assert!(covers6_spec(c, a) && covers6_spec(c, b));
    if c.addr_len() < a.addr_len() && c.addr_len() < b.addr_len() {
        assert!(a.bit(c.addr_len()) != b.bit(c.addr_len()));
    }
}
// ---- the prefix algebra that the V unit c17_categorise ASSUMES of every RoutePrefix implementation (full domain, loop-free) ----
#[kani::proof]
fn k_covers_algebra_v4() {
    let a = any_v4(); let b = any_v4(); let c = any_v4();
    assert!(a.covers(a));                                            // reflexive
    if a.covers(b) && b.covers(c) { assert!(a.covers(c)); }          // transitive
    if a.covers(b) { assert!(a.addr_len() <= b.addr_len()); }        // covering prefix is not longer
    kani::cover!(a.covers(b) && b.covers(c) && a.addr_len() < b.addr_len() && b.addr_len() < c.addr_len());
}
#[kani::proof]
fn k_covers_algebra_v6() {
    let a = any_v6(); let b = any_v6(); let c = any_v6();
    assert!(a.covers(a));
    if a.covers(b) && b.covers(c) { assert!(a.covers(c)); }
    if a.covers(b) { assert!(a.addr_len() <= b.addr_len()); }
    kani::cover!(a.covers(b) && b.covers(c) && a.addr_len() < b.addr_len() && b.addr_len() < c.addr_len());
}
// sub-prefix existence: for every length l between len(p) and the family maximum there is a prefix of length l under p
#[kani::proof]
fn k_subprefix_v4() {
    let p = any_v4();
    let l: u8 = kani::any();
    kani::assume(p.addr_len() <= l && l <= 32);
    let s = crate::api::roa::vx_kani_k_api_roa::mk_v4(p.addr().to_bits(), l);
    assert!(p.covers(s) && s.addr_len() == l);
    assert!(l == 32 || s.addr().to_bits() & (u32::MAX >> l) == 0);   // the witness is a well-formed prefix
}
#[kani::proof]
fn k_subprefix_v6() {
    let p = any_v6();
    let l: u8 = kani::any();
    kani::assume(p.addr_len() <= l && l <= 128);
    let s = crate::api::roa::vx_kani_k_api_roa::mk_v6(p.addr().to_bits(), l);
    assert!(p.covers(s) && s.addr_len() == l);
    assert!(l == 128 || s.addr().to_bits() & (u128::MAX >> l) == 0);
}
// bit(i) is the i-th bit from the left; out of range is false; never panics
#[kani::proof]
fn k_bit() {
    let a = any_v4();
    let i: u8 = kani::any();
    assert!(a.bit(i) == (i < 32 && (a.addr().to_bits() >> (31 - (i as u32 % 32))) & 1 == 1));
    let b = any_v6();
    assert!(b.bit(i) == (i < 128 && (b.addr().to_bits() >> (127 - (i as u32 % 128))) & 1 == 1));
}
// C16: index conversions never panic and round-trip
#[kani::proof]
fn k_indexes() {
    let n: usize = kani::any();
    match DataIndex::data(n) { Ok(d) => { assert!(n < 0x8000_0000); assert!(d.into_data() == Ok(n)); } Err(_) => assert!(n >= 0x8000_0000) }
    match DataIndex::no_data(n) { Ok(d) => { assert!(n < 0x8000_0000); assert!(d.into_data() == Err(n)); } Err(_) => assert!(n >= 0x8000_0000) }
    match TreeIndex::try_from(n) { Ok(t) => { assert!(n < u32::MAX as usize); assert!(t.into_usize() == Some(n)); } Err(_) => assert!(n >= u32::MAX as usize) }
    assert!(TreeIndex::none().into_usize().is_none());
    let raw: u32 = kani::any();
    let _ = DataIndex(raw).into_data();
    let _ = TreeIndex(raw).into_usize();
}

/// test support for harnesses in sibling modules: RouteOriginSet::new is private to this module
pub(crate) fn mk_origin_set<P: RoutePrefix>(slice: &[RouteOrigin<P>]) -> RouteOriginSet<'_, P> {
    RouteOriginSet::new(slice)
}
