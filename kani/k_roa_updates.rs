// Engine K harness for src/api/roa.rs: RoaConfigurationUpdates::set_explicit_max_length (iter_mut().for_each, outside the Verus
// subset) -- the canonical form Routes::process_updates relies on: after the call EVERY entry of the delta, additions and removals,
// carries its explicit (effective) max length, and nothing else of an entry changes.  BOUNDED: one addition and one removal.
use super::*;
use super::vx_kani_k_api_roa::any_payload;

#[kani::proof]
#[kani::unwind(18)]
fn k_updates_all_entries_get_explicit_max_length() {
    let a = any_payload();
    let r = any_payload();
    let mut u = RoaConfigurationUpdates { added: vec![RoaConfiguration { payload: a, comment: None }], removed: vec![r] };
    u.set_explicit_max_length();
    assert!(u.added.len() == 1 && u.removed.len() == 1);
    assert!(u.added[0].payload.max_length == Some(a.effective_max_length()));
    assert!(u.added[0].payload.asn == a.asn && u.added[0].payload.prefix == a.prefix);
    assert!(u.removed[0].max_length == Some(r.effective_max_length()));
    assert!(u.removed[0].asn == r.asn && u.removed[0].prefix == r.prefix);
}
