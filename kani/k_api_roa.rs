// Engine K harnesses for src/api/roa.rs (injected as a child module of krill::api::roa under cfg(kani)).
// Inputs are built by constructors that encode the type invariants established by FromStr / From<Prefix>:
//   Ipv4Prefix: addr_len <= 32 and all host bits zero;  Ipv6Prefix: addr_len <= 128 and all host bits zero.
use super::*;

pub fn any_v4() -> Ipv4Prefix {
    let len: u8 = kani::any();
    let bits: u32 = kani::any();
    kani::assume(len <= 32);
    kani::assume(if len == 32 { true } else { bits & (u32::MAX >> len) == 0 });
    Ipv4Prefix { addr: Ipv4Addr::from_bits(bits), addr_len: len }
}
/// concrete prefix for harnesses in sibling modules (fields are private to api::roa)
pub fn mk_v4(bits: u32, len: u8) -> Ipv4Prefix { Ipv4Prefix { addr: Ipv4Addr::from_bits(bits), addr_len: len } }
pub fn mk_v6(bits: u128, len: u8) -> Ipv6Prefix { Ipv6Prefix { addr: Ipv6Addr::from_bits(bits), addr_len: len } }
pub fn any_v6() -> Ipv6Prefix {
    let len: u8 = kani::any();
    let bits: u128 = kani::any();
    kani::assume(len <= 128);
    kani::assume(if len == 128 { true } else { bits & (u128::MAX >> len) == 0 });
    Ipv6Prefix { addr: Ipv6Addr::from_bits(bits), addr_len: len }
}
pub fn any_typed() -> TypedPrefix {
    if kani::any() { TypedPrefix::V4(any_v4()) } else { TypedPrefix::V6(any_v6()) }
}
pub fn any_payload() -> RoaPayload {
    let asn: u32 = kani::any();
    let ml: Option<u8> = if kani::any() { Some(kani::any()) } else { None };
    RoaPayload { asn: AsNumber(asn), prefix: any_typed(), max_length: ml }
}

/// spec: the family maximum
fn fam_max(p: TypedPrefix) -> u8 { match p { TypedPrefix::V4(_) => 32, TypedPrefix::V6(_) => 128 } }

// C16/C05: max_length_valid is exactly "absent, or prefix length <= ml <= family maximum"
#[kani::proof]
fn k_max_length_valid_iff() {
    let p = any_payload();
    let spec = match p.max_length { None => true, Some(ml) => p.prefix.addr_len() <= ml && ml <= fam_max(p.prefix) };
    assert!(p.max_length_valid() == spec);
    kani::cover!(p.max_length_valid() && p.max_length.is_some());
    kani::cover!(!p.max_length_valid());
}

// C16: contract of nr_of_specific_prefixes (see contracts in groups.py): under max_length_valid() it must not panic
#[kani::proof_for_contract(RoaPayload::nr_of_specific_prefixes)]
fn k_nr_of_specific_prefixes_contract() {
    let p = any_payload();
    let _ = p.nr_of_specific_prefixes();
}

// C05: into_explicit_max_length makes max_length == Some(effective) and is idempotent, keeps validity
#[kani::proof]
fn k_explicit_max_length() {
    let p = any_payload();
    let q = p.into_explicit_max_length();
    assert!(q.max_length == Some(p.effective_max_length()));
    assert!(q.asn == p.asn && q.prefix == p.prefix);
    assert!(q.into_explicit_max_length() == q);
    assert!(q.max_length_valid() == p.max_length_valid());
    let mut m = p;
    m.set_explicit_max_length();
    assert!(m == q);
}

// C16/C17: resize never panics, result has the requested (capped) length and zero host bits, keeps network bits
#[kani::proof]
fn k_v4_resize() {
    let p = any_v4();
    let l: u8 = kani::any();
    let r = p.resize(l);
    let want = if l >= 32 { 32 } else { l };
    assert!(r.addr_len == want);
    if want < 32 { assert!(r.addr.to_bits() & (u32::MAX >> want) == 0); }
    if want == 0 { assert!(r.addr.to_bits() == 0); } else { assert!(r.addr.to_bits() >> (32 - want) == p.addr.to_bits() >> (32 - want)); }
}
#[kani::proof]
fn k_v6_resize() {
    let p = any_v6();
    let l: u8 = kani::any();
    let r = p.resize(l);
    let want = if l >= 128 { 128 } else { l };
    assert!(r.addr_len == want);
    if want < 128 { assert!(r.addr.to_bits() & (u128::MAX >> want) == 0); }
    if want == 0 { assert!(r.addr.to_bits() == 0); } else { assert!(r.addr.to_bits() >> (128 - want) == p.addr.to_bits() >> (128 - want)); }
}

/// bit-level spec of "a covers b" for two prefixes of the same family (RFC 6811: b's first len(a) bits equal a's)
fn covers4(a: Ipv4Prefix, b: Ipv4Prefix) -> bool {
    a.addr_len <= b.addr_len && (a.addr_len == 0 || (a.addr.to_bits() >> (32 - a.addr_len)) == (b.addr.to_bits() >> (32 - a.addr_len)))
}
fn covers6(a: Ipv6Prefix, b: Ipv6Prefix) -> bool {
    a.addr_len <= b.addr_len && (a.addr_len == 0 || (a.addr.to_bits() >> (128 - a.addr_len)) == (b.addr.to_bits() >> (128 - a.addr_len)))
}

// C17/C16: matching_or_less_specific (through the real rpki::resources::Prefix::min/max) never panics and is the bit spec
#[kani::proof]
fn k_matching_or_less_specific_v4() {
    let a = any_v4();
    let b = any_v4();
    assert!(TypedPrefix::V4(a).matching_or_less_specific(TypedPrefix::V4(b)) == covers4(a, b));
    kani::cover!(covers4(a, b) && a.addr_len > 0 && a.addr_len < b.addr_len);
}
#[kani::proof]
fn k_matching_or_less_specific_v6() {
    let a = any_v6();
    let b = any_v6();
    assert!(TypedPrefix::V6(a).matching_or_less_specific(TypedPrefix::V6(b)) == covers6(a, b));
    kani::cover!(covers6(a, b) && a.addr_len > 0 && a.addr_len < b.addr_len);
}
#[kani::proof]
fn k_matching_or_less_specific_mixed() {
    let a = any_v4();
    let b = any_v6();
    assert!(!TypedPrefix::V4(a).matching_or_less_specific(TypedPrefix::V6(b)));
    assert!(!TypedPrefix::V6(b).matching_or_less_specific(TypedPrefix::V4(a)));
}

// C16/C17: includes / overlaps never panic; includes is asn equal && covers && max length >=
#[kani::proof]
fn k_includes_overlaps_v4() {
    let a = RoaPayload { asn: AsNumber(kani::any()), prefix: TypedPrefix::V4(any_v4()), max_length: if kani::any() { Some(kani::any()) } else { None } };
    let b = RoaPayload { asn: AsNumber(kani::any()), prefix: TypedPrefix::V4(any_v4()), max_length: if kani::any() { Some(kani::any()) } else { None } };
    let (pa, pb) = match (a.prefix, b.prefix) { (TypedPrefix::V4(x), TypedPrefix::V4(y)) => (x, y), _ => unreachable!() };
    assert!(a.includes(b) == (a.asn == b.asn && covers4(pa, pb) && a.effective_max_length() >= b.effective_max_length()));
    assert!(a.overlaps(b) == (covers4(pa, pb) || covers4(pb, pa)));
}
