// Engine K bounded harnesses for src/server/bgp/analyser.rs (BOUNDED stand-ins: 2 ROAs x 1 route origin over a 4-prefix IPv4 universe).
use super::*;
use crate::api::roa::vx_kani_k_api_roa::any_v4;
use crate::api::roa::{RoaConfiguration, RoaPayload};
use crate::server::bgp::riswhois::vx_kani_k_bgp_prefix::mk_origin_set;

fn any_asn() -> AsNumber { let a: u8 = kani::any(); kani::assume(a < 3); AsNumber::from_u32(a as u32) }
fn any_cfg(p: Ipv4Prefix) -> ConfiguredRoa {
    let ml: Option<u8> = if kani::any() { let m: u8 = kani::any(); kani::assume(m >= p.addr_len() && m <= 32); Some(m) } else { None };
    ConfiguredRoa {
        roa_configuration: RoaConfiguration { payload: RoaPayload { asn: any_asn(), prefix: TypedPrefix::V4(p), max_length: ml }, comment: None },
        roa_objects: Vec::new(),
    }
}
fn eml(c: &ConfiguredRoa, p: Ipv4Prefix) -> u8 { c.roa_configuration.payload.max_length.unwrap_or(p.addr_len()) }
/// RFC 6811 match
fn matches(c: &ConfiguredRoa, p: Ipv4Prefix, o: RouteOrigin<Ipv4Prefix>) -> bool {
    c.roa_configuration.payload.asn == o.origin && p.covers(o.prefix) && eml(c, p) >= o.prefix.addr_len()
}
fn expected(cs: [(&ConfiguredRoa, Ipv4Prefix); 2], o: RouteOrigin<Ipv4Prefix>) -> u8 {
    // 0 valid, 1 invalid length, 2 invalid asn, 3 disallowed, 4 not found
    let cov0 = cs[0].1.covers(o.prefix); let cov1 = cs[1].1.covers(o.prefix);
    if !cov0 && !cov1 { return 4 }
    if (cov0 && matches(cs[0].0, cs[0].1, o)) || (cov1 && matches(cs[1].0, cs[1].1, o)) { return 0 }
    let same = (cov0 && cs[0].0.roa_configuration.payload.asn == o.origin) || (cov1 && cs[1].0.roa_configuration.payload.asn == o.origin);
    if same { return 1 }
    let non0 = (cov0 && cs[0].0.roa_configuration.payload.asn != AsNumber::AS0) || (cov1 && cs[1].0.roa_configuration.payload.asn != AsNumber::AS0);
    if non0 { 2 } else { 3 }
}
fn code(v: RouteOriginValidity) -> u8 {
    match v { RouteOriginValidity::Valid(_) => 0, RouteOriginValidity::InvalidLength => 1, RouteOriginValidity::InvalidAsn => 2,
              RouteOriginValidity::Disallowed => 3, RouteOriginValidity::NotFound => 4 }
}

// ---- slim variants: prefixes drawn from a 4-element universe (10/8, 10.0/16, 10.1/16, 10.0.0/24), 2 ROAs x 1 origin ----
fn small_v4() -> Ipv4Prefix {
    let k: u8 = kani::any();
    kani::assume(k < 4);
    let (bits, len): (u32, u8) = match k { 0 => (0x0a00_0000, 8), 1 => (0x0a00_0000, 16), 2 => (0x0a01_0000, 16), _ => (0x0a00_0000, 24) };
    crate::api::roa::vx_kani_k_api_roa::mk_v4(bits, len)
}
fn small_cfg(p: Ipv4Prefix) -> ConfiguredRoa {
    let k: u8 = kani::any();
    kani::assume(k < 3);
    let ml = match k { 0 => None, 1 => Some(24u8), _ => Some(p.addr_len()) };
    ConfiguredRoa {
        roa_configuration: RoaConfiguration { payload: RoaPayload { asn: any_asn(), prefix: TypedPrefix::V4(p), max_length: ml }, comment: None },
        roa_objects: Vec::new(),
    }
}
fn expected1(cs: [(&ConfiguredRoa, Ipv4Prefix); 2], o: RouteOrigin<Ipv4Prefix>) -> u8 { expected(cs, o) }

#[kani::proof]
#[kani::unwind(6)]
fn k_validate_set_small() {
    let (p0, p1) = (small_v4(), small_v4());
    let (c0, c1) = (small_cfg(p0), small_cfg(p1));
    let roas = [Roa::new(p0, &c0), Roa::new(p1, &c1)];
    let origins = [RouteOrigin { prefix: small_v4(), origin: any_asn() }];
    let mut target = Vec::new();
    ValidatedRouteOrigin::validate_set(mk_origin_set(&origins), &roas, &mut target);
    assert!(target.len() == 1);
    assert!(target[0].route_origin == origins[0]);
    assert!(code(target[0].validity) == expected1([(&c0, p0), (&c1, p1)], origins[0]));
    kani::cover!(code(target[0].validity) == 0 && p0 == p1 && c0.roa_configuration.payload.asn == c1.roa_configuration.payload.asn);
    kani::cover!(code(target[0].validity) == 1);
    kani::cover!(code(target[0].validity) == 4);
}

