// Engine K bounded harnesses for src/server/bgp/analyser.rs (BOUNDED stand-ins: 2 ROAs x 2 route origins, IPv4).
use super::*;
use crate::api::roa::vx_kani_k_api_roa::any_v4;
use crate::api::roa::{RoaConfiguration, RoaPayload};
use crate::server::bgp::riswhois::vx_kani_k_bgp_prefix::mk_origin_set;

fn any_asn() -> AsNumber { let a: u8 = kani::any(); kani::assume(a < 3); AsNumber::from_u32(a as u32) }
fn any_cfg(p: Ipv4Prefix) -> ConfiguredRoa {
    let ml: Option<u8> = if kani::any() { let m: u8 = kani::any(); kani::assume(m >= p.addr_len() && m <= 32); Some(m) } else { None };
    ConfiguredRoa {
        roa_configuration: RoaConfiguration { payload: RoaPayload { asn: any_asn(), prefix: TypedPrefix::V4(p), max_length: ml }, comment: None },
        roa_objects: Vec::new(),
    }
}
fn eml(c: &ConfiguredRoa, p: Ipv4Prefix) -> u8 { c.roa_configuration.payload.max_length.unwrap_or(p.addr_len()) }
/// RFC 6811 match
fn matches(c: &ConfiguredRoa, p: Ipv4Prefix, o: RouteOrigin<Ipv4Prefix>) -> bool {
    c.roa_configuration.payload.asn == o.origin && p.covers(o.prefix) && eml(c, p) >= o.prefix.addr_len()
}
fn expected(cs: [(&ConfiguredRoa, Ipv4Prefix); 2], o: RouteOrigin<Ipv4Prefix>) -> u8 {
    // 0 valid, 1 invalid length, 2 invalid asn, 3 disallowed, 4 not found
    let cov0 = cs[0].1.covers(o.prefix); let cov1 = cs[1].1.covers(o.prefix);
    if !cov0 && !cov1 { return 4 }
    if (cov0 && matches(cs[0].0, cs[0].1, o)) || (cov1 && matches(cs[1].0, cs[1].1, o)) { return 0 }
    let same = (cov0 && cs[0].0.roa_configuration.payload.asn == o.origin) || (cov1 && cs[1].0.roa_configuration.payload.asn == o.origin);
    if same { return 1 }
    let non0 = (cov0 && cs[0].0.roa_configuration.payload.asn != AsNumber::AS0) || (cov1 && cs[1].0.roa_configuration.payload.asn != AsNumber::AS0);
    if non0 { 2 } else { 3 }
}
fn code(v: RouteOriginValidity) -> u8 {
    match v { RouteOriginValidity::Valid(_) => 0, RouteOriginValidity::InvalidLength => 1, RouteOriginValidity::InvalidAsn => 2,
              RouteOriginValidity::Disallowed => 3, RouteOriginValidity::NotFound => 4 }
}

// validate_set: every origin of the set gets exactly the RFC 6811 verdict w.r.t. ALL given ROAs (nothing dropped, nothing merged)
#[kani::proof]
#[kani::unwind(4)]
fn k_validate_set_2x2() {
    let (p0, p1) = (any_v4(), any_v4());
    let (c0, c1) = (any_cfg(p0), any_cfg(p1));
    let roas = [Roa::new(p0, &c0), Roa::new(p1, &c1)];
    let q = any_v4();
    let origins = [RouteOrigin { prefix: q, origin: any_asn() }, RouteOrigin { prefix: q, origin: any_asn() }];
    let mut target = Vec::new();
    ValidatedRouteOrigin::validate_set(mk_origin_set(&origins), &roas, &mut target);
    assert!(target.len() == 2);
    assert!(target[0].route_origin == origins[0] && target[1].route_origin == origins[1]);
    assert!(code(target[0].validity) == expected([(&c0, p0), (&c1, p1)], origins[0]));
    assert!(code(target[1].validity) == expected([(&c0, p0), (&c1, p1)], origins[1]));
    kani::cover!(code(target[0].validity) == 0 && p0 == p1 && c0.roa_configuration.payload.asn == c1.roa_configuration.payload.asn);
    kani::cover!(code(target[0].validity) == 1);
    kani::cover!(code(target[0].validity) == 4);
}

// categorise_roa: the reported authorizes set is exactly the origins this ROA matches; a ROA is only called redundant
// if another ROA really includes its definition (same AS, covering prefix, max length at least as large)
#[kani::proof]
#[kani::unwind(4)]
fn k_categorise_roa_2x2() {
    let (p0, p1) = (any_v4(), any_v4());
    let (c0, c1) = (any_cfg(p0), any_cfg(p1));
    let roas = [Roa::new(p0, &c0), Roa::new(p1, &c1)];
    let q = any_v4();
    let origins = [RouteOrigin { prefix: q, origin: any_asn() }, RouteOrigin { prefix: q, origin: any_asn() }];
    kani::assume(origins[0].origin != origins[1].origin);
    let mut validated = Vec::new();
    ValidatedRouteOrigin::validate_set(mk_origin_set(&origins), &roas, &mut validated);
    let entry = BgpAnalyser::categorise_roa(roas[0], &validated, &roas);
    let m0 = matches(&c0, p0, origins[0]);
    let m1 = matches(&c0, p0, origins[1]);
    let carries = matches!(entry.state, BgpAnalysisState::RoaSeen | BgpAnalysisState::RoaRedundant | BgpAnalysisState::RoaTooPermissive);
    if carries {
        assert!(entry.authorizes.len() == (m0 as usize) + (m1 as usize));
        assert!(entry.authorizes.contains(&Announcement::from(origins[0])) == m0);
        assert!(entry.authorizes.contains(&Announcement::from(origins[1])) == m1);
    }
    if c0.roa_configuration.payload.asn != AsNumber::AS0 && !m0 && !m1 {
        assert!(!matches!(entry.state, BgpAnalysisState::RoaSeen | BgpAnalysisState::RoaTooPermissive));
    }
    if entry.state == BgpAnalysisState::RoaRedundant {
        // the other ROA includes this definition
        assert!(c1.roa_configuration.payload != c0.roa_configuration.payload);
        assert!(c1.roa_configuration.payload.asn == c0.roa_configuration.payload.asn);
        assert!(p1.covers(p0));
        assert!(eml(&c1, p1) >= eml(&c0, p0));
    }
    // never proposes as unseen/removable a ROA that validates an observed announcement
    if m0 || m1 { assert!(entry.state != BgpAnalysisState::RoaUnseen && entry.state != BgpAnalysisState::RoaDisallowing); }
    kani::cover!(entry.state == BgpAnalysisState::RoaRedundant);
    kani::cover!(entry.state == BgpAnalysisState::RoaSeen);
}
