"""Engine K harness groups.  level 'proof' = loop-free harness over the full symbolic input domain (complete);
level 'bounded' = stand-in with a stated bound, never counted as discharged."""
GROUPS = {
    'k_api_roa': {
        'property': 'C16',
        'title': 'api::roa pure helpers: no panic / overflow on any well-formed payload; prefix algebra equals bit spec',
        'inject': [('src/api/roa.rs', 'k_api_roa.rs')],
        'contracts': [
            {'file': 'src/api/roa.rs', 'impl': 'RoaPayload', 'fn': 'nr_of_specific_prefixes', 'attrs': [
                'kani::requires(self.max_length_valid())',
                'kani::ensures(|r: &u128| { let d = self.effective_max_length() - self.prefix.addr_len(); if d < 128 { *r == 1u128 << d } else { *r == u128::MAX } })',
            ]},
        ],
        'functions': ['RoaPayload::nr_of_specific_prefixes', 'RoaPayload::max_length_valid', 'RoaPayload::into_explicit_max_length',
                      'RoaPayload::set_explicit_max_length', 'RoaPayload::effective_max_length', 'RoaPayload::includes', 'RoaPayload::overlaps',
                      'TypedPrefix::matching_or_less_specific', 'TypedPrefix::addr_len', 'TypedPrefix::prefix', 'Ipv4Prefix::resize', 'Ipv6Prefix::resize',
                      'rpki::resources::Prefix::{new,min,max} (dependency, real MIR)'],
        'assumptions': ['harness inputs satisfy the type invariant of Ipv4Prefix/Ipv6Prefix (addr_len <= 32/128, host bits zero) as established by FromStr and From<Prefix>',
                        'overflow checks judged as in a debug build (release builds wrap instead of panicking)'],
        'harnesses': [
            {'name': 'k_max_length_valid_iff', 'what': 'max_length_valid() == (None or len <= ml <= family max), all payloads'},
            {'name': 'k_nr_of_specific_prefixes_contract', 'what': 'contract: requires max_length_valid(); no shift overflow; result 2^(ml-len), saturating at u128::MAX'},
            {'name': 'k_explicit_max_length', 'what': 'into_explicit_max_length/set_explicit_max_length: Some(effective), idempotent, validity preserved'},
            {'name': 'k_v4_resize', 'what': 'Ipv4Prefix::resize: capped length, zero host bits, network bits kept, no shift overflow'},
            {'name': 'k_v6_resize', 'what': 'Ipv6Prefix::resize: same for 128 bits'},
            {'name': 'k_matching_or_less_specific_v4', 'what': 'TypedPrefix::matching_or_less_specific == bit-level covers (v4), through real rpki Prefix::min/max'},
            {'name': 'k_matching_or_less_specific_v6', 'what': 'same (v6)'},
            {'name': 'k_matching_or_less_specific_mixed', 'what': 'different families never match'},
            {'name': 'k_includes_overlaps_v4', 'what': 'includes == asn equal && covers && eff max >=; overlaps == covers either way; no panic'},
        ],
    },
}
