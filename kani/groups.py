"""Engine K harness groups.  level 'proof' = loop-free harness over the full symbolic input domain (complete);
level 'bounded' = stand-in with a stated bound, never counted as discharged."""
GROUPS = {
    'k_api_roa': {
        'property': 'C16',
        'title': 'api::roa pure helpers: no panic / overflow on any well-formed payload; prefix algebra equals bit spec',
        'inject': [('src/api/roa.rs', 'k_api_roa.rs')],
        'contracts': [
            {'file': 'src/api/roa.rs', 'impl': 'RoaPayload', 'fn': 'nr_of_specific_prefixes', 'attrs': [
                'kani::requires(self.max_length_valid())',
                'kani::ensures(|r: &u128| { let d = self.effective_max_length() - self.prefix.addr_len(); if d < 128 { *r == 1u128 << d } else { *r == u128::MAX } })',
            ]},
        ],
        'functions': ['RoaPayload::nr_of_specific_prefixes', 'RoaPayload::max_length_valid', 'RoaPayload::into_explicit_max_length',
                      'RoaPayload::set_explicit_max_length', 'RoaPayload::effective_max_length', 'RoaPayload::includes', 'RoaPayload::overlaps',
                      'TypedPrefix::matching_or_less_specific', 'TypedPrefix::addr_len', 'TypedPrefix::prefix', 'Ipv4Prefix::resize', 'Ipv6Prefix::resize',
                      'rpki::resources::Prefix::{new,min,max} (dependency, real MIR)'],
        'assumptions': ['harness inputs satisfy the type invariant of Ipv4Prefix/Ipv6Prefix (addr_len <= 32/128, host bits zero) as established by FromStr and From<Prefix>',
                        'overflow checks judged as in a debug build (release builds wrap instead of panicking)'],
        'harnesses': [
            {'name': 'k_max_length_valid_iff', 'what': 'max_length_valid() == (None or len <= ml <= family max), all payloads'},
            {'name': 'k_nr_of_specific_prefixes_contract', 'what': 'contract: requires max_length_valid(); no shift overflow; result 2^(ml-len), saturating at u128::MAX'},
            {'name': 'k_explicit_max_length', 'what': 'into_explicit_max_length/set_explicit_max_length: Some(effective), idempotent, validity preserved'},
            {'name': 'k_v4_resize', 'what': 'Ipv4Prefix::resize: capped length, zero host bits, network bits kept, no shift overflow'},
            {'name': 'k_v6_resize', 'what': 'Ipv6Prefix::resize: same for 128 bits'},
            {'name': 'k_matching_or_less_specific_v4', 'what': 'TypedPrefix::matching_or_less_specific == bit-level covers (v4), through real rpki Prefix::min/max'},
            {'name': 'k_matching_or_less_specific_v6', 'what': 'same (v6)'},
            {'name': 'k_matching_or_less_specific_mixed', 'what': 'different families never match'},
            {'name': 'k_includes_overlaps_v4', 'what': 'includes == asn equal && covers && eff max >=; overlaps == covers either way; no panic'},
        ],
    },
    'k_bgp_prefix': {
        'property': 'C17',
        'title': 'RoutePrefix implementations (covers / closest_ancestor / bit) equal their bit-level meaning, v4 and v6, full domain',
        'deps': ['k_api_roa'],
        'inject': [('src/server/bgp/riswhois.rs', 'k_bgp_prefix.rs')],
        'functions': ['<Ipv4Prefix as RoutePrefix>::{covers, closest_ancestor, bit, addr_len}', '<Ipv6Prefix as RoutePrefix>::{covers, closest_ancestor, bit, addr_len}',
                      'DataIndex::{data, no_data, into_data, usize_to_u31}', 'TreeIndex::{try_from, into_usize, none}'],
        'assumptions': ['harness inputs satisfy the Ipv4Prefix/Ipv6Prefix type invariant (length <= 32/128, host bits zero)'],
        'harnesses': [
            {'name': 'k_covers_v4', 'what': 'Ipv4Prefix::covers == bit-level covers == TypedPrefix::matching_or_less_specific'},
            {'name': 'k_covers_v6', 'what': 'Ipv6Prefix::covers == bit-level covers'},
            {'name': 'k_covers_v6_agrees_with_typed', 'what': 'Ipv6Prefix::covers == TypedPrefix::matching_or_less_specific (rpki Prefix::min/max)'},
            {'name': 'k_closest_ancestor_v4', 'what': 'closest_ancestor covers both, invariant kept, maximal'},
            {'name': 'k_closest_ancestor_v6', 'what': 'same for v6'},
            {'name': 'k_bit', 'what': 'bit(i) is the i-th bit from the left, false out of range, no shift overflow'},
            {'name': 'k_indexes', 'what': 'DataIndex/TreeIndex conversions: no panic, round trip, 31-bit / sentinel limits'},
        ],
    },
    'k_bgp_analyser': {
        'property': 'C17',
        'title': 'BOUNDED: validate_set and categorise_roa against RFC 6811, 2 ROAs x 2 route origins, IPv4, AS numbers in {0,1,2}',
        'deps': ['k_api_roa', 'k_bgp_prefix'],
        'inject': [('src/server/bgp/analyser.rs', 'k_bgp_analyser.rs')],
        'functions': ['ValidatedRouteOrigin::validate_set', 'BgpAnalyser::categorise_roa', 'BgpAnalysisEntry::roa_* constructors'],
        'assumptions': ['bounded: 2 ROAs, 2 route origins of one prefix, IPv4 only, AS numbers 0..2'],
        'harnesses': [
            {'name': 'k_validate_set_2x2', 'level': 'bounded', 'tier': 'thorough', 'bound': '2 ROAs x 2 origins, v4, asn<3, unwind 4', 'timeout': 900,
             'what': 'validate_set gives every origin its RFC 6811 verdict against all given ROAs'},
            {'name': 'k_categorise_roa_2x2', 'level': 'bounded', 'tier': 'thorough', 'bound': '2 ROAs x 2 origins, v4, asn<3, unwind 4', 'timeout': 900,
             'what': 'authorizes == origins matched by the ROA; RoaRedundant only if another ROA includes the definition; validating ROA never unseen'},
        ],
    },
}
