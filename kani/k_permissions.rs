// Engine K harnesses for src/daemon/http/auth/permission.rs: PermissionSet is a faithful set of permissions ("every role built
// from any subset of permissions"), and the built-in sets contain what their names promise.  Loop-free, full domain
// (any 32-bit set, any two of the 22 permissions): complete proofs.
use super::*;

fn any_perm() -> Permission {
    let i: usize = kani::any();
    kani::assume(i < ALL_PERMISSIONS.len());
    ALL_PERMISSIONS[i]
}

#[kani::proof]
fn k_permission_set_algebra() {
    let s = PermissionSet(kani::any());
    let t = PermissionSet(kani::any());
    let p = any_perm();
    let q = any_perm();
    let same = (p as u32) == (q as u32);
    // masks are distinct single bits (no shift overflow: 22 permissions in a u32)
    assert!(PermissionSet::mask(p).count_ones() == 1);
    assert!((PermissionSet::mask(p) == PermissionSet::mask(q)) == same);
    // add / remove / union behave like set operations, element-wise
    assert!(s.add(p).has(q) == (s.has(q) || same));
    assert!(s.remove(p).has(q) == (s.has(q) && !same));
    assert!(s.add_set(t).has(q) == (s.has(q) || t.has(q)));
    assert!(!PermissionSet::NONE.has(q));
    assert!(PermissionSet::ANY.has(q));
    assert!(PermissionSet::default().0 == 0);
}

// the configuration shortcuts add exactly their sets
#[kani::proof]
fn k_conf_permission_add() {
    let s = PermissionSet(kani::any());
    let p = any_perm();
    let q = any_perm();
    assert!(ConfPermission::Single(p).add(s).has(q) == (s.has(q) || (p as u32) == (q as u32)));
    assert!(ConfPermission::Any.add(s).has(q));
    assert!(ConfPermission::Read.add(s).has(q) == (s.has(q) || PermissionSet::CONF_READ.has(q)));
    assert!(ConfPermission::Update.add(s).has(q) == (s.has(q) || PermissionSet::CONF_UPDATE.has(q)));
}

// built-in sets: read-only roles carry no permission that changes state; read-write carries no administrative one;
// the testbed role cannot log in; every built-in role that can use the API at all can log in
#[kani::proof]
fn k_builtin_sets() {
    use Permission::*;
    let q = any_perm();
    let changes_state = matches!(q, PubAdmin | PubCreate | PubDelete | CaCreate | CaUpdate | CaAdmin | CaDelete | RoutesUpdate | AspasUpdate | BgpsecUpdate | RtaUpdate);
    if PermissionSet::READONLY.has(q) { assert!(!changes_state); }
    if PermissionSet::CONF_READ.has(q) { assert!(!changes_state); }
    assert!(PermissionSet::READONLY.has(Login) && PermissionSet::READWRITE.has(Login));
    assert!(!PermissionSet::READWRITE.has(CaAdmin) && !PermissionSet::READWRITE.has(CaDelete) && !PermissionSet::READWRITE.has(PubAdmin));
    assert!(!PermissionSet::TESTBED.has(Login));
    // C20: the configuration shortcuts "read" / "update" never grant the login permission; a role must name it
    assert!(!PermissionSet::CONF_READ.has(Login) && !PermissionSet::CONF_UPDATE.has(Login));
    // read-write contains read-only
    if PermissionSet::READONLY.has(q) { assert!(PermissionSet::READWRITE.has(q)); }
    // the update shortcut is exactly the three *-update permissions the code lists
    assert!(PermissionSet::CONF_UPDATE.has(q) == matches!(q, RoutesUpdate | BgpsecUpdate | RtaUpdate));
}
