// Engine K harnesses for src/api/aspa.rs: the three helpers of AspaDefinition whose contracts the V unit c05_aspa ASSUMES
// (contains_duplicate_providers, customer_used_as_provider) checked against exactly those contracts (apply_update: retain + sort
// gave no verdict in 10 min even for 2 providers, see design-probes/k_aspa_apply_update_NO_VERDICT.rs).
// BOUNDED: provider lists of exactly 3 (duplicates / customer) or 2 (apply_update) entries, one added and one removed provider,
// AS numbers below 4 (list lengths are concrete: slice::sort with a symbolic length gave no verdict in 15 min).
use super::*;

fn any_asn() -> Asn {
    let x: u32 = kani::any();
    kani::assume(x < 4);
    Asn::from_u32(x)
}

fn list3() -> Vec<Asn> { vec![any_asn(), any_asn(), any_asn()] }

fn has(v: &[Asn], a: Asn) -> bool {
    let mut r = false;
    let mut i = 0;
    while i < v.len() { if v[i] == a { r = true; } i += 1; }
    r
}

#[kani::proof]
#[kani::unwind(6)]
fn k_aspa_duplicates_and_customer() {
    let def = AspaDefinition { customer: any_asn(), providers: list3() };
    let p = &def.providers;
    let mut dup = false;
    let mut i = 0;
    while i < p.len() {
        let mut j = i + 1;
        while j < p.len() { if p[i] == p[j] { dup = true; } j += 1; }
        i += 1;
    }
    // the contracts unit c05_aspa assumes
    assert!(def.contains_duplicate_providers() == dup);
    assert!(def.customer_used_as_provider() == has(p, def.customer));
}
