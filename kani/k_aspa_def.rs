// Engine K harnesses for src/api/aspa.rs: the three helpers of AspaDefinition whose contracts the V unit c05_aspa ASSUMES
// (contains_duplicate_providers, customer_used_as_provider, apply_update) checked against exactly those contracts.
// BOUNDED: provider lists of at most 3 entries, update lists of at most 2 entries, AS numbers below 4.
use super::*;

fn any_asn() -> Asn {
    let x: u32 = kani::any();
    kani::assume(x < 4);
    Asn::from_u32(x)
}

fn any_list(max: usize) -> Vec<Asn> {
    let n: usize = kani::any();
    kani::assume(n <= max);
    let mut v = Vec::new();
    if n > 0 { v.push(any_asn()); }
    if n > 1 { v.push(any_asn()); }
    if n > 2 { v.push(any_asn()); }
    v
}

fn has(v: &[Asn], a: Asn) -> bool {
    let mut r = false;
    let mut i = 0;
    while i < v.len() { if v[i] == a { r = true; } i += 1; }
    r
}

#[kani::proof]
#[kani::unwind(6)]
fn k_aspa_duplicates_and_customer() {
    let def = AspaDefinition { customer: any_asn(), providers: any_list(3) };
    let p = &def.providers;
    let mut dup = false;
    let mut i = 0;
    while i < p.len() {
        let mut j = i + 1;
        while j < p.len() { if p[i] == p[j] { dup = true; } j += 1; }
        i += 1;
    }
    // the contracts unit c05_aspa assumes
    assert!(def.contains_duplicate_providers() == dup);
    assert!(def.customer_used_as_provider() == has(p, def.customer));
}

#[kani::proof]
#[kani::unwind(6)]
fn k_aspa_apply_update_is_set_update() {
    let mut def = AspaDefinition { customer: any_asn(), providers: any_list(3) };
    let before = def.providers.clone();
    let customer = def.customer;
    let update = AspaProvidersUpdate { added: any_list(2), removed: any_list(2) };
    def.apply_update(&update);
    assert!(def.customer == customer);
    // provider SET afterwards == (before \ removed) + added, for every AS number
    let q = any_asn();
    let expected = has(&update.added, q) || (has(&before, q) && !has(&update.removed, q));
    assert!(has(&def.providers, q) == expected);
}
