#!/bin/bash
# regenerate every evidence file on the unchanged tree (quick tier); V-only properties first
cd /verif
for p in $(python3 -c "
import sys; sys.path.insert(0,'/verif')
from units import REGISTRY
print(' '.join(sorted(REGISTRY)))"); do ./vx check $p --tier quick | tail -1; done
