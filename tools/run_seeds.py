#!/usr/bin/env python3
"""Run every seeded change in /verif/seeded against the check(s) of its property (on a scratch copy of /repo/src with the
patch applied; /repo itself is never touched) and record detected / missed / inconclusive in /verif/seeded/RESULTS.json."""
import json, os, subprocess, sys, shutil, re
ROOT = os.path.dirname(os.path.dirname(os.path.abspath(__file__)))
tier = os.environ.get('TIER', 'quick')
only = sys.argv[1:]
res_path = os.path.join(ROOT, 'seeded', 'RESULTS.json')
try:
    results = json.load(open(res_path))
except Exception:
    results = {}
EXTRA = {'C20-seed11': ['C13'], 'C03-seed2': ['C01'], 'C14-seed1': ['C04'], 'C16-seed4': ['C10']}
for sid in sorted(os.listdir(os.path.join(ROOT, 'seeded'))):
    sd = os.path.join(ROOT, 'seeded', sid)
    if not os.path.isdir(sd) or (only and sid not in only):
        continue
    meta = json.load(open(os.path.join(sd, 'meta.json')))
    prop = meta['property']
    d = f'/var/tmp/kv/seedrun-{os.getpid()}'
    shutil.rmtree(d, ignore_errors=True)
    os.makedirs(d)
    subprocess.run(['rsync', '-a', '/repo/src', d + '/'], check=True)
    p = subprocess.run(['patch', '-s', '-p1', '-i', os.path.join(sd, 'patch.diff')], cwd=d, capture_output=True, text=True)
    if p.returncode != 0:
        results[sid] = {'property': prop, 'verdict': 'patch-does-not-apply', 'detail': (p.stdout + p.stderr)[-300:]}
        continue
    env = dict(os.environ, VX_REPO=d)
    verdict, detail = 'missed', []
    for pr in [prop] + EXTRA.get(sid, []):
        q = subprocess.run([os.path.join(ROOT, 'vx'), 'check', pr, '--tier', tier], capture_output=True, text=True, env=env)
        fails = re.findall(r'FAILED (\S+)', q.stdout)
        if q.returncode == 1:
            verdict = 'detected'
            detail += [f'{pr}: {f}' for f in fails]
        elif q.returncode == 2 and verdict != 'detected':
            verdict = 'inconclusive'
            detail += [l.strip()[:200] for l in q.stdout.splitlines() if 'note:' in l and ('tool' in l or 'lost' in l or 'limit' in l)][:3]
    results[sid] = {'property': prop, 'verdict': verdict, 'tier': tier, 'failed_obligations': detail[:6], 'summary': str(meta.get('summary', ''))[:300]}
    print(sid, verdict, detail[:2])
    shutil.rmtree(d, ignore_errors=True)
    json.dump(results, open(res_path, 'w'), indent=1, sort_keys=True)
shutil.rmtree('/var/tmp/krill-verif/mut-replay', ignore_errors=True)
shutil.rmtree('/var/tmp/krill-verif/mut-evidence', ignore_errors=True)
