#!/usr/bin/env python3
"""Run every behaviour-preserving refactoring in /verif/benign/<area>/refactorN.diff against ALL property checks (on a scratch
copy of /repo/src; /repo is never touched).  A check must answer 0 (holds) or 2 (cannot decide) -- never 1.
Results: /verif/benign/RESULTS.json."""
import json, os, subprocess, sys, shutil, re, glob
ROOT = os.path.dirname(os.path.dirname(os.path.abspath(__file__)))
sys.path.insert(0, ROOT)
from units import REGISTRY
only = sys.argv[1:]
res_path = os.path.join(ROOT, 'benign', 'RESULTS.json')
try:
    results = json.load(open(res_path))
except Exception:
    results = {}
K_FILES = ('src/api/roa.rs', 'src/server/bgp/')
for diff in sorted(glob.glob(os.path.join(ROOT, 'benign', '*', 'refactor*.diff'))):
    bid = os.path.basename(os.path.dirname(diff)) + '-' + os.path.basename(diff)[len('refactor'):-len('.diff')]
    if only and bid not in only:
        continue
    txt = open(diff).read()
    files = re.findall(r'^\+\+\+ b/(\S+)', txt, re.M)
    d = f'/var/tmp/kv/benign-{os.getpid()}'
    shutil.rmtree(d, ignore_errors=True)
    os.makedirs(d)
    subprocess.run(['rsync', '-a', '/repo/src', d + '/'], check=True)
    p = subprocess.run(['patch', '-s', '-p1', '-i', diff], cwd=d, capture_output=True, text=True)
    if p.returncode != 0:
        results[bid] = {'files': files, 'verdict': 'patch-does-not-apply', 'detail': (p.stdout + p.stderr)[-300:]}
        continue
    env = dict(os.environ, VX_REPO=d)
    per = {}
    alarms = []
    notes = []
    for prop in sorted(REGISTRY):
        uses_k = bool(REGISTRY[prop].get('k'))
        if uses_k and not any(f.startswith(K_FILES) for f in files):
            # engine K compiles the whole crate (minutes); it is only re-run when the change is in code its harnesses reach.
            # The V units of the property are still run.
            env2 = dict(env, VX_SKIP_K='1')
        else:
            env2 = env
        q = subprocess.run([os.path.join(ROOT, 'vx'), 'check', prop, '--tier', 'quick'], capture_output=True, text=True, env=env2)
        per[prop] = q.returncode
        if q.returncode == 1:
            alarms += [prop + ': ' + f for f in re.findall(r'FAILED (\S+)', q.stdout)]
        elif q.returncode == 2:
            notes += [prop + ': ' + l.strip()[:160] for l in q.stdout.splitlines() if 'note:' in l and ('tool' in l or 'lost' in l or 'limit' in l or 'baseline' in l)][:2]
    results[bid] = {'files': files, 'exit_codes': per, 'false_alarms': alarms, 'inconclusive_notes': notes,
                    'verdict': 'FALSE-ALARM' if alarms else ('inconclusive' if any(v == 2 for v in per.values()) else 'ok')}
    print(bid, results[bid]['verdict'], alarms[:2], notes[:1])
    shutil.rmtree(d, ignore_errors=True)
    json.dump(results, open(res_path, 'w'), indent=1, sort_keys=True)
shutil.rmtree('/var/tmp/krill-verif/mut-replay', ignore_errors=True)
shutil.rmtree('/var/tmp/krill-verif/mut-evidence', ignore_errors=True)
