#!/usr/bin/env python3
"""file a confirmed seeded change under /verif/seeded/<id>/ (patch.diff, demo.diff, meta.json)"""
import sys, json, os, shutil, re
pend, confirm_txt, sid = sys.argv[1:4]
dst = f'/verif/seeded/{sid}'
os.makedirs(dst, exist_ok=True)
for f in ('patch.diff', 'demo.diff'):
    shutil.copy(os.path.join(pend, f), dst)
m = json.load(open(os.path.join(pend, 'meta.json')))
t = open(confirm_txt).read()
lines = [l for l in t.splitlines() if re.match(r'^-- |^test .*(ok|FAILED)$|^test result', l)]
m['confirmed_by_main_session'] = {
    'how': 'tools/confirm_seed.sh in a scratch worktree of the pinned commit: demo.diff applied -> demo passes; patch.diff applied -> demo fails; cargo test --offline --lib with the patch: only the demo and the baseline always_fail test analyse_nlnet_labs_snapshot fail',
    'log': lines,
}
m['detected_by'] = m.get('detected_by', 'pending')
json.dump(m, open(os.path.join(dst, 'meta.json'), 'w'), indent=1)
print('filed', dst)
