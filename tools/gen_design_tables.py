#!/usr/bin/env python3
"""Regenerates the two mechanical tables of DESIGN.md (section 10) from what the machinery itself wrote:
   <!-- GEN:STATUS --> per property: units, functions under contract, obligations, assumptions (from evidence/*.json, units/__init__.py)
   <!-- GEN:SEEDS -->  seeded change x check matrix (from seeded/*/meta.json and seeded/RESULTS.json)
Nothing else in DESIGN.md is touched."""
import json, os, re, sys, glob
ROOT = os.path.dirname(os.path.dirname(os.path.abspath(__file__)))
sys.path.insert(0, ROOT)
from units import REGISTRY, NOT_APPLICABLE


def status_table():
    out = ['| id | units (engine) | fns under contract | obligations discharged | bounded stand-ins | assumed / trusted items | quick wall s |',
           '|---|---|---|---|---|---|---|']
    for pid in sorted(REGISTRY):
        p = os.path.join(ROOT, 'evidence', pid + '.json')
        if not os.path.exists(p):
            continue
        e = json.load(open(p))
        c = e['coverage']
        units = ', '.join(f"{u['unit']} ({u['engine']})" for u in c.get('units', []))
        nb = len(c.get('bounded_standins', []))
        out.append(f"| {pid} | {units} | {len(c.get('functions_under_contract', []))} | {c['discharged']} / {c['obligations']} | {nb} | {len(e.get('assumptions', []))} | {e.get('wall_s', '')} |")
    return '\n'.join(out)


def seeds_table():
    res = {}
    try:
        res = json.load(open(os.path.join(ROOT, 'seeded', 'RESULTS.json')))
    except Exception:
        pass
    out = ['| seeded change | property | where | verdict of the check | failing obligation(s) / reason |', '|---|---|---|---|---|']
    for sd in sorted(glob.glob(os.path.join(ROOT, 'seeded', '*', 'meta.json'))):
        sid = os.path.basename(os.path.dirname(sd))
        m = json.load(open(sd))
        r = res.get(sid, {})
        where = m.get('where') or ''
        summ = m.get('summary', '')
        if not isinstance(summ, str):
            summ = json.dumps(summ)
        if not where:
            mm = re.search(r'([A-Za-z0-9_/\.]+\.rs)[,:]?\s*`?([A-Za-z0-9_:<>]+)?', summ)
            if mm:
                where = mm.group(1).replace('src/', '') + (' ' + mm.group(2) if mm.group(2) else '')
        verdict = r.get('verdict', 'not run')
        if r.get('tier') and r.get('tier') != 'quick':
            verdict += f" ({r['tier']})"
        det = '; '.join(x.split(': ', 1)[-1] for x in r.get('failed_obligations', [])[:2])
        out.append(f"| {sid} | {m.get('property', '')} | {where[:70]} | {verdict} | {det[:200]} |")
    n = {}
    for sid, r in res.items():
        n[r.get('verdict')] = n.get(r.get('verdict'), 0) + 1
    out.append('')
    out.append('Totals: ' + ', '.join(f'{k}: {v}' for k, v in sorted(n.items())))
    return '\n'.join(out)


def summary_table():
    out = ['| id | engines | what is decided (claim text of MANIFEST.json, shortened) | explicitly not decided |', '|---|---|---|---|']
    for pid in sorted(set(REGISTRY) | {n['property_id'] for n in NOT_APPLICABLE}):
        if pid in REGISTRY:
            r = REGISTRY[pid]
            eng = 'V' + (' + K' if r.get('k') else '') + (' (+ K bounded, thorough)' if r.get('k_thorough') else '')
            txt = r.get('level_text', '')
            txt = txt if len(txt) <= 420 else txt[:417] + '...'
            nc = '; '.join(r.get('not_covered', []))
            nc = nc if len(nc) <= 300 else nc[:297] + '...'
            out.append(f"| {pid} | {eng} | {txt} | {nc} |")
        else:
            reason = [n['reason'] for n in NOT_APPLICABLE if n['property_id'] == pid][0]
            out.append(f"| {pid} | - | **not applicable** | {reason} |")
    return '\n'.join(out)


def benign_table():
    try:
        res = json.load(open(os.path.join(ROOT, 'benign', 'RESULTS.json')))
    except Exception:
        return '(not run yet)'
    readme = {}
    for rd in glob.glob(os.path.join(ROOT, 'benign', '*', 'README.txt')):
        area = os.path.basename(os.path.dirname(rd))
        for line in open(rd):
            m = re.match(r'\s*(\d+)\s*[:.)]\s*(.*)', line)
            if m:
                readme[f'{area}-{m.group(1)}'] = m.group(2).strip()
    out = ['| refactoring | what | checks answering 0 / 2 / 1 | why a check could not decide |', '|---|---|---|---|']
    tot = {'ok': 0, 'inconclusive': 0, 'FALSE-ALARM': 0}
    for bid, r in sorted(res.items()):
        ec = r.get('exit_codes', {})
        n0 = sum(1 for v in ec.values() if v == 0); n2 = sum(1 for v in ec.values() if v == 2); n1 = sum(1 for v in ec.values() if v == 1)
        tot[r.get('verdict', 'ok')] = tot.get(r.get('verdict', 'ok'), 0) + 1
        why = '; '.join(x.split('note: ', 1)[-1][:110] for x in r.get('inconclusive_notes', [])[:1])
        out.append(f"| {bid} | {readme.get(bid, '')[:150]} | {n0} / {n2} / {n1} | {why} |")
    out.append('')
    out.append('Totals: ' + ', '.join(f'{k}: {v}' for k, v in tot.items()))
    return '\n'.join(out)


def main():
    p = os.path.join(ROOT, 'DESIGN.md')
    s = open(p).read()
    for tag, fn in (('SUMMARY', summary_table), ('STATUS', status_table), ('SEEDS', seeds_table), ('BENIGN', benign_table)):
        a, b = f'<!-- GEN:{tag} -->', f'<!-- /GEN:{tag} -->'
        if a in s and b in s:
            i, j = s.index(a) + len(a), s.index(b)
            s = s[:i] + '\n' + fn() + '\n' + s[j:]
    open(p, 'w').write(s)


if __name__ == '__main__':
    main()
