#!/bin/bash
# usage: confirm_seed.sh <worktree> <seeddir> <outfile>
# Confirms a seeded breaking change: demo passes without the patch, fails with it; lib test-suite with the patch.
wt=$1; sd=$2; out=$3
cd $wt || exit 2
git checkout -q -- . ; git clean -qfd src tests
filter=$(python3 -c "
import json,sys
m=json.load(open('$sd/meta.json'))
t=m.get('demo_test','')
toks=[x for x in t.replace('cargo test','').split() if not x.startswith('-')]
print(toks[-1] if toks else '')")
{
echo "== seed $sd filter=$filter"
git apply $sd/demo.diff || echo "DEMO_APPLY_FAILED"
echo "-- without patch:"
cargo test --offline --lib $filter 2>&1 | grep -E "^test |test result|error(\[|:)" | head -20
git apply $sd/patch.diff || echo "PATCH_APPLY_FAILED"
echo "-- with patch:"
cargo test --offline --lib $filter 2>&1 | grep -E "^test |test result|error(\[|:)|panicked" | head -20
echo "-- full lib suite with patch (failures only):"
cargo test --offline --lib 2>&1 | grep -E "FAILED|failed|test result" | head -20
} > $out 2>&1
git checkout -q -- . ; git clean -qfd src tests
