//! vxspan: print byte spans of the items of one Rust source file as JSON.
//! Used by /verif/vx to extract the real text of functions and types from /repo
//! (byte-exact slices) and to know where contract clauses may be spliced.
use serde_json::{json, Value};
use syn::spanned::Spanned;
use syn::visit::Visit;

fn r<T: Spanned>(t: &T) -> Value {
    let b = t.span().byte_range();
    json!([b.start, b.end])
}
fn ty_name(t: &syn::Type) -> String {
    match t {
        syn::Type::Path(p) => p.path.segments.last().map(|s| s.ident.to_string()).unwrap_or_default(),
        syn::Type::Reference(r) => ty_name(&r.elem),
        _ => String::new(),
    }
}
fn path_str(p: &syn::Path) -> String {
    p.segments.iter().map(|s| s.ident.to_string()).collect::<Vec<_>>().join("::")
}
fn attrs(a: &[syn::Attribute]) -> Value {
    Value::Array(
        a.iter()
            .map(|x| json!({"path": path_str(x.path()), "span": r(x), "doc": x.path().is_ident("doc")}))
            .collect(),
    )
}

#[derive(Default)]
struct Body {
    loops: Vec<Value>,
    macros: Vec<Value>,
    awaits: Vec<Value>,
    returns: Vec<Value>,
    letchains: Vec<Value>,
    closures: Vec<Value>,
    calls: Vec<Value>,
    tries: Vec<Value>,
    matches: Vec<Value>,
}
fn collect_pat_paths(p: &syn::Pat, out: &mut Vec<String>) {
    match p {
        syn::Pat::Path(x) => out.push(path_str(&x.path)),
        syn::Pat::Struct(x) => out.push(path_str(&x.path)),
        syn::Pat::TupleStruct(x) => out.push(path_str(&x.path)),
        syn::Pat::Or(x) => { for c in &x.cases { collect_pat_paths(c, out); } }
        syn::Pat::Reference(x) => collect_pat_paths(&x.pat, out),
        syn::Pat::Paren(x) => collect_pat_paths(&x.pat, out),
        syn::Pat::Ident(x) => { if let Some((_, sub)) = &x.subpat { collect_pat_paths(sub, out); } }
        _ => {}
    }
}
fn has_let(e: &syn::Expr) -> bool {
    match e {
        syn::Expr::Let(_) => true,
        syn::Expr::Binary(b) => has_let(&b.left) || has_let(&b.right),
        syn::Expr::Paren(p) => has_let(&p.expr),
        _ => false,
    }
}
impl<'ast> Visit<'ast> for Body {
    fn visit_expr_for_loop(&mut self, l: &'ast syn::ExprForLoop) {
        self.loops.push(json!({"kind":"for","span":r(l),"body":r(&l.body),"expr":r(&l.expr),"pat":r(&l.pat)}));
        syn::visit::visit_expr_for_loop(self, l);
    }
    fn visit_expr_while(&mut self, l: &'ast syn::ExprWhile) {
        self.loops.push(json!({"kind":"while","span":r(l),"body":r(&l.body),"cond":r(&l.cond)}));
        syn::visit::visit_expr_while(self, l);
    }
    fn visit_expr_loop(&mut self, l: &'ast syn::ExprLoop) {
        self.loops.push(json!({"kind":"loop","span":r(l),"body":r(&l.body)}));
        syn::visit::visit_expr_loop(self, l);
    }
    fn visit_stmt(&mut self, s: &'ast syn::Stmt) {
        if let syn::Stmt::Macro(m) = s {
            self.macros.push(json!({"name": path_str(&m.mac.path), "span": r(s), "stmt": true}));
            return;
        }
        syn::visit::visit_stmt(self, s);
    }
    fn visit_expr_macro(&mut self, m: &'ast syn::ExprMacro) {
        self.macros.push(json!({"name": path_str(&m.mac.path), "span": r(m), "stmt": false}));
    }
    fn visit_expr_await(&mut self, a: &'ast syn::ExprAwait) {
        let b = a.base.span().byte_range();
        let e = a.span().byte_range();
        self.awaits.push(json!([b.end, e.end]));
        syn::visit::visit_expr_await(self, a);
    }
    fn visit_expr_return(&mut self, e: &'ast syn::ExprReturn) {
        self.returns.push(r(e));
        syn::visit::visit_expr_return(self, e);
    }
    fn visit_expr_try(&mut self, e: &'ast syn::ExprTry) {
        self.tries.push(r(e));
        syn::visit::visit_expr_try(self, e);
    }
    fn visit_expr_if(&mut self, e: &'ast syn::ExprIf) {
        if let syn::Expr::Binary(_) = &*e.cond {
            if has_let(&e.cond) {
                self.letchains.push(json!({"span": r(e), "cond": r(&*e.cond), "then": r(&e.then_branch), "has_else": e.else_branch.is_some()}));
            }
        }
        syn::visit::visit_expr_if(self, e);
    }
    fn visit_expr_match(&mut self, m: &'ast syn::ExprMatch) {
        let mut arms = vec![];
        for a in &m.arms {
            let mut names: Vec<String> = vec![];
            collect_pat_paths(&a.pat, &mut names);
            let sp = a.span().byte_range();
            let end = a.comma.as_ref().map(|c| c.span().byte_range().end).unwrap_or(sp.end);
            arms.push(json!({"span": [sp.start, end], "pat": r(&a.pat), "paths": names, "body": r(&*a.body)}));
        }
        self.matches.push(json!({"span": r(m), "expr": r(&*m.expr), "arms": arms,
            "brace_close": m.brace_token.span.close().byte_range().start}));
        syn::visit::visit_expr_match(self, m);
    }
    fn visit_expr_closure(&mut self, c: &'ast syn::ExprClosure) {
        self.closures.push(json!({"span": r(c), "body": r(&*c.body)}));
        syn::visit::visit_expr_closure(self, c);
    }
    fn visit_expr_method_call(&mut self, c: &'ast syn::ExprMethodCall) {
        self.calls.push(json!({"method": c.method.to_string(), "span": r(c), "name": r(&c.method), "recv": r(&*c.receiver)}));
        syn::visit::visit_expr_method_call(self, c);
    }
    fn visit_expr_call(&mut self, c: &'ast syn::ExprCall) {
        if let syn::Expr::Path(p) = &*c.func {
            self.calls.push(json!({"path": path_str(&p.path), "span": r(c), "name": r(&*c.func)}));
        }
        syn::visit::visit_expr_call(self, c);
    }
}

struct V {
    cur_impl: Option<String>,
    cur_trait: Option<String>,
    cur_trait_full: Option<String>,
    cur_mod: Vec<String>,
    out: Vec<Value>,
}
impl V {
    fn push_fn(&mut self, name: String, item: Value, at: &[syn::Attribute], vis: Option<Value>, sig: &syn::Signature, block: Option<&syn::Block>) {
        let mut b = Body::default();
        if let Some(bl) = block {
            b.visit_block(bl);
        }
        let ret = match &sig.output {
            syn::ReturnType::Default => Value::Null,
            syn::ReturnType::Type(_, t) => r(&**t),
        };
        let stmts: Vec<Value> = block.map(|b| b.stmts.iter().map(|s| r(s)).collect()).unwrap_or_default();
        self.out.push(json!({
            "kind":"fn", "impl": self.cur_impl, "trait": self.cur_trait, "trait_full": self.cur_trait_full, "mod": self.cur_mod.join("::"), "fn": name,
            "item": item, "attrs": attrs(at), "vis": vis, "sig": r(sig), "ret": ret,
            "asyncness": sig.asyncness.as_ref().map(|a| r(a)),
            "body": block.map(|b| r(b)), "stmts": stmts,
            "loops": b.loops, "macros": b.macros, "awaits": b.awaits, "returns": b.returns,
            "letchains": b.letchains, "closures": b.closures, "calls": b.calls, "tries": b.tries, "matches": b.matches,
            "inputs": sig.inputs.iter().map(|i| r(i)).collect::<Vec<_>>(),
            "generics": r(&sig.generics), "where": sig.generics.where_clause.as_ref().map(|w| r(w)),
        }));
    }
}
fn vis_span(v: &syn::Visibility) -> Option<Value> {
    match v {
        syn::Visibility::Inherited => None,
        _ => Some(r(v)),
    }
}
impl<'ast> Visit<'ast> for V {
    fn visit_item_mod(&mut self, m: &'ast syn::ItemMod) {
        self.cur_mod.push(m.ident.to_string());
        syn::visit::visit_item_mod(self, m);
        self.cur_mod.pop();
    }
    fn visit_item_impl(&mut self, i: &'ast syn::ItemImpl) {
        let old = (self.cur_impl.take(), self.cur_trait.take());
        let old_full = self.cur_trait_full.take();
        self.cur_impl = Some(ty_name(&i.self_ty));
        self.cur_trait = i.trait_.as_ref().map(|(_, p, _)| p.segments.last().unwrap().ident.to_string());
        self.cur_trait_full = i.trait_.as_ref().map(|(_, p, _)| {
            use quote::ToTokens;
            p.to_token_stream().to_string().replace(' ', "")
        });
        let trait_full = i.trait_.as_ref().map(|(_, p, _)| r(p));
        self.out.push(json!({"kind":"impl","impl": self.cur_impl, "trait": self.cur_trait, "trait_span": trait_full, "mod": self.cur_mod.join("::"),
            "item": r(i), "self_ty": r(&*i.self_ty), "generics": r(&i.generics), "brace": [i.brace_token.span.open().byte_range().start, i.brace_token.span.close().byte_range().end]}));
        syn::visit::visit_item_impl(self, i);
        self.cur_impl = old.0;
        self.cur_trait = old.1;
        self.cur_trait_full = old_full;
    }
    fn visit_impl_item_fn(&mut self, f: &'ast syn::ImplItemFn) {
        self.push_fn(f.sig.ident.to_string(), r(f), &f.attrs, vis_span(&f.vis), &f.sig, Some(&f.block));
    }
    fn visit_impl_item_const(&mut self, c: &'ast syn::ImplItemConst) {
        self.out.push(json!({"kind":"const","impl": self.cur_impl, "mod": self.cur_mod.join("::"), "const": c.ident.to_string(), "item": r(c), "attrs": attrs(&c.attrs), "vis": vis_span(&c.vis)}));
    }
    fn visit_item_fn(&mut self, f: &'ast syn::ItemFn) {
        let old = (self.cur_impl.take(), self.cur_trait.take());
        self.push_fn(f.sig.ident.to_string(), r(f), &f.attrs, vis_span(&f.vis), &f.sig, Some(&f.block));
        self.cur_impl = old.0;
        self.cur_trait = old.1;
    }
    fn visit_item_trait(&mut self, t: &'ast syn::ItemTrait) {
        self.out.push(json!({"kind":"trait","trait": t.ident.to_string(), "mod": self.cur_mod.join("::"), "item": r(t), "attrs": attrs(&t.attrs), "vis": vis_span(&t.vis)}));
        let old = (self.cur_impl.take(), self.cur_trait.take());
        self.cur_trait = Some(t.ident.to_string());
        syn::visit::visit_item_trait(self, t);
        self.cur_impl = old.0;
        self.cur_trait = old.1;
    }
    fn visit_trait_item_fn(&mut self, f: &'ast syn::TraitItemFn) {
        self.push_fn(f.sig.ident.to_string(), r(f), &f.attrs, None, &f.sig, f.default.as_ref());
    }
    fn visit_item_struct(&mut self, s: &'ast syn::ItemStruct) {
        let fields: Vec<Value> = s
            .fields
            .iter()
            .map(|f| json!({"name": f.ident.as_ref().map(|i| i.to_string()), "span": r(f), "vis": vis_span(&f.vis), "attrs": attrs(&f.attrs), "ty": r(&f.ty)}))
            .collect();
        self.out.push(json!({"kind":"struct","struct": s.ident.to_string(), "mod": self.cur_mod.join("::"), "item": r(s), "attrs": attrs(&s.attrs), "vis": vis_span(&s.vis), "fields": fields, "ident": r(&s.ident)}));
    }
    fn visit_item_enum(&mut self, s: &'ast syn::ItemEnum) {
        let variants: Vec<Value> = s
            .variants
            .iter()
            .map(|v| {
                let fields: Vec<Value> = v.fields.iter().map(|f| json!({"name": f.ident.as_ref().map(|i| i.to_string()), "span": r(f), "attrs": attrs(&f.attrs)})).collect();
                json!({"name": v.ident.to_string(), "span": r(v), "attrs": attrs(&v.attrs), "fields": fields})
            })
            .collect();
        self.out.push(json!({"kind":"enum","enum": s.ident.to_string(), "mod": self.cur_mod.join("::"), "item": r(s), "attrs": attrs(&s.attrs), "vis": vis_span(&s.vis), "variants": variants, "ident": r(&s.ident)}));
    }
    fn visit_item_const(&mut self, c: &'ast syn::ItemConst) {
        self.out.push(json!({"kind":"const","impl": Value::Null, "mod": self.cur_mod.join("::"), "const": c.ident.to_string(), "item": r(c), "attrs": attrs(&c.attrs), "vis": vis_span(&c.vis)}));
    }
    fn visit_item_type(&mut self, c: &'ast syn::ItemType) {
        self.out.push(json!({"kind":"type","type": c.ident.to_string(), "mod": self.cur_mod.join("::"), "item": r(c), "attrs": attrs(&c.attrs), "vis": vis_span(&c.vis)}));
    }
}
fn main() {
    let mut all = serde_json::Map::new();
    for p in std::env::args().skip(1) {
        let src = match std::fs::read_to_string(&p) {
            Ok(s) => s,
            Err(e) => {
                eprintln!("vxspan: cannot read {p}: {e}");
                std::process::exit(2);
            }
        };
        let file = match syn::parse_file(&src) {
            Ok(f) => f,
            Err(e) => {
                eprintln!("vxspan: cannot parse {p}: {e}");
                std::process::exit(2);
            }
        };
        let mut v = V { cur_impl: None, cur_trait: None, cur_trait_full: None, cur_mod: vec![], out: vec![] };
        v.visit_file(&file);
        all.insert(p, Value::Array(v.out));
    }
    println!("{}", serde_json::to_string(&Value::Object(all)).unwrap());
}
