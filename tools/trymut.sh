#!/bin/bash
# usage: trymut.sh <file-under-src> <python-expr old> <new> <unit>...   -- replace the first occurrence of <old> by <new> in a scratch copy and run units
f=$1; old=$2; new=$3; shift 3
d=/var/tmp/kv/tm-$$
mkdir -p $d && rsync -a --delete /repo/src $d/
python3 - "$d/$f" "$old" "$new" <<'PY' || { rm -rf $d; exit 2; }
import sys
p,old,new=sys.argv[1:4]
s=open(p).read()
if s.count(old)<1: print('MUTATION ANCHOR NOT FOUND'); sys.exit(1)
open(p,'w').write(s.replace(old,new,1))
PY
for u in "$@"; do VX_REPO=$d VX_BUILD=/var/tmp/kv/tmb-$$ /verif/vx unit $u 2>&1 | grep -E "^FAILED|: ok |inconclusive|lost anchor|tool error" | head -8; done
rm -rf $d /var/tmp/kv/tmb-$$
