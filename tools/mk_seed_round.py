#!/usr/bin/env python3
"""prepare a sub-agent seeding round: for each property id given, a scratch worktree /tmp/<round>/<id>/wt of /repo HEAD,
property.json (the property text only) and prompt.txt (from seed_prompt_template.txt, with the ideas already used).
usage: mk_seed_round.py <round-dir-name> <hint-json> <id>..."""
import json, os, subprocess, sys
ROOT = os.path.dirname(os.path.dirname(os.path.abspath(__file__)))
rnd, hints = sys.argv[1], json.loads(sys.argv[2])
props = {json.loads(l)['id']: json.loads(l) for l in open(os.path.join(ROOT, 'properties.jsonl'))}
tpl = open(os.path.join(ROOT, 'tools', 'seed_prompt_template.txt')).read().replace('/tmp/r4/', f'/tmp/{rnd}/')
for pid in sys.argv[3:]:
    d = f'/tmp/{rnd}/{pid}'
    os.makedirs(d + '/out', exist_ok=True)
    subprocess.run(['git', '-C', '/repo', 'worktree', 'add', '-q', d + '/wt', 'HEAD'], check=True)
    json.dump(props[pid], open(d + '/property.json', 'w'), indent=1)
    used = []
    for sid in sorted(os.listdir(os.path.join(ROOT, 'seeded'))):
        mp = os.path.join(ROOT, 'seeded', sid, 'meta.json')
        if os.path.exists(mp):
            m = json.load(open(mp))
            if m.get('property') == pid:
                used.append('- ' + str(m.get('summary', ''))[:260].replace('\n', ' '))
    open(d + '/prompt.txt', 'w').write(tpl.replace('@ID@', pid).replace('@HINT@', hints.get(pid, 'see the mechanism anchors')).replace('@USED@', '\n'.join(used) or '(none)'))
    print(pid, len(used), 'used ideas')
