#!/usr/bin/env python3
"""prepare a benign-refactoring sub-agent: scratch worktree /tmp/<round>/<id>/wt of /repo HEAD and prompt.txt.
usage: mk_benign_round.py <round-dir-name> <id> <func>..."""
import os, subprocess, sys
ROOT = os.path.dirname(os.path.dirname(os.path.abspath(__file__)))
rnd, bid, funcs = sys.argv[1], sys.argv[2], sys.argv[3:]
d = f'/tmp/{rnd}/{bid}'
os.makedirs(d + '/out', exist_ok=True)
subprocess.run(['git', '-C', '/repo', 'worktree', 'add', '-q', d + '/wt', 'HEAD'], check=True)
t = open(os.path.join(ROOT, 'tools', 'benign_prompt_template.txt')).read()
open(d + '/prompt.txt', 'w').write(t.replace('@RND@', rnd).replace('@ID@', bid).replace('@FUNCS@', '\n'.join(' - ' + f for f in funcs)))
print(d)
