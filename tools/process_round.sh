#!/bin/bash
# usage: process_round.sh <round> <Cnn>  -- confirm each seed of /tmp/<round>/<Cnn>/out/seedN in the round's worktree, file the confirmed ones
# under /verif/seeded/<Cnn>-seed<next>, and run the property's check against each
rnd=$1; p=$2
wt=/tmp/$rnd/$p/wt
for sd in /tmp/$rnd/$p/out/seed*; do
  [ -f $sd/patch.diff ] || continue
  n=$(ls -d /verif/seeded/$p-seed* 2>/dev/null | sed -E 's/.*seed([0-9]+)$/\1/' | sort -n | tail -1); n=$((n+1))
  out=/tmp/$rnd/$p/confirm-$(basename $sd).txt
  bash /verif/tools/confirm_seed.sh $wt $sd $out
  cat $out | grep -E "^-- |^test |test result|FAILED" | head -30
  wo=$(sed -n '/-- without patch/,/-- with patch/p' $out | grep -c "test result: ok")
  wi=$(sed -n '/-- with patch:/,/-- full lib/p' $out | grep -c "test result: FAILED")
  nf=$(sed -n '/-- full lib/,$p' $out | grep -E "^test .* FAILED|^    [a-z_:0-9]+$" | grep -v analyse_nlnet_labs_snapshot | sort -u | wc -l)
  echo "== $sd: without_ok=$wo with_failed=$wi other_failures_in_suite=$nf"
  if [ "$wo" = 1 ] && [ "$wi" = 1 ]; then python3 /verif/tools/file_seed.py $sd $out $p-seed$n; else echo "NOT CONFIRMED $sd"; fi
done
