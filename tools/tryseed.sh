#!/bin/bash
# usage: tryseed.sh <patch.diff> <Cnn> [more props...]   -- run checks against a scratch copy of /repo/src with the patch applied
patch=$1; shift
d=/var/tmp/kv/mut-$$
mkdir -p $d && rsync -a --delete /repo/src $d/ && (cd $d && patch -s -p1 < $patch) || { echo "patch failed"; rm -rf $d; exit 2; }
rc=0
for p in "$@"; do VX_REPO=$d /verif/vx check $p --tier ${TIER:-quick} | grep -E "VIOLATION|FAILED|INCONCLUSIVE|exit=|note:" ; done
rm -rf $d /var/tmp/krill-verif/mut-replay /var/tmp/krill-verif/mut-evidence
