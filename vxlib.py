"""vxlib -- engine V of /verif: extract the real text of krill functions/types by byte span,
splice contract clauses at recorded positions, assemble one Verus unit, run Verus, map
diagnostics back to named obligations.

The only differences between the verified text and /repo are the rewrites R1..R11 of
DESIGN.md section 2.3; every rewrite that is applied is counted per unit.
"""
import json, os, re, subprocess, sys, time, hashlib

ROOT = os.path.dirname(os.path.abspath(__file__))
REPO = os.environ.get('VX_REPO', '/repo')
VXSPAN = os.path.join(ROOT, 'tools/vxspan/target/release/vxspan')
BUILD = os.environ.get('VX_BUILD') or os.path.join(ROOT, '.cache', 'units')   # VX_BUILD: a private build dir, so that two runs do not share assembled units

LOG_MACROS = ('trace', 'debug', 'info', 'warn', 'error', 'log::trace', 'log::debug', 'log::info', 'log::warn', 'log::error')
KEEP_DERIVES = ('Clone', 'Copy', 'PartialEq', 'Eq', 'Hash')
REWRITES = {
    'R1': 'log macro statements deleted / log_enabled! made opaque',
    'R2': 'format!/literal to_string replaced by opaque vx_string()',
    'R3': 'for PAT in E.iter().copied()  /  for &PAT in E  -> loop over references with an explicit `let PAT = *item;` at the top of the body',
    'R4': 'visibility widened, serde/allow attrs and non-structural derives dropped, Structural marker added',
    'R5': 'let-chain without else desugared to nested if',
    'R6': 'unreferenced enum variants dropped (VxOther stands for the rest)',
    'R7': '&self -> &mut self on queue methods (ghost queue model)',
    'R8': 'for P in &map -> for P in map.iter()',
    'R9': 'result named: -> T  becomes  -> (r: T)',
    'R10': 'async erased: async fn -> fn, .await deleted',
    'R11': 'derive(Clone) expanded to field-wise impl with assumed clone(x)==x',
    'R13': 'enum tuple-variant constructor used as a function value is eta-expanded: f(Variant) -> f(|x| Variant(x))',
    'R14': 'tagged substitution written in the unit: an expression the verifier has no model for (iterator-chain initialiser, std string / number parsing call, `.into()` between string types, Vec::with_capacity) is replaced by a call to a declared function whose contract is ASSUMED and listed in the evidence (or, for vx_reserve, carries a proof obligation); the literal anchor must match exactly once, otherwise the check is inconclusive',
    'R15': 'closure body lifted verbatim into a named function whose parameter list (closure parameters + captured variables, with types) is supplied by the unit; the enclosing iterator chain is not verified',
    'R16': 'every `if C { continue; }` (or `let PAT = E else { continue; };`) that is a direct statement of a for-loop body becomes `if !(C) { <rest of the body> }` (`if let PAT = E { <rest> }`), nested for several guards (Verus for-loops do not support continue)',
    'R17': 'the k-th loop of a function lifted verbatim into a named function whose parameter list (the variables the loop reads, and `&mut` for collections it pushes to) the unit supplies; the code before and after the loop is not verified; variant: only the loop body (one iteration), with mutable locals it assigns passed in and returned; variant: one top-level statement of the function (e.g. a `match`) lifted the same way',
    'R18': 'a call to a private helper of the same impl that the unit does not know (typically: freshly extracted by a refactoring) is replaced by a block that binds the parameters to the arguments and contains the helper body verbatim; only for helpers whose body has no `return`, `?` or `.await` (so the replacement has the same control flow), only when rustc reports the helper as unknown',
    'R19': '`for (K, V) in MAP.clone()` or `for (K, V) in MAP` (by-value iteration over a HashMap, no vstd model of hash_map::IntoIter) becomes `for (vx_k, vx_v) in MAP.iter()` with `let K = vx_k.clone(); let V = vx_v.clone();` first in the body; equal under the clone==identity assumption already listed for the element types',
    'R20': 'inline const block `const { E }` in expression position becomes `(E)` (Verus does not support const block expressions; the value of a const block is the value of its expression)',
    'R21': 'closure whose only parameter is the wildcard `|_|` gets a named, unused parameter `|_vx_w|` (Verus accepts only variables as closure parameters)',
    'R2c': 'format! whose template has only `{}` / `{ident}` placeholders becomes the concatenation of its literal pieces and of the Display strings of its arguments (str, String, Cow<str>): vx_cat(vx_lit(..), VxS::vx_s(&arg)) -- used where the formatted string is a key the property depends on',
    'R1b': '`unreachable!(\"..\", args)` / `panic!(\"..\", args)` lose their message and become `unreachable!()` (the arm stays an obligation: it must be proved unreachable)',
    'R23': 'a field of type RwLock<T> is given the type T and `self.F.write().unwrap()` / `self.F.read().unwrap()` become `&mut self.F` / `&self.F` (receiver &self -> &mut self, R7): the lock guard held to the end of the block is the exclusive / shared borrow of the protected value; single-task semantics only, no claim about interleavings or lock poisoning',
    'R24': 'a provided (default-bodied) trait method is lifted out of its trait into a free generic function (`fn f(&mut self, ..)` of `trait T` -> `fn f<A: T>(vx_self: &mut A, ..)`, `Self` -> `A`, `self` -> `vx_self`) so that its contract can use spec functions that are generic over the trait (Verus rejects those inside the trait: cyclic definition); in the extracted trait declaration the method loses its body and is a required method; a verification of THE method as long as no implementor overrides it',
    'R28': '`for V in MAP.values()` becomes `for (vx_k, V) in MAP.iter()` (the values of a map are the second components of its entries; vstd specifies hash_map::Iter, not hash_map::Values)',
    'R27': '`M.iter().any(F)` on a HashMap becomes `vx_map_any(&M, F)`, a declared function with the ASSUMED std contract: true iff F answers true for some entry (each entry handed to F as a pair of references); a closure that takes the pair as a tuple pattern gets a named parameter and `let PATTERN = parameter;` first in its body',
    'R26': '`E.iter_mut().for_each(F)` becomes `vx_for_each_mut(&mut E, F)`, a declared function with the ASSUMED std contract: F runs once on every element, in place, the length is kept',
    'R25': '`while let PAT = EXPR { BODY }` becomes `loop { match EXPR { PAT => { BODY } _ => { break; } } }` (definitional desugaring; Verus has no while-let)',
    'R22': 'by-value receiver `mut self` becomes `self` with `let mut vx_self = self;` first in the body and every `self` of the body renamed (Verus does not support `mut self`; the binding mode of a by-value parameter is not part of the interface)',
    'R12': 'derive(Default) expanded to the field-wise impl the derive generates (inside verus!, verified, not assumed)',
}


class LostAnchor(Exception):
    pass


class ToolLimit(Exception):
    pass


AUTO_INLINE = {}      # (struct name, fn name) -> candidate (see inline_candidate); filled by the driver on E0599, per process


def inline_candidate(paths, struct, name):
    """R18: find `fn name` in an `impl struct` of one of the given source files and decide whether it can be inlined"""
    for path in paths:
        try:
            src, items = _load(path)
        except LostAnchor:
            continue
        for e in items:
            if e['kind'] != 'fn' or e['fn'] != name or (e.get('impl') or '') != struct or e.get('trait'):
                continue
            if e['body'] is None or e['asyncness'] is not None or e['awaits'] or e['tries']:
                return None
            # a helper with `return` statements can only be inlined at call sites of the form `helper(..)?` and only if it
            # ends in `Ok(())` (a check extracted into a Result<(), E> helper): its `return Err(e)` then leaves the caller as the
            # `?` did; a differing error type makes the inlined text ill-typed (inconclusive), never wrongly accepted
            try_only = False
            if e['returns']:
                btxt = src[e['body'][0]:e['body'][1]].decode()
                if not re.search(r'Ok\(\(\)\)\s*\}\s*$', btxt):
                    return None
                try_only = True
            params = []
            has_self = False
            for i0, i1 in e['inputs']:
                txt = src[i0:i1].decode().strip()
                if re.fullmatch(r'&?\s*(mut\s+)?self', txt):
                    has_self = True
                    continue
                if ':' not in txt:
                    return None
                nm, ty = txt.split(':', 1)
                nm = nm.strip()
                is_mut = bool(re.match(r'^mut\s+', nm))
                nm = re.sub(r'^mut\s+', '', nm)
                if not re.fullmatch(r'[A-Za-z_][A-Za-z0-9_]*', nm):
                    return None
                params.append((('mut ' if is_mut else '') + nm, ty.strip()))
            return {'path': path, 'e': e, 'params': params, 'has_self': has_self, 'try_only': try_only}
    return None


def _match_paren(txt, i):
    """index just after the parenthesis that closes the one opened at txt[i] ('(')"""
    depth = 0
    j = i
    in_str = False
    while j < len(txt):
        c = txt[j]
        if in_str:
            if c == '\\':
                j += 1
            elif c == '"':
                in_str = False
        elif c == '"':
            in_str = True
        elif c in '([{':
            depth += 1
        elif c in ')]}':
            depth -= 1
            if depth == 0:
                return j + 1
        j += 1
    return -1


def _split_args(txt):
    out, depth, cur, in_str = [], 0, '', False
    for k, c in enumerate(txt):
        if in_str:
            cur += c
            if c == '"' and txt[k - 1] != '\\':
                in_str = False
            continue
        if c == '"':
            in_str = True
        if c in '([{<' and not (c == '<' and cur.rstrip().endswith(('=', '-'))):
            depth += 1 if c != '<' else 0
        if c in ')]}':
            depth -= 1
        if c == ',' and depth == 0:
            out.append(cur.strip())
            cur = ''
        else:
            cur += c
    if cur.strip():
        out.append(cur.strip())
    return out


def _panic_has_message(txt):
    return not re.fullmatch(r'(unreachable|panic)!\s*[\(\[\{]\s*[\)\]\}]\s*;?', txt.strip())


def _format_concat(txt):
    """`format!("a{}b{x}", e)` -> `vx_cat(vx_cat(vx_cat(vx_lit("a"), VxS::vx_s(&(e))), vx_lit("b")), VxS::vx_s(&(x)))`; None if the
    template uses anything but `{}` / `{ident}` (format specs, positional indices) or is not a plain string literal."""
    m = re.match(r'format!\s*[\(\[\{](.*)[\)\]\}]\s*$', txt, re.S)
    if not m:
        return None
    args = _split_args(m.group(1).strip().rstrip(','))
    if not args or not re.fullmatch(r'"(?:[^"\\]|\\.)*"', args[0], re.S):
        return None
    tpl, rest = args[0][1:-1], args[1:]
    if '\\' in tpl:
        return None
    parts, lit, k, i = [], '', 0, 0
    while i < len(tpl):
        c = tpl[i]
        if tpl.startswith('{{', i) or tpl.startswith('}}', i):
            lit += c
            i += 2
            continue
        if c == '{':
            j = tpl.find('}', i)
            if j < 0:
                return None
            inner = tpl[i + 1:j]
            if lit:
                parts.append(f'vx_lit("{lit}")')
                lit = ''
            if inner == '':
                if k >= len(rest):
                    return None
                parts.append(f'VxS::vx_s(&({rest[k]}))')
                k += 1
            elif re.fullmatch(r'[A-Za-z_][A-Za-z0-9_]*', inner):
                parts.append(f'VxS::vx_s(&({inner}))')
            else:
                return None
            i = j + 1
            continue
        if c == '}':
            return None
        lit += c
        i += 1
    if lit:
        parts.append(f'vx_lit("{lit}")')
    if k != len(rest) or not parts:
        return None
    out = parts[0]
    for q in parts[1:]:
        out = f'vx_cat({out}, {q})'
    return out


_src_cache = {}
_BASE_SIG = None


def base_signatures():
    """parameter and loop-variable names of every contracted function as they were when the baseline was taken (so that
    contract text written against those names follows a later rename)"""
    global _BASE_SIG
    if _BASE_SIG is None:
        try:
            _BASE_SIG = json.load(open(os.path.join(ROOT, 'baseline_signatures.json')))
        except Exception:
            _BASE_SIG = {}
    return _BASE_SIG


def _load(path):
    if path not in _src_cache:
        full = path if os.path.isabs(path) else os.path.join(REPO, path)
        try:
            src = open(full, 'rb').read()
        except OSError as e:
            raise LostAnchor(f'file {path}: {e}')
        p = subprocess.run([VXSPAN, full], capture_output=True, text=True)
        if p.returncode != 0:
            raise LostAnchor(f'vxspan {path}: {p.stderr.strip()}')
        items = json.loads(p.stdout)[full]
        _src_cache[path] = (src, items)
    return _src_cache[path]


def find(path, kind, **kw):
    src, items = _load(path)
    hits = [e for e in items if e['kind'] == kind and all(e.get(k) == v for k, v in kw.items())]
    if len(hits) != 1:
        raise LostAnchor(f'{path}: {kind} {kw}: {len(hits)} matches')
    return src, hits[0]


class Seg:
    """a piece of assembled text, optionally carrying an obligation (clause) id"""
    __slots__ = ('text', 'clause', 'fn')

    def __init__(self, text, clause=None, fn=None):
        self.text, self.clause, self.fn = text, clause, fn


def _apply_edits(src, a, b, edits):
    """edits: list of (start, end, [Seg]) on absolute byte offsets within [a,b). returns [Seg]"""
    edits = sorted(edits, key=lambda e: (e[0], e[1]))
    out = []
    pos = a
    for s, e, segs in edits:
        if s < pos:
            raise ToolLimit(f'overlapping edits at byte {s}')
        out.append(Seg(src[pos:s].decode()))
        out.extend(segs)
        pos = e
    out.append(Seg(src[pos:b].decode()))
    return out


class Clause:
    def __init__(self, cid, text):
        self.cid, self.text = cid, text


class Unit:
    def __init__(self, name, prop, title=''):
        self.loop_changed = set()
        self.name, self.prop, self.title = name, prop, title
        self.features = []
        self.outside_parts = ['use vstd::prelude::*;\n']
        self.inside = []          # list of Seg
        self.rewrites = {}
        self.functions = []       # under contract: dict(id, path, impl, fn, clauses)
        self.clauses = {}         # cid -> dict(kind, fn, text)
        self.extracted = []       # (path, what)
        self.bounded = []
        self.notes = []
        self.canary_skip = set()
        self.signatures = {}        # fid -> {'params': [...], 'loops': [...]} as spelled in the tree being checked
        self.auto_opaque = False
        self.auto_added = []
        self.enum_variants = {}   # enum name -> (variants present in the extracted enum, has VxOther)

    # ---------- raw text ----------
    loop_changed = None

    def feature(self, *names):
        for n in names:
            if n not in self.features:
                self.features.append(n)

    def outside(self, text):
        self.outside_parts.append(text.rstrip() + '\n')

    def add(self, text):
        self.inside.append(Seg(text.rstrip() + '\n'))

    def _rw(self, tag, n=1):
        assert tag in REWRITES
        self.rewrites[tag] = self.rewrites.get(tag, 0) + n

    def opaque(self, name, derive='Clone', module=None, clone_spec=None, eq=False, generics=''):
        """an opaque external type: declared outside verus!, external_body inside (an ASSUMPTION)."""
        d = [x.strip() for x in derive.split(',') if x.strip()]
        decl = f'#[derive({", ".join(d)})] pub struct {name}{generics}(pub u8);' if d else f'pub struct {name}(pub u8);'
        q = name
        if module:
            self.outside(f'pub mod {module} {{ {decl} }}')
            q = f'{module}::{name}'
        else:
            self.outside(decl)
        self.add(f'#[verifier::external_type_specification] #[verifier::external_body] pub struct Ex{name}({q});')
        if clone_spec is None:
            clone_spec = 'Clone' in d and 'Copy' not in d
        if clone_spec:
            self.add(f'pub assume_specification [<{q} as Clone>::clone] (n: &{q}) -> (r: {q}) ensures r == *n;')
        if eq:
            self.add(f'''impl vstd::std_specs::cmp::PartialEqSpecImpl for {q} {{
    open spec fn obeys_eq_spec() -> bool {{ true }}
    open spec fn eq_spec(&self, other: &{q}) -> bool {{ *self == *other }}
}}
pub assume_specification [<{q} as PartialEq>::eq] (a: &{q}, b: &{q}) -> (r: bool);''')

    # ---------- types ----------
    def _strip_attrs(self, src, e, keep_derives, extra_edits):
        """edits removing attributes/doc comments of an item; returns derive list that is kept"""
        kept = []
        for at in e.get('attrs', []):
            s, t = at['span']
            if at['path'] == 'derive':
                txt = src[s:t].decode()
                names = re.findall(r'[A-Za-z_][A-Za-z0-9_:]*', txt[txt.index('(') + 1:])
                kept = [n.split('::')[-1] for n in names if n.split('::')[-1] in keep_derives]
            extra_edits.append((s, t, []))
            if not at['doc']:
                self._rw('R4')
        return kept

    def struct(self, path, name, derive=None, clone='auto', pub_fields=True, structural='auto', default_ensures=None, unlock=()):
        src, e = find(path, 'struct', struct=name)
        a, b = e['item']
        edits = []
        # R23: a field `RwLock<T>` listed in `unlock` is given the type `T` (see fn(unlock=..))
        for fname in unlock:
            ff = [f for f in e['fields'] if f['name'] == fname]
            if not ff:
                raise LostAnchor(f'{path}: struct {name} has no field {fname}')
            t0, t1 = ff[0]['ty']
            ty23 = ' '.join(src[t0:t1].decode().split())
            m_arc = re.fullmatch(r'(?:std::sync::)?Arc\s*<\s*(.*)>', ty23, re.S)
            if m_arc:
                ty23 = m_arc.group(1).strip()
            m23 = re.fullmatch(r'(?:std::sync::|tokio::sync::)?RwLock\s*<(.*)>', ty23, re.S)
            if not m23:
                raise ToolLimit(f'{name}.{fname}: R23 wants an RwLock<T> or Arc<RwLock<T>> field')
            edits.append((t0, t1, [Seg(m23.group(1))]))
            self._rw('R23')
        kept = self._strip_attrs(src, e, KEEP_DERIVES, edits)
        if derive is not None:
            kept = [d for d in kept if d in derive]
        for f in e['fields']:
            for at in f['attrs']:
                edits.append((at['span'][0], at['span'][1], []))
                if not at['doc']:
                    self._rw('R4')
            if pub_fields:
                if f['vis'] is None:
                    edits.append((f['span'][0], f['span'][0], [Seg('pub ')]))
                    self._rw('R4')
                else:
                    vs = src[f['vis'][0]:f['vis'][1]].decode()
                    if vs != 'pub':
                        edits.append((f['vis'][0], f['vis'][1], [Seg('pub')]))
                        self._rw('R4')
        if e['vis'] is None:
            edits.append((e['ident'][0] - len('struct '), e['ident'][0] - len('struct '), [Seg('pub ')]))
        elif src[e['vis'][0]:e['vis'][1]].decode() != 'pub':
            edits.append((e['vis'][0], e['vis'][1], [Seg('pub')]))
        self._emit_type(src, e, a, b, edits, kept, clone, structural, name, 'struct')
        self.extracted.append((path, f'struct {name}'))
        if default_ensures is not None:
            has_default = any(at['path'] == 'derive' and 'Default' in src[at['span'][0]:at['span'][1]].decode() for at in e.get('attrs', []))
            if not has_default:
                raise LostAnchor(f'{path}: struct {name} no longer derives Default')
            fields = e['fields']
            if fields and fields[0]['name'] is None:
                body = f'{name}(' + ', '.join('Default::default()' for _ in fields) + ')'
            else:
                body = f'{name} {{ ' + ', '.join(f'{f["name"]}: Default::default()' for f in fields) + ' }'
            fid = f'{self.prop}.{self.name}.{name}::default'
            segs = [Seg(f'impl Default for {name} {{\n/*VXFN {fid}*/ fn default() -> (r: Self)\n        ensures\n')]
            cl = []
            for nm, text in default_ensures:
                cid = f'{fid}.ensures.{nm}'
                self.clauses[cid] = {'kind': 'ensures', 'fn': fid, 'text': ' '.join(text.split())}
                cl.append(cid)
                segs += [Seg('            '), Seg(text, clause=cid, fn=fid), Seg(',\n')]
            segs.append(Seg(f'    {{ {body} }} /*VXEND {fid}*/\n}}\n'))
            for sg in segs:
                sg.fn = fid
            self.inside.extend(segs)
            cid = f'{fid}.safety'
            self.clauses[cid] = {'kind': 'safety', 'fn': fid, 'text': 'implicit safety conditions'}
            cl.append(cid)
            self.functions.append({'id': fid, 'path': path, 'impl': name, 'fn': 'default', 'clauses': cl, 'loops': 0, 'trait': True})
            self._rw('R12')

    def enum(self, path, name, keep=None, derive=None, clone='auto', structural='auto', other=True):
        """keep: list of variant names that are kept (R6); None keeps all."""
        src, e = find(path, 'enum', enum=name)
        a, b = e['item']
        edits = []
        kept = self._strip_attrs(src, e, KEEP_DERIVES, edits)
        if derive is not None:
            kept = [d for d in kept if d in derive]
        dropped = 0
        names = [v['name'] for v in e['variants']]
        if keep is not None:
            for k in keep:
                if k not in names:
                    raise LostAnchor(f'{path}: enum {name} has no variant {k}')
        for v in e['variants']:
            s, t = v['span']
            if keep is not None and v['name'] not in keep:
                # delete the variant and its trailing comma, including attrs/doc
                s0 = min([at['span'][0] for at in v['attrs']] + [s])
                t1 = t
                m = re.match(rb'\s*,', src[t:t + 50])
                if m:
                    t1 = t + m.end()
                edits.append((s0, t1, []))
                dropped += 1
                continue
            for at in v['attrs']:
                edits.append((at['span'][0], at['span'][1], []))
            for f in v['fields']:
                for at in f['attrs']:
                    edits.append((at['span'][0], at['span'][1], []))
        if dropped:
            self._rw('R6', dropped)
            if other:
                edits.append((b - 1, b - 1, [Seg('    VxOther,\n')]))
        if e['vis'] is None:
            edits.append((e['ident'][0] - len('enum '), e['ident'][0] - len('enum '), [Seg('pub ')]))
        elif src[e['vis'][0]:e['vis'][1]].decode() != 'pub':
            edits.append((e['vis'][0], e['vis'][1], [Seg('pub')]))
        self.enum_variants[name] = ([v['name'] for v in e['variants'] if keep is None or v['name'] in keep], bool(dropped and other))
        e = dict(e)
        if keep is not None:
            e['variants'] = [v for v in e['variants'] if v['name'] in keep] + ([{'name': 'VxOther', 'fields': []}] if dropped and other else [])
        self._emit_type(src, e, a, b, edits, kept, clone, structural, name, 'enum')
        self.extracted.append((path, f'enum {name}' + (f' (variants kept: {", ".join(keep)})' if keep is not None else '')))

    def _emit_type(self, src, e, a, b, edits, kept, clone, structural, name, what):
        # dedupe edits with identical spans (attr listed twice)
        seen = set()
        ed2 = []
        for x in edits:
            key = (x[0], x[1])
            if key in seen and not x[2]:
                continue
            seen.add(key)
            ed2.append(x)
        segs = _apply_edits(src, a, b, ed2)
        text = ''.join(s.text for s in segs)
        generics = ''
        m = re.search(r'\b(?:struct|enum)\s+' + re.escape(name) + r'\s*(<[^>{(]*>)?', text)
        if m and m.group(1):
            generics = m.group(1)
        der = [d for d in kept if d != 'Clone' or 'Copy' in kept]
        r11 = 'Clone' in kept and 'Copy' not in kept and clone != 'none'
        if structural == 'auto':
            structural = 'PartialEq' in kept and 'Eq' in kept and not generics
        if structural:
            der.append('Structural')
            self._rw('R4')
        head = f'#[derive({", ".join(der)})]\n' if der else ''
        self.inside.append(Seg(head + text.strip() + '\n'))
        if r11:
            self._rw('R11')
            gparams = [g.strip() for g in generics.strip('<>').split(',') if g.strip()] if generics else []
            gnames = [g.split(':')[0].strip() for g in gparams]
            # a type parameter keeps the bounds the type declares for it (the derive adds `Clone` to them)
            gdecl = ('<' + ', '.join((g + ' + Clone') if ':' in g else f'{g}: Clone' for g in gparams) + '>') if gnames else ''
            guse = ('<' + ', '.join(gnames) + '>') if gnames else ''
            if what == 'struct':
                fields = e['fields']
                if fields and fields[0]['name'] is None:
                    body = f'{name}(' + ', '.join(f'self.{i}.clone()' for i in range(len(fields))) + ')'
                elif fields:
                    body = f'{name} {{ ' + ', '.join(f'{f["name"]}: self.{f["name"]}.clone()' for f in fields) + ' }'
                else:
                    body = name
                # PhantomData fields clone fine
            else:
                arms = []
                for v in e['variants']:
                    fs = v['fields']
                    if not fs:
                        arms.append(f'{name}::{v["name"]} => {name}::{v["name"]}')
                    elif fs[0]['name'] is None:
                        vs = [f'x{i}' for i in range(len(fs))]
                        arms.append(f'{name}::{v["name"]}({", ".join(vs)}) => {name}::{v["name"]}({", ".join(x + ".clone()" for x in vs)})')
                    else:
                        ns = [f['name'] for f in fs]
                        arms.append(f'{name}::{v["name"]} {{ {", ".join(ns)} }} => {name}::{v["name"]} {{ {", ".join(n + ": " + n + ".clone()" for n in ns)} }}')
                body = 'match self { ' + ', '.join(arms) + ' }'
            self.outside(f'impl{gdecl} Clone for {name}{guse} {{ fn clone(&self) -> Self {{ {body} }} }}')
            self.add(f'pub assume_specification{gdecl} [<{name}{guse} as Clone>::clone] (c: &{name}{guse}) -> (r: {name}{guse}) ensures r == *c;')

    # ---------- functions ----------
    def fn(self, path, impl, fn, requires=(), ensures=(), loops=None, ghost=(), subst=(), trait=None,
           erase_async=False, mut_self=False, ret_name='r', decreases=None, keep_macros=(), external_body=False,
           let_chains=True, fmt=True, hash_loops=(), vis='pub', recommends=(), trait_full=None, keep_arms=None, as_inherent=False, copied_loops=(), eta=(), closures=None, continue_guards=(), deref_loops=(), attrs=(), clone_loops=(), into_values_loops=(), unlock=(), lift_default=None, for_each_mut=False, map_any=None, values_loops=()):
        """Extract one fn verbatim and splice its contract.  Returns a list of Seg (to be put in an impl block).
        requires/ensures: list of (name, text).  loops: {ordinal: dict(invariant=[(name,text)], decreases=text, iter='vx_it')}
        ghost: list of (anchor, text) with anchor in ('body_start',), ('body_end',), ('loop_start',k), ('loop_end',k),
               ('before', 'literal text', occurrence), ('after', 'literal text', occurrence)
        subst: list of (old, new, Rtag) literal replacements inside the fn (must match exactly once)."""
        kw = {'fn': fn}
        kw['impl'] = impl
        if trait is not None:
            kw['trait'] = trait
        if trait_full is not None:
            kw['trait_full'] = trait_full
            trait = trait or trait_full
        src, e = find(path, 'fn', **kw)
        fid = f'{self.prop}.{self.name}.{(impl + "::") if impl else ""}{fn}'
        a, b = e['item']
        if e['body'] is None:
            raise LostAnchor(f'{path}: fn {fn} has no body')
        bs, be = e['body']
        edits = []

        def _pname(txt):
            nm = txt.split(':')[0].strip()
            nm = re.sub(r'^(&\s*)?(mut\s+)?', '', nm).strip()
            return nm if re.fullmatch(r'[A-Za-z_][A-Za-z0-9_]*', nm) else None
        now_params = [_pname(src[i0:i1].decode()) for i0, i1 in e['inputs']]
        now_loops = []
        for L0 in e['loops']:
            pt = re.sub(r'^(mut|ref)\s+', '', src[L0['pat'][0]:L0['pat'][1]].decode().strip().lstrip('&').strip()) if L0['kind'] == 'for' else None
            now_loops.append(pt if pt and re.fullmatch(r'[A-Za-z_][A-Za-z0-9_]*', pt) else None)
        self.signatures[fid] = {'params': now_params, 'loops': now_loops}
        # loop invariants are annotations of particular loops: when the function no longer has the loops the baseline recorded
        # (a loop added, removed, or an iterator chain turned into a loop), the annotations do not carry over and a failing
        # obligation of this function is 'cannot decide', not a violation
        _b0 = base_signatures().get(fid)
        if _b0 is not None and len(_b0.get('loops', [])) != len(now_loops):
            self.loop_changed.add(fid)
        renames = {}
        bsig = base_signatures().get(fid)
        if bsig:
            for old_l, new_l in ((bsig.get('params', []), now_params), (bsig.get('loops', []), now_loops)):
                if len(old_l) == len(new_l):
                    for o_, n_ in zip(old_l, new_l):
                        if o_ and n_ and o_ != n_ and o_ != 'self':
                            renames[o_] = n_
            # a renamed name must not collide with a name the text already uses for something else
            renames = {o_: n_ for o_, n_ in renames.items() if n_ not in renames or renames[n_] == n_}

        def LV(t):
            # contract text was written against the baseline names of parameters and loop variables; follow a rename
            for o_, n_ in renames.items():
                t = re.sub(r'(?<![.\w@])' + re.escape(o_) + r'\b', n_, t)
            return LV0(t)

        def LV0(t):
            # `@LV<k>@` in invariant / ghost text stands for the pattern of the k-th for-loop as it is spelled in /repo NOW
            # (so renaming a loop variable does not break the proof text that has to mention it)
            def rep(m):
                kk = int(m.group(1))
                if kk >= len(e['loops']) or e['loops'][kk]['kind'] != 'for':
                    raise LostAnchor(f'{fn}: @LV{kk}@: no such for-loop')
                return re.sub(r'^(mut|ref)\s+', '', src[e['loops'][kk]['pat'][0]:e['loops'][kk]['pat'][1]].decode().strip().lstrip('&').strip())
            def rep_arg(m):
                # `@ARG<k>@`: the name of the k-th parameter (0 = the receiver, if any) as it is spelled in /repo NOW
                kk = int(m.group(1))
                if kk >= len(e['inputs']):
                    raise LostAnchor(f'{fn}: @ARG{kk}@: the function has only {len(e["inputs"])} parameters')
                txt = src[e['inputs'][kk][0]:e['inputs'][kk][1]].decode()
                nm = txt.split(':')[0].strip()
                nm = re.sub(r'^(&\s*)?(mut\s+)?', '', nm).strip()
                if not re.fullmatch(r'[A-Za-z_][A-Za-z0-9_]*', nm):
                    raise ToolLimit(f'{fn}: @ARG{kk}@: parameter pattern `{txt}` is not a plain name')
                return nm
            t = re.sub(r'@ARG(\d+)@', rep_arg, t)
            return re.sub(r'@LV(\d+)@', rep, t)
        # attributes and doc comments dropped; visibility -> pub (R4)
        start = e['sig'][0]
        if e['vis'] is not None:
            start = min(start, e['vis'][0])
        a = start
        if (trait is None or as_inherent) and vis:
            if e['vis'] is None:
                edits.append((e['sig'][0], e['sig'][0], [Seg(vis + ' ')]))
            elif src[e['vis'][0]:e['vis'][1]].decode() != vis:
                edits.append((e['vis'][0], e['vis'][1], [Seg(vis)]))
                self._rw('R4')
        elif trait is not None and e['vis'] is not None:
            pass
        # R10
        if e['asyncness'] is not None:
            if not erase_async:
                raise ToolLimit(f'{fn}: async fn needs erase_async (R10)')
            s, t = e['asyncness']
            edits.append((s, t + 1 if src[t:t + 1] == b' ' else t, []))
            self._rw('R10')
            for m in e['macros']:
                if m['name'].split('::')[-1] in ('join', 'select', 'try_join', 'spawn'):
                    raise ToolLimit(f'{fn}: {m["name"]}! in async body; R10 does not apply')
            body_txt = src[bs:be].decode()
            if re.search(r'\btokio::(spawn|select|join|task)', body_txt):
                raise ToolLimit(f'{fn}: tokio concurrency in async body; R10 does not apply')
        if e['awaits']:
            if not erase_async:
                raise ToolLimit(f'{fn}: .await needs erase_async (R10)')
            for s, t in e['awaits']:
                edits.append((s, t, []))
                self._rw('R10')
        # R24: a provided (default-bodied) trait method lifted out of its trait into a free generic function: `fn f(&mut self, ..)`
        # of `trait T` becomes `fn f<A: T>(vx_self: &mut A, ..)`, every `Self` becomes `A` and every `self` of the body `vx_self`
        # (lift_default = ('A', 'A: T')); sound as a verification of THE method when no implementor overrides it
        if lift_default:
            ty24, bound24 = lift_default
            sig24 = src[e['sig'][0]:e['sig'][1]].decode()
            m24 = re.search(r'\bfn\s+' + re.escape(fn) + r'\b', sig24)
            if not m24 or src[e['generics'][0]:e['generics'][1]].decode().strip():
                raise ToolLimit(f'{fn}: R24 wants a method without generics of its own')
            g24 = e['sig'][0] + len(sig24[:m24.end()].encode())
            edits.append((g24, g24, [Seg(f'<{bound24}>')]))
            i0, i1 = e['inputs'][0]
            rc24 = src[i0:i1].decode().replace(' ', '')
            if rc24 not in ('&self', '&mutself', 'self'):
                raise ToolLimit(f'{fn}: R24 wants a self receiver')
            edits.append((i0, i1, [Seg({'&self': f'vx_self: &{ty24}', '&mutself': f'vx_self: &mut {ty24}', 'self': f'vx_self: {ty24}'}[rc24])]))
            whole24 = src[e['sig'][0]:be].decode()
            for m in re.finditer(r'(?<![A-Za-z0-9_])(self|Self)(?![A-Za-z0-9_])', whole24):
                p24 = e['sig'][0] + len(whole24[:m.start()].encode())
                if i0 <= p24 < i1:
                    continue
                edits.append((p24, p24 + 4, [Seg('vx_self' if m.group(1) == 'self' else ty24)]))
            self._rw('R24')
        # R22: by-value receiver with binding mode `mut self` (Verus: "mut self" unsupported) -> `self`, and the body works on
        # `let mut vx_self = self;` (every `self` token of the body renamed); the binding mode of a by-value parameter is not
        # part of the function's interface
        if e['inputs'] and not external_body and src[e['inputs'][0][0]:e['inputs'][0][1]].decode().replace(' ', '') == 'mutself':
            i0, i1 = e['inputs'][0]
            edits.append((i0, i1, [Seg('self')]))
            btxt22 = src[bs:be].decode()
            for m22 in re.finditer(r'(?<![A-Za-z0-9_])self(?![A-Za-z0-9_])', btxt22):
                s22 = bs + len(btxt22[:m22.start()].encode())
                edits.append((s22, s22 + 4, [Seg('vx_self')]))
            edits.append((bs + 1, bs + 1, [Seg(' let mut vx_self = self; ')]))
            self._rw('R22')
        # R7
        if mut_self:
            inp = e['inputs'][0]
            if src[inp[0]:inp[1]].decode() != '&self':
                raise ToolLimit(f'{fn}: R7 wants &self receiver')
            edits.append((inp[0], inp[1], [Seg('&mut self')]))
            self._rw('R7')
        # R23: `self.F.write().unwrap()` / `self.F.read().unwrap()` on an RwLock field listed in `unlock` becomes the exclusive /
        # shared borrow of the protected value (single-task semantics of a lock held to the end of the enclosing block)
        if unlock and not external_body:
            btxt23 = src[bs:be].decode()
            for fld in unlock:
                for m23 in re.finditer(r'self\s*\.\s*' + re.escape(fld) + r'\s*\.\s*(write|read)\s*\(\s*\)(?:\s*\.\s*unwrap\s*\(\s*\))?', btxt23):
                    s23 = bs + len(btxt23[:m23.start()].encode())
                    t23 = bs + len(btxt23[:m23.end()].encode())
                    edits.append((s23, t23, [Seg(f'(&mut self.{fld})' if m23.group(1) == 'write' else f'(&self.{fld})')]))
                    self._rw('R23')
        # R9
        if e['ret'] is not None and ret_name and (ensures or external_body):
            s, t = e['ret']
            edits.append((s, s, [Seg(f'({ret_name}: ')]))
            edits.append((t, t, [Seg(')')]))
            self._rw('R9')
        # contract
        csegs = [Seg('\n/*VXC*/\n')]
        clause_list = []

        def add_clauses(kind, items, indent='        '):
            if not items:
                return []
            segs = [Seg(f'{indent}{kind}\n')]
            for nm, text in items:
                text = LV(text)
                cid = f'{fid}.{kind}.{nm}'
                if cid in self.clauses:
                    raise ToolLimit(f'duplicate clause id {cid}')
                self.clauses[cid] = {'kind': kind, 'fn': fid, 'text': ' '.join(text.split())}
                clause_list.append(cid)
                segs.append(Seg(f'{indent}    '))
                segs.append(Seg(text.strip().rstrip(','), clause=cid, fn=fid))
                segs.append(Seg(',\n'))
            return segs
        csegs += add_clauses('requires', requires)
        csegs += add_clauses('recommends', recommends)
        csegs += add_clauses('ensures', ensures)
        csegs.append(Seg('/*VXCE*/'))
        if decreases:
            csegs.append(Seg(f'        decreases {decreases},\n'))
        edits.append((bs, bs, csegs))
        # loops
        for k, spec in (loops or {}).items():
            if k >= len(e['loops']):
                raise LostAnchor(f'{fn}: loop #{k} not found ({len(e["loops"])} loops)')
            L = e['loops'][k]
            lsegs = [Seg('\n')]
            inv = spec.get('invariant', [])
            kind = 'invariant'
            if spec.get('invariant_except_break'):
                kind = 'invariant_except_break'
            if inv:
                lsegs.append(Seg(f'            {kind}\n'))
                for nm, text in inv:
                    text = LV(text)
                    cid = f'{fid}.loop{k}.{nm}'
                    self.clauses[cid] = {'kind': 'invariant', 'fn': fid, 'text': ' '.join(text.split())}
                    clause_list.append(cid)
                    lsegs.append(Seg('                '))
                    lsegs.append(Seg(text.strip().rstrip(','), clause=cid, fn=fid))
                    lsegs.append(Seg(',\n'))
            if spec.get('ensures'):
                lsegs.append(Seg('            ensures\n'))
                for nm, text in spec['ensures']:
                    cid = f'{fid}.loop{k}.ens.{nm}'
                    self.clauses[cid] = {'kind': 'invariant', 'fn': fid, 'text': ' '.join(text.split())}
                    clause_list.append(cid)
                    lsegs.append(Seg('                '))
                    lsegs.append(Seg(text.strip().rstrip(','), clause=cid, fn=fid))
                    lsegs.append(Seg(',\n'))
            if spec.get('decreases'):
                lsegs.append(Seg(f'            decreases {spec["decreases"]},\n'))
            edits.append((L['body'][0], L['body'][0], lsegs))
            if spec.get('iter') and L['kind'] == 'for':
                edits.append((L['expr'][0], L['expr'][0], [Seg(spec['iter'] + ': ')]))
        # R16: guard-continue statements at the top level of a for-loop body (every for-loop of the function; Verus for-loops
        # do not support `continue`): `if C { continue; } REST` -> `if !(C) { REST }`, nested for several guards
        for k, L in enumerate(e['loops']):
            if L['kind'] != 'for':
                continue
            lb0, lb1 = L['body']
            btxt = src[lb0:lb1].decode()
            # log macro statements (removed by R1 anyway) and comments inside a guard block do not count: blank them out,
            # keeping every position
            bb = bytearray(src[lb0:lb1])
            for m16m in e['macros']:
                if m16m['name'] in LOG_MACROS and lb0 <= m16m['span'][0] and m16m['span'][1] <= lb1:
                    a16, b16 = m16m['span'][0] - lb0, m16m['span'][1] - lb0
                    while b16 < len(bb) and bb[b16:b16 + 1] in (b' ', b';'):
                        b16 += 1
                    for q16 in range(a16, b16):
                        if bb[q16:q16 + 1] != b'\n':
                            bb[q16:q16 + 1] = b' '
            btxt_blank = bb.decode()
            if len(btxt_blank) == len(btxt):
                btxt = btxt_blank
            found = []
            CM = r'(?:\s*//[^\n]*\n)*\s*'
            for m16 in re.finditer(r'(?<![A-Za-z0-9_])if\s+([^{};]+?)\s*\{' + CM + r'continue\s*;?' + CM + r'\}', btxt):
                depth = btxt[:m16.start()].count('{') - btxt[:m16.start()].count('}')
                if depth == 1 and not re.search(r'else\s*$', btxt[:m16.start()]):
                    found.append(m16)
            # `let PAT = E else { continue; };` -> `if let PAT = E { REST }`
            for m16 in re.finditer(r'(?<![A-Za-z0-9_])let\s+([^=;{}]+?)\s*=\s*([^;{}]+?)\s*else\s*\{' + CM + r'continue\s*;?' + CM + r'\}\s*;', btxt):
                depth = btxt[:m16.start()].count('{') - btxt[:m16.start()].count('}')
                if depth == 1:
                    found.append(m16)
            found.sort(key=lambda m: m.start())
            if not found:
                if k in continue_guards:
                    raise LostAnchor(f'{fn}: loop #{k} has no top-level `if C {{ continue; }}` (R16)')
                continue
            # only sound as a pure nesting if no other `continue` targets this loop from deeper inside
            inner_cont = len(re.findall(r'\bcontinue\b', btxt)) - len(found)
            nested_loops = [L2 for L2 in e['loops'] if L2 is not L and lb0 <= L2['span'][0] and L2['span'][1] <= lb1]
            if inner_cont > 0 and not nested_loops:
                continue        # leave it: Verus will report the unsupported construct (inconclusive)
            for m16 in found:
                s16 = lb0 + len(btxt[:m16.start()].encode())
                e16 = lb0 + len(btxt[:m16.end()].encode())
                if m16.group(0).startswith('let'):
                    edits.append((s16, e16, [Seg(f'if let {m16.group(1).strip()} = {m16.group(2).strip()} {{')]))
                else:
                    edits.append((s16, e16, [Seg(f'if !({m16.group(1).strip()}) {{')]))
                self._rw('R16')
            edits.append((lb1 - 1, lb1 - 1, [Seg('} ' * len(found))]))
        # R3
        for k in copied_loops:
            L = e['loops'][k]
            s0, t0 = L['expr']
            ex = src[s0:t0].decode()
            m3 = re.search(r'\s*\.copied\(\)\s*$', ex)
            if L['kind'] != 'for' or not m3:
                raise ToolLimit(f'{fn}: R3 wants `for PAT in E.iter().copied()` at loop {k}')
            pat = src[L['pat'][0]:L['pat'][1]].decode()
            edits.append((L['pat'][0], L['pat'][1], [Seg(f'vx_c{k}')]))
            edits.append((s0 + len(ex[:m3.start()].encode()), t0, []))
            edits.append((L['body'][0] + 1, L['body'][0] + 1, [Seg(f' let {pat} = *vx_c{k}; ')]))
            self._rw('R3')
        edits += self._inline_edits(src, bs, be, e.get('impl'))
        # R3 (second form): the loop iterates references where the source iterates copies of them (after an accessor that is
        # `.keys().copied()` has been inlined by a tagged substitution): bind the pattern by an explicit deref
        for k in deref_loops:
            L = e['loops'][k]
            if L['kind'] != 'for':
                raise ToolLimit(f'{fn}: deref_loops wants a for-loop at {k}')
            pat = src[L['pat'][0]:L['pat'][1]].decode()
            edits.append((L['pat'][0], L['pat'][1], [Seg(f'vx_c{k}')]))
            edits.append((L['body'][0] + 1, L['body'][0] + 1, [Seg(f' let {pat} = *vx_c{k}; ')]))
            self._rw('R3')
        # R8
        for k in hash_loops:
            L = e['loops'][k]
            s, t = L['expr']
            ex = src[s:t].decode()
            if ex.startswith('&mut '):
                raise ToolLimit(f'{fn}: R8 on &mut map')
            if re.search(r'\.\s*iter\s*\(\s*\)\s*$', ex):
                continue   # already in the explicit form
            if ex.startswith('&'):
                ex = ex[1:].strip()
            edits.append((s, t, [Seg(ex + '.iter()')]))
            self._rw('R8')
        # R19: `for (K, V) in MAP.clone()` (by-value iteration of a cloned HashMap; vstd has no model of hash_map::IntoIter) ->
        # `for (vx_k, vx_v) in MAP.iter()` with `let K = vx_k.clone(); let V = vx_v.clone();` first in the body
        for k in clone_loops:
            L = e['loops'][k]
            s, t = L['expr']
            ex = src[s:t].decode()
            m19 = re.search(r'\s*\.clone\(\)\s*$', ex)
            pat = src[L['pat'][0]:L['pat'][1]].decode().strip()
            mp = re.fullmatch(r'\(\s*([A-Za-z_][A-Za-z0-9_]*)\s*,\s*([A-Za-z_][A-Za-z0-9_]*)\s*,?\s*\)', pat)
            if L['kind'] != 'for' or not mp or ex.lstrip().startswith('&') or ex.rstrip().endswith(')') and not m19:
                raise ToolLimit(f'{fn}: R19 wants `for (K, V) in MAP.clone()` or `for (K, V) in MAP` (a place expression) at loop {k}')
            edits.append((L['pat'][0], L['pat'][1], [Seg(f'(vx_k{k}, vx_v{k})')]))
            edits.append(((s + len(ex[:m19.start()].encode())) if m19 else t, t, [Seg('.iter()')]))
            edits.append((L['body'][0] + 1, L['body'][0] + 1, [Seg(f' let {mp.group(1)} = vx_k{k}.clone(); let {mp.group(2)} = vx_v{k}.clone(); ')]))
            self._rw('R19')
        # R21: closure with the single wildcard parameter `|_|` -> `|_vx_w|` (Verus: only variables as closure parameters)
        btxt21 = src[bs:be].decode()
        for m21 in re.finditer(r'\|\s*_\s*\|', btxt21):
            s21 = bs + len(btxt21[:m21.start()].encode())
            edits.append((s21, s21 + len(m21.group(0).encode()), [Seg('|_vx_w|')]))
            self._rw('R21')
        # R20: inline const block `const { E }` in expression position -> `E` (Verus: "const block expressions" unsupported)
        btxt20 = src[bs:be].decode()
        for m20 in re.finditer(r'(?<![A-Za-z0-9_])const\s*\{', btxt20):
            depth20, q = 0, m20.end() - 1
            while q < len(btxt20):
                if btxt20[q] == '{':
                    depth20 += 1
                elif btxt20[q] == '}':
                    depth20 -= 1
                    if depth20 == 0:
                        break
                q += 1
            if q >= len(btxt20):
                raise ToolLimit(f'{fn}: unbalanced const block (R20)')
            s20 = bs + len(btxt20[:m20.start()].encode())
            o20 = bs + len(btxt20[:m20.end()].encode())
            c20 = bs + len(btxt20[:q].encode())
            edits.append((s20, o20, [Seg('(')]))
            edits.append((c20, c20 + 1, [Seg(')')]))
            self._rw('R20')
        # R19 (values variant): `for V in MAP.into_values()` -> `for vx_v in MAP.values()` with `let V = vx_v.clone();` first in the body
        for k in into_values_loops:
            L = e['loops'][k]
            s, t = L['expr']
            ex = src[s:t].decode()
            m19 = re.search(r'\s*\.into_values\(\)\s*$', ex)
            pat = src[L['pat'][0]:L['pat'][1]].decode().strip()
            if L['kind'] != 'for' or not m19 or not re.fullmatch(r'[A-Za-z_][A-Za-z0-9_]*', pat):
                raise ToolLimit(f'{fn}: R19 wants `for V in MAP.into_values()` at loop {k}')
            edits.append((L['pat'][0], L['pat'][1], [Seg(f'vx_v{k}')]))
            edits.append((s + len(ex[:m19.start()].encode()), t, [Seg('.values()')]))
            edits.append((L['body'][0] + 1, L['body'][0] + 1, [Seg(f' let {pat} = vx_v{k}.clone(); ')]))
            self._rw('R19')
        # R28: `for V in MAP.values()` -> `for (vx_kN, V) in MAP.iter()` (the values of a map are the second components of its entries,
        # in the same order; vstd specifies hash_map::Iter but says nothing about the elements of hash_map::Values)
        for k in values_loops:
            if k >= len(e['loops']):
                raise LostAnchor(f'{fn}: loop #{k} not found ({len(e["loops"])} loops)')
            L = e['loops'][k]
            s, t = L['expr']
            ex = src[s:t].decode()
            m28 = re.search(r'\s*\.values\(\)\s*$', ex)
            pat = src[L['pat'][0]:L['pat'][1]].decode().strip()
            if L['kind'] != 'for' or not re.fullmatch(r'[A-Za-z_][A-Za-z0-9_]*', pat):
                raise ToolLimit(f'{fn}: R28 wants `for V in MAP.values()` at loop {k}')
            if not m28:
                # already spelled `.iter()` with a pair pattern, or something else: leave it alone
                continue
            edits.append((L['pat'][0], L['pat'][1], [Seg(f'(vx_k{k}, {pat})')]))
            edits.append((s + len(ex[:m28.start()].encode()), t, [Seg('.iter()')]))
            self._rw('R28')
        # R1 / R2
        for m in e['macros']:
            nm = m['name']
            s, t = m['span']
            if nm in keep_macros:
                continue
            if nm in LOG_MACROS:
                if not m['stmt']:
                    # expression position (e.g. match arm): replace by unit
                    edits.append((s, t, [Seg('()')]))
                else:
                    edits.append((s, t, []))
                self._rw('R1')
            elif nm in ('unreachable', 'panic') and _panic_has_message(src[s:t].decode()):
                # R1b: the message of a panic is diagnostic text; what matters is that the arm is an obligation "never reached"
                edits.append((s, t, [Seg('unreachable!()')]))
                self._rw('R1b')
            elif nm in ('log_enabled', 'log::log_enabled'):
                edits.append((s, t, [Seg('vx_log_enabled()')]))
                self._rw('R1')
            elif nm == 'format' and fmt == 'concat':
                # R2c: format! whose template has only `{}` / `{ident}` placeholders -> concatenation of its literal pieces and
                # the Display strings of its arguments (prelude.format_concat declares vx_cat / vx_lit / VxS::vx_s)
                rep = _format_concat(src[s:t].decode())
                if rep is None:
                    edits.append((s, t, [Seg('vx_string()')]))
                    self._rw('R2')
                else:
                    edits.append((s, t, [Seg(rep)]))
                    self._rw('R2c')
            elif nm == 'format' and fmt:
                edits.append((s, t, [Seg('vx_string()')]))
                self._rw('R2')
        # R5
        if let_chains:
            for lc in e['letchains']:
                if lc['has_else']:
                    raise ToolLimit(f'{fn}: let-chain with else (R5 does not apply)')
                cs, ct = lc['cond']
                cond = src[cs:ct].decode()
                parts = [p.strip() for p in re.split(r'&&', cond)]
                # only handle "let P = E && C..." with the let first
                if cond.count('(') != cond.count(')') or any(p.count('(') != p.count(')') for p in parts):
                    raise ToolLimit(f'{fn}: let-chain shape not supported by R5: {cond}')
                # `if A && let P = E && C { T }` (no else) == `if A { if let P = E { if C { T } } }`
                ts, tt = lc['then']
                edits.append((cs, ct, [Seg(parts[0])]))
                edits.append((ts + 1, ts + 1, [Seg(''.join(' if ' + p + ' {' for p in parts[1:]))]))
                edits.append((tt - 1, tt - 1, [Seg('} ' * len(parts[1:]))]))
                self._rw('R5')
        # R6 on match arms: arms whose pattern names a variant that was dropped from the enum are dropped with it;
        # the remainder of the enum is the single variant VxOther, whose arm is `unreachable!()` (so the contract must
        # exclude it: the verified statement is about the kept variants only)
        dropped_arm_spans = []
        if keep_arms:
            for M in e['matches']:
                hit = False
                for enum_name, keep in keep_arms.items():
                    arms_of_enum = [arm for arm in M['arms'] if any(pp.split('::')[-2:-1] == [enum_name] for pp in arm['paths'])]
                    if not arms_of_enum:
                        continue
                    if any(dropped_arm_spans and ds[0] <= M['span'][0] and M['span'][1] <= ds[1] for ds in dropped_arm_spans):
                        continue
                    if enum_name not in self.enum_variants:
                        raise ToolLimit(f'{fn}: keep_arms for {enum_name}: extract the enum first')
                    present, has_other = self.enum_variants[enum_name]
                    n = 0
                    for arm in arms_of_enum:
                        vs = [pp.split('::')[-1] for pp in arm['paths'] if pp.split('::')[-2:-1] == [enum_name]]
                        if all(v not in keep for v in vs):
                            if all(v in present for v in vs):
                                # variant still exists: keep the pattern, the arm body becomes unreachable!() (the contract must exclude it)
                                edits.append((arm['body'][0], arm['body'][1], [Seg('{ unreachable!() }')]))
                                dropped_arm_spans.append(tuple(arm['body']))
                            else:
                                edits.append((arm['span'][0], arm['span'][1], []))
                                dropped_arm_spans.append(tuple(arm['span']))
                            n += 1
                        elif any(v not in keep for v in vs):
                            raise ToolLimit(f'{fn}: or-pattern mixes kept and dropped variants of {enum_name}')
                    if n:
                        self._rw('R6', n)
                        if has_other:
                            edits.append((M['brace_close'], M['brace_close'], [Seg(f'{enum_name}::VxOther => {{ unreachable!() }}\n')]))
            # edits that lie inside a dropped arm must go
            def inside(x):
                return any(ds[0] <= x[0] and x[1] <= ds[1] and (x[0], x[1]) != ds for ds in dropped_arm_spans)
            edits = [x for x in edits if not inside(x)]
        # R26: `E.iter_mut().for_each(F)` -> `vx_for_each_mut(&mut E, F)` (every occurrence; E a place expression of names and fields).
        # for_each_mut may map a place (`self.added`) to the contract of the closure handed to for_each at that place, so that
        # the contract follows the place and not the ordinal of the closure
        if for_each_mut:
            closures = dict(closures or {})
            whole0 = src[a:b].decode()
            for m26 in re.finditer(r'\b([A-Za-z_][A-Za-z0-9_]*(?:\s*\.\s*[A-Za-z_0-9]+)*)\s*\.\s*iter_mut\(\)\s*\.\s*for_each\(\s*', whole0):
                s26 = len(whole0[:m26.start()].encode()) + a
                e26 = len(whole0[:m26.end()].encode()) + a
                place = ''.join(m26.group(1).split())
                edits.append((s26, e26, [Seg(f'vx_for_each_mut(&mut {place}, ')]))
                self._rw('R26')
                if isinstance(for_each_mut, dict) and place in for_each_mut:
                    hit = [i for i, C0 in enumerate(e['closures']) if C0['span'][0] == e26]
                    if len(hit) == 1:
                        closures[hit[0]] = dict(for_each_mut[place], id='_' + re.sub(r'\W+', '_', place))
        # R27: `M.iter().any(F)` -> `vx_map_any(&M, F)`; map_any maps a place (`self.children`) to the contract of the closure handed to any()
        if map_any:
            closures = dict(closures or {})
            whole0 = src[a:b].decode()
            for m27 in re.finditer(r'\b([A-Za-z_][A-Za-z0-9_]*(?:\s*\.\s*[A-Za-z_0-9]+)*)\s*\.\s*iter\(\)\s*\.\s*any\(\s*', whole0):
                place = ''.join(m27.group(1).split())
                if place not in map_any:
                    continue
                s27 = len(whole0[:m27.start()].encode()) + a
                e27 = len(whole0[:m27.end()].encode()) + a
                edits.append((s27, e27, [Seg(f'vx_map_any(&{place}, ')]))
                self._rw('R27')
                hit = [i for i, C0 in enumerate(e['closures']) if C0['span'][0] == e27]
                if len(hit) == 1:
                    C0 = e['closures'][hit[0]]
                    pat = src[C0['span'][0]:C0['body'][0]].decode().strip()
                    mp = re.fullmatch(r'\|\s*(\(.*\))\s*\|', pat, re.S)
                    spec27 = dict(map_any[place], id='_' + re.sub(r'\W+', '_', place) + '_any')
                    if mp:
                        spec27['prologue'] = f'let {mp.group(1)} = vx_p; '
                    closures[hit[0]] = spec27
        # closure contracts: the k-th closure gets typed parameters, a named result and an ensures clause (annotation only;
        # the closure body is untouched)
        for k, spec in (closures or {}).items():
            every = isinstance(k, str) and k.endswith('*')
            if every:
                k = k[:-1]
            kid = k if not isinstance(k, str) else '_' + re.sub(r'\W+', '_', k).strip('_')
            if isinstance(spec, dict) and spec.get('id'):
                kid = spec['id']
            if isinstance(k, str):
                # a closure named by its parameter list as written (`|m|`): robust against closures added before it;
                # `|m|*`: every closure with that parameter list gets the contract (one obligation id for all of them)
                hits = [i for i, C0 in enumerate(e['closures']) if ''.join(src[C0['span'][0]:C0['body'][0]].decode().split()) == ''.join(k.split())]
                if every:
                    ks = hits
                else:
                    if len(hits) != 1:
                        raise LostAnchor(f'{fn}: closure {k} matches {len(hits)} closures')
                    ks = [hits[0]]
            else:
                ks = [k]
            cid = f'{fid}.closure{kid}.ensures'
            if ks:
                self.clauses[cid] = {'kind': 'ensures', 'fn': fid, 'text': ' '.join(spec['ensures'].split())}
                clause_list.append(cid)
            for k in ks:
                if k >= len(e['closures']):
                    raise LostAnchor(f'{fn}: closure #{k} not found')
                C = e['closures'][k]
                cs, ct = C['span']
                cbs, cbt = C['body']
                is_block = src[cbs:cbs + 1] == b'{'
                pro = spec.get('prologue', '') if isinstance(spec, dict) else ''
                if pro and is_block:
                    # the closure body is a block: the prologue goes right after its opening brace
                    edits.append((cs, cbs + 1, [Seg(spec['header'] + ' ensures '), Seg(spec['ensures'], clause=cid, fn=fid), Seg(' { ' + pro)]))
                else:
                    edits.append((cs, cbs, [Seg(spec['header'] + ' ensures '), Seg(spec['ensures'], clause=cid, fn=fid), Seg(' ' if is_block else ' { ' + pro)]))
                if not is_block:
                    edits.append((cbt, cbt, [Seg(' }')]))
        # R13: constructor used as a function value -> eta-expanded closure (every occurrence)
        if eta:
            whole0 = src[a:b].decode()
            for ctor in eta:
                for m13 in re.finditer(r'\b(map_err|map|and_then|ok_or_else)\(\s*' + re.escape(ctor) + r'\s*\)', whole0):
                    s13 = len(whole0[:m13.start()].encode()) + a
                    e13 = len(whole0[:m13.end()].encode()) + a
                    edits.append((s13, e13, [Seg(f'{m13.group(1)}(|vx_e| {ctor}(vx_e))')]))
                    self._rw('R13')
        # literal substitutions (tagged rewrites)
        body_off = a
        whole = src[a:b].decode()
        for sb in subst:
            old, new, tag = sb[0], sb[1], sb[2]
            n = whole.count(old)
            if n == 0 and len(sb) > 3 and sb[3] == 'optional':
                # an optional substitution: the text it stands in for is gone; the function is verified as written
                continue
            if n != 1:
                raise LostAnchor(f'{fn}: subst anchor {old!r} matches {n} times')
            i = len(whole[:whole.index(old)].encode()) + a
            j = i + len(old.encode())
            # a tagged substitution replaces whatever automatic rewrite (R1/R2 on a macro) lies inside its span
            edits = [x for x in edits if not (i <= x[0] and x[1] <= j and x[0] < x[1])]
            edits.append((i, j, [Seg(new)]))
            if tag:
                self._rw(tag)
        # ghost blocks
        gi = 0
        for anchor, text in ghost:
            text = LV(text)
            gi += 1
            kind = anchor[0]
            if kind == 'body_start':
                pos = bs + 1
            elif kind == 'body_end':
                pos = be - 1
            elif kind == 'loop_start':
                pos = e['loops'][anchor[1]]['body'][0] + 1
            elif kind == 'loop_end':
                pos = e['loops'][anchor[1]]['body'][1] - 1
            elif kind == 'after_loop':
                pos = e['loops'][anchor[1]]['span'][1]
            elif kind == 'before_loop':
                pos = e['loops'][anchor[1]]['span'][0]
            elif kind in ('before', 'after'):
                lit = anchor[1]
                occ = anchor[2] if len(anchor) > 2 else 0
                idxs = [m.start() for m in re.finditer(re.escape(lit), whole)]
                if occ >= len(idxs):
                    raise LostAnchor(f'{fn}: ghost anchor {lit!r} occurrence {occ} not found')
                if len(anchor) <= 2 and len(idxs) != 1:
                    raise LostAnchor(f'{fn}: ghost anchor {lit!r} matches {len(idxs)} times')
                ci = idxs[occ] + (len(lit) if kind == 'after' else 0)
                pos = len(whole[:ci].encode()) + a
            else:
                raise ToolLimit(f'unknown ghost anchor {anchor}')
            # asserts inside ghost text may be named:  /*@name*/ assert(...)
            gsegs = [Seg('\n')]
            parts = re.split(r'(/\*@[A-Za-z0-9_.]+\*/)', text)
            cur = None
            for p in parts:
                m = re.fullmatch(r'/\*@([A-Za-z0-9_.]+)\*/', p)
                if m:
                    cur = m.group(1)
                    continue
                if cur:
                    # the next statement (up to first ';') carries the id
                    j = p.find(';')
                    j = len(p) if j < 0 else j + 1
                    cid = f'{fid}.assert.{cur}'
                    self.clauses[cid] = {'kind': 'assert', 'fn': fid, 'text': ' '.join(p[:j].split())}
                    clause_list.append(cid)
                    gsegs.append(Seg(p[:j], clause=cid, fn=fid))
                    gsegs.append(Seg(p[j:]))
                    cur = None
                else:
                    gsegs.append(Seg(p))
            gsegs.append(Seg('\n'))
            edits.append((pos, pos, gsegs))
        if external_body and e['inputs']:
            s0i, t0i = e['inputs'][0]
            if src[s0i:t0i].decode().replace(' ', '') == 'mutself':
                edits.append((s0i, t0i, [Seg('self')]))     # binding mode of the receiver is not part of the signature
        if external_body:
            # signature + contract only; body replaced (an ASSUMPTION about this krill fn)
            edits = [x for x in edits if x[1] <= bs]
            edits.append((bs + 1, be - 1, [Seg(' unimplemented!() ')]))
        # an automatic rewrite that lies strictly inside the span another rewrite replaces (a log macro inside a guard block that
        # R16 turns into `if !(C) {`) goes with it
        repl = [x for x in edits if x[1] > x[0]]
        edits = [x for x in edits if not any(y is not x and y[0] <= x[0] and x[1] <= y[1] and (y[1] - y[0]) > (x[1] - x[0]) and y[0] < x[1] and x[0] < y[1] and x[1] > x[0] for y in repl)]
        segs = _apply_edits(src, a, b, edits)
        if external_body:
            segs.insert(0, Seg('#[verifier::external_body]\n'))
        for at in attrs:
            segs.insert(0, Seg(at + '\n'))
        segs.insert(0, Seg(f'/*VXFN {fid}*/ '))
        segs.append(Seg(f' /*VXEND {fid}*/\n'))
        for s in segs:
            if s.fn is None:
                s.fn = fid
        # implicit safety obligation
        if not external_body:
            cid = f'{fid}.safety'
            self.clauses[cid] = {'kind': 'safety', 'fn': fid,
                                 'text': 'implicit: callee preconditions, arithmetic overflow, index bounds, unwrap, panic!/unreachable! arms unreachable'}
            clause_list.append(cid)
            self.functions.append({'id': fid, 'path': path, 'impl': impl, 'fn': fn, 'clauses': clause_list,
                                   'loops': len(e['loops']), 'trait': (trait is not None) and not as_inherent})
        else:
            self.notes.append(f'assumed (external_body) contract on krill fn {fid}')
        self.extracted.append((path, f'fn {(impl + "::") if impl else ""}{fn}' + (' [signature only, body assumed]' if external_body else '')))
        return segs

    def _ghost_segs(self, text, fid, clause_list):
        """ghost text -> [Seg]; `/*@name*/ assert(...)` steps become obligations <fid>.assert.<name>"""
        gsegs = []
        parts = re.split(r'(/\*@[A-Za-z0-9_.]+\*/)', text)
        cur = None
        for p in parts:
            m = re.fullmatch(r'/\*@([A-Za-z0-9_.]+)\*/', p)
            if m:
                cur = m.group(1)
                continue
            if cur:
                j = p.find(';')
                j = len(p) if j < 0 else j + 1
                cid = f'{fid}.assert.{cur}'
                self.clauses[cid] = {'kind': 'assert', 'fn': fid, 'text': ' '.join(p[:j].split())}
                clause_list.append(cid)
                gsegs.append(Seg(p[:j], clause=cid, fn=fid))
                gsegs.append(Seg(p[j:]))
                cur = None
            else:
                gsegs.append(Seg(p))
        return gsegs

    def _nested_closure_edits(self, src, e, lo, hi, specs, fid, clause_list, fn, strict_inside=False):
        """contracts for the closures that lie inside [lo, hi) (numbered in source order among those), as in fn()"""
        edits = []
        nested = [c2 for c2 in e['closures'] if lo <= c2['span'][0] and c2['span'][1] <= hi and not (strict_inside and c2['body'][0] == lo)]
        for kk, spec in (specs or {}).items():
            if kk >= len(nested):
                raise LostAnchor(f'{fn}: nested closure #{kk} not found')
            C2 = nested[kk]
            cs2, ct2 = C2['span']
            b2s, b2t = C2['body']
            cid = f'{fid}.closure{kk}.ensures'
            self.clauses[cid] = {'kind': 'ensures', 'fn': fid, 'text': ' '.join(spec['ensures'].split())}
            clause_list.append(cid)
            is_block = src[b2s:b2s + 1] == b'{'
            edits.append((cs2, b2s, [Seg(spec['header'] + ' ensures '), Seg(spec['ensures'], clause=cid, fn=fid), Seg(' ' if is_block else ' { ')]))
            if not is_block:
                edits.append((b2t, b2t, [Seg(' }')]))
        return edits

    def _inline_edits(self, src, lo, hi, impl):
        """R18 edits for calls to AUTO_INLINE helpers of `impl` inside [lo, hi)"""
        edits = []
        if not impl:
            return edits
        txt = src[lo:hi].decode()
        for (st, nm), cand in AUTO_INLINE.items():
            if st != impl.split('<')[0].strip():
                continue
            pat = (r'\bself\s*\.\s*' if cand['has_self'] else r'\b(?:Self|' + re.escape(st) + r')\s*::\s*') + re.escape(nm) + r'\s*\('
            for m in re.finditer(pat, txt):
                close = _match_paren(txt, m.end() - 1)
                if close < 0:
                    continue
                args = _split_args(txt[m.end():close - 1])
                if len(args) != len(cand['params']):
                    continue
                hsrc, _ = _load(cand['path'])
                he = cand['e']
                hb0, hb1 = he['body']
                body_segs = _apply_edits(hsrc, hb0, hb1, self._inner_edits(hsrc, he, hb0, hb1, nm, inline=False))
                body = ''.join(sg.text for sg in body_segs)
                s1_extra = 0
                if cand.get('try_only'):
                    mq = re.match(r'\s*\?', txt[close:])
                    if not mq:
                        raise ToolLimit(f'{nm}: helper with `return` is only inlined at `{nm}(..)?` call sites (R18)')
                    s1_extra = len(mq.group(0).encode())
                    body = re.sub(r'Ok\(\(\)\)(\s*\}\s*)$', r'\1', body)
                binds = ' '.join((f'let {pn} = {a};' if '::' in pt or 'impl ' in pt else f'let {pn}: {pt} = {a};') for (pn, pt), a in zip(cand['params'], args))
                s0 = lo + len(txt[:m.start()].encode())
                s1 = lo + len(txt[:close].encode()) + s1_extra
                edits.append((s0, s1, [Seg('({ ' + binds + ' ' + body + ' })')]))
                self._rw('R18')
                if f'inlined helper {st}::{nm} (R18)' not in self.notes:
                    self.notes.append(f'inlined helper {st}::{nm} (R18)')
        return edits

    def _inner_edits(self, src, e, lo, hi, fn, inline=True):
        """R1 / R2 / R5 for the part [lo, hi) of a function, exactly as fn() applies them to a whole body"""
        edits = []
        for m in e['macros']:
            ms, mt = m['span']
            if not (lo <= ms and mt <= hi):
                continue
            nm = m['name']
            if nm in LOG_MACROS:
                edits.append((ms, mt, [Seg('()')] if not m['stmt'] else []))
                self._rw('R1')
            elif nm in ('unreachable', 'panic') and _panic_has_message(src[ms:mt].decode()):
                edits.append((ms, mt, [Seg('unreachable!()')]))
                self._rw('R1b')
            elif nm in ('log_enabled', 'log::log_enabled'):
                edits.append((ms, mt, [Seg('vx_log_enabled()')]))
                self._rw('R1')
            elif nm == 'format':
                edits.append((ms, mt, [Seg('vx_string()')]))
                self._rw('R2')
        for lc in e['letchains']:
            cs, ct = lc['cond']
            if not (lo <= cs and ct <= hi):
                continue
            if lc['has_else']:
                raise ToolLimit(f'{fn}: let-chain with else (R5 does not apply)')
            cond = src[cs:ct].decode()
            parts = [pp.strip() for pp in re.split(r'&&', cond)]
            if cond.count('(') != cond.count(')') or any(pp.count('(') != pp.count(')') for pp in parts):
                raise ToolLimit(f'{fn}: let-chain shape not supported by R5: {cond}')
            ts, tt = lc['then']
            edits.append((cs, ct, [Seg(parts[0])]))
            edits.append((ts + 1, ts + 1, [Seg(''.join(' if ' + pp + ' {' for pp in parts[1:]))]))
            edits.append((tt - 1, tt - 1, [Seg('} ' * len(parts[1:]))]))
            self._rw('R5')
        # R25: `while let PAT = EXPR { BODY }` -> `loop { match EXPR { PAT => { BODY } _ => { break; } } }` (Verus has no while-let)
        for L in e['loops']:
            if L['kind'] != 'while' or not (lo <= L['span'][0] and L['span'][1] <= hi):
                continue
            cs, ct = L['cond']
            cond = src[cs:ct].decode()
            m25 = re.match(r'let\s+(.*?)\s*=\s*(?![=>])(.*)$', cond, re.S)
            if not m25:
                continue
            pat25, expr25 = m25.group(1), m25.group(2)
            bs25, bt25 = L['body']
            edits.append((L['span'][0], ct, [Seg('loop ')]))
            edits.append((bs25 + 1, bs25 + 1, [Seg(f' match {expr25} {{ {pat25} => {{ ')]))
            edits.append((bt25 - 1, bt25 - 1, [Seg(' } _ => { break; } } ')]))
            self._rw('R25')
        if inline:
            edits += self._inline_edits(src, lo, hi, e.get('impl'))
        return edits

    def loop_fn(self, path, impl, fn, k, name, sig, requires=(), ensures=(), invariant=(), iter=None, trait=None,
                ghost_before='', ghost_loop_start='', ghost_loop_end='', ghost_after='', tail='', body_only=False, inner_closures=None, pat_names=None):
        """R17: the k-th loop of a krill fn, verbatim, as the body of a standalone fn `name sig`.
        pat_names: the names the loop pattern binds, in order, as the unit's texts (sig, contracts, ghost) use them; if the source
        now binds other names at the same positions (a renamed loop variable), the texts follow the rename.
        body_only: only the loop BODY block is lifted (one iteration); mutable locals the body assigns are declared by
        `ghost_before` (e.g. `let mut required = required0;`) and returned by `tail` -- both supplied by the unit."""
        kw = {'fn': fn}
        if impl is not None:
            kw['impl'] = impl
        if trait is not None:
            kw['trait'] = trait
        src, e = find(path, 'fn', **kw)
        if k >= len(e['loops']):
            raise LostAnchor(f'{fn}: loop #{k} not found ({len(e["loops"])} loops)')
        L = e['loops'][k]
        ls, lt = L['span']
        if pat_names and L['kind'] == 'for':
            now = re.findall(r'[A-Za-z_][A-Za-z0-9_]*', re.sub(r'\b(mut|ref)\b', ' ', src[L['pat'][0]:L['pat'][1]].decode()))
            if len(now) == len(pat_names):
                ren = {o: n for o, n in zip(pat_names, now) if o != n}
                if ren:
                    def _rn(t):
                        for o, n in ren.items():
                            t = re.sub(r'(?<![A-Za-z0-9_.])' + re.escape(o) + r'(?![A-Za-z0-9_])', n, t)
                        return t
                    sig = _rn(sig)
                    requires = [(a, _rn(b)) for a, b in requires]
                    ensures = [(a, _rn(b)) for a, b in ensures]
                    invariant = [(a, _rn(b)) for a, b in invariant]
                    ghost_before, ghost_loop_start, ghost_loop_end, ghost_after, tail = (_rn(x) for x in (ghost_before, ghost_loop_start, ghost_loop_end, ghost_after, tail))
        fid = f'{self.prop}.{self.name}.{(impl + "::") if impl else ""}{fn}.loop{k}'
        clause_list = []
        segs = [Seg(f'/*VXFN {fid}*/ pub fn {name}{sig}\n/*VXC*/\n')]
        for kind, items in (('requires', requires), ('ensures', ensures)):
            if not items:
                continue
            segs.append(Seg(f'        {kind}\n'))
            for nm, text in items:
                cid = f'{fid}.{kind}.{nm}'
                self.clauses[cid] = {'kind': kind, 'fn': fid, 'text': ' '.join(text.split())}
                clause_list.append(cid)
                segs.append(Seg('            '))
                segs.append(Seg(text.strip().rstrip(','), clause=cid, fn=fid))
                segs.append(Seg(',\n'))
        segs.append(Seg('/*VXCE*/{\n'))
        segs += self._ghost_segs(ghost_before, fid, clause_list)
        if body_only:
            bs_, bt_ = L['body']
            # a `continue` of THIS loop ends the iteration: in the lifted body that is `return <tail>` (not inside nested loops)
            cont_edits = []
            btxt_c = src[bs_:bt_].decode()
            nested = [L2['span'] for L2 in e['loops'] if L2 is not L and bs_ <= L2['span'][0] and L2['span'][1] <= bt_]
            for mc in re.finditer(r'(?<![A-Za-z0-9_])continue(?![A-Za-z0-9_])', btxt_c):
                pc = bs_ + len(btxt_c[:mc.start()].encode())
                if any(n0 <= pc < n1 for n0, n1 in nested):
                    continue
                # skip occurrences inside comments
                line_start = btxt_c.rfind('\n', 0, mc.start()) + 1
                if '//' in btxt_c[line_start:mc.start()]:
                    continue
                cont_edits.append((pc, pc + len('continue'), [Seg('return ' + tail.strip().rstrip(';'))]))
                self._rw('R16')
            segs += _apply_edits(src, bs_, bt_, cont_edits + self._inner_edits(src, e, bs_, bt_, fn) + self._nested_closure_edits(src, e, bs_, bt_, inner_closures, fid, clause_list, fn))
            segs.append(Seg('\n'))
            segs += self._ghost_segs(ghost_after, fid, clause_list)
            segs.append(Seg(tail + '\n}'))
            segs.append(Seg(f' /*VXEND {fid}*/\n'))
            for sg in segs:
                if sg.fn is None:
                    sg.fn = fid
            cid = f'{fid}.safety'
            self.clauses[cid] = {'kind': 'safety', 'fn': fid, 'text': 'implicit: callee preconditions, arithmetic overflow, index bounds, unwrap, panic!/unreachable! arms unreachable'}
            clause_list.append(cid)
            self.functions.append({'id': fid, 'path': path, 'impl': impl, 'fn': name, 'clauses': clause_list, 'loops': 0, 'trait': False})
            self._rw('R17')
            self.extracted.append((path, f'body of loop #{k} of fn {(impl + "::") if impl else ""}{fn} [one iteration]'))
            return segs
        edits = self._inner_edits(src, e, ls, lt, fn)
        lsegs = [Seg('\n')]
        if invariant:
            lsegs.append(Seg('            invariant\n'))
            for nm, text in invariant:
                cid = f'{fid}.inv.{nm}'
                self.clauses[cid] = {'kind': 'invariant', 'fn': fid, 'text': ' '.join(text.split())}
                clause_list.append(cid)
                lsegs.append(Seg('                '))
                lsegs.append(Seg(text.strip().rstrip(','), clause=cid, fn=fid))
                lsegs.append(Seg(',\n'))
        edits.append((L['body'][0], L['body'][0], lsegs))
        if iter and L['kind'] == 'for':
            edits.append((L['expr'][0], L['expr'][0], [Seg(iter + ': ')]))
        deref_bind = ''
        if L['kind'] == 'for':
            pat = src[L['pat'][0]:L['pat'][1]].decode().strip()
            if pat.startswith('&') and not pat.startswith('&mut'):
                # R3: `for &x in E` (reference pattern, not supported by Verus)
                edits.append((L['pat'][0], L['pat'][1], [Seg(f'vx_c{k}')]))
                deref_bind = f' let {pat[1:].strip()} = *vx_c{k}; '
                self._rw('R3')
        if deref_bind or ghost_loop_start:
            edits.append((L['body'][0] + 1, L['body'][0] + 1, [Seg(deref_bind + '\n')] + self._ghost_segs(ghost_loop_start, fid, clause_list) + [Seg('\n')]))
        if ghost_loop_end:
            edits.append((L['body'][1] - 1, L['body'][1] - 1, [Seg('\n')] + self._ghost_segs(ghost_loop_end, fid, clause_list) + [Seg('\n')]))
        segs += _apply_edits(src, ls, lt, edits)
        segs.append(Seg('\n'))
        segs += self._ghost_segs(ghost_after, fid, clause_list)
        segs.append(Seg(tail + '\n}'))
        segs.append(Seg(f' /*VXEND {fid}*/\n'))
        for sg in segs:
            if sg.fn is None:
                sg.fn = fid
        cid = f'{fid}.safety'
        self.clauses[cid] = {'kind': 'safety', 'fn': fid, 'text': 'implicit: callee preconditions, arithmetic overflow, index bounds, unwrap, panic!/unreachable! arms unreachable'}
        clause_list.append(cid)
        self.functions.append({'id': fid, 'path': path, 'impl': impl, 'fn': name, 'clauses': clause_list, 'loops': 1, 'trait': False})
        self._rw('R17')
        self.extracted.append((path, f'loop #{k} of fn {(impl + "::") if impl else ""}{fn} [loop only]'))
        return segs

    def stmt_fn(self, path, impl, fn, k, name, sig, requires=(), ensures=(), trait=None, ghost_before='', ghost_after='', tail='', inner_closures=None, subst=()):
        """R17 (statement variant): the k-th top-level statement of a krill fn, verbatim, as the body of a standalone fn `name sig`."""
        kw = {'fn': fn}
        if impl is not None:
            kw['impl'] = impl
        if trait is not None:
            kw['trait'] = trait
        src, e = find(path, 'fn', **kw)
        if isinstance(k, str):
            # a statement named by the text it starts with (robust against statements added before it)
            def _sp(st0):
                return (st0[0], st0[1]) if isinstance(st0, (list, tuple)) else (st0['span'][0], st0['span'][1])
            hits = [i for i, st0 in enumerate(e['stmts']) if ' '.join(src[_sp(st0)[0]:_sp(st0)[1]].decode().split()).startswith(' '.join(k.split()))]
            if len(hits) != 1:
                raise LostAnchor(f'{fn}: statement starting with {k!r} matches {len(hits)} statements')
            k = hits[0]
        if k >= len(e['stmts']):
            raise LostAnchor(f'{fn}: statement #{k} not found ({len(e["stmts"])} statements)')
        st = e['stmts'][k]
        ss, st_ = (st[0], st[1]) if isinstance(st, (list, tuple)) else (st['span'][0], st['span'][1])
        fid = f'{self.prop}.{self.name}.{(impl + "::") if impl else ""}{fn}.stmt{k}'
        clause_list = []
        segs = [Seg(f'/*VXFN {fid}*/ pub fn {name}{sig}\n/*VXC*/\n')]
        for kind, items in (('requires', requires), ('ensures', ensures)):
            if not items:
                continue
            segs.append(Seg(f'        {kind}\n'))
            for nm, text in items:
                cid = f'{fid}.{kind}.{nm}'
                self.clauses[cid] = {'kind': kind, 'fn': fid, 'text': ' '.join(text.split())}
                clause_list.append(cid)
                segs.append(Seg('            '))
                segs.append(Seg(text.strip().rstrip(','), clause=cid, fn=fid))
                segs.append(Seg(',\n'))
        segs.append(Seg('/*VXCE*/{\n'))
        segs += self._ghost_segs(ghost_before, fid, clause_list)
        st_edits = self._inner_edits(src, e, ss, st_, fn) + self._nested_closure_edits(src, e, ss, st_, inner_closures, fid, clause_list, fn)
        # tagged substitutions inside the lifted statement (R14), as in fn()
        st_txt = src[ss:st_].decode()
        for sb in subst:
            old_, new_, tag_ = sb[0], sb[1], sb[2]
            n_ = st_txt.count(old_)
            if n_ != 1:
                raise LostAnchor(f'{fn}: statement {k!r}: subst anchor {old_!r} matches {n_} times')
            i_ = ss + len(st_txt[:st_txt.index(old_)].encode())
            j_ = i_ + len(old_.encode())
            st_edits = [x for x in st_edits if not (i_ <= x[0] and x[1] <= j_)]
            st_edits.append((i_, j_, [Seg(new_)]))
            if tag_:
                self._rw(tag_)
        segs += _apply_edits(src, ss, st_, st_edits)
        segs.append(Seg('\n'))
        segs += self._ghost_segs(ghost_after, fid, clause_list)
        segs.append(Seg(tail + '\n}'))
        segs.append(Seg(f' /*VXEND {fid}*/\n'))
        for sg in segs:
            if sg.fn is None:
                sg.fn = fid
        cid = f'{fid}.safety'
        self.clauses[cid] = {'kind': 'safety', 'fn': fid, 'text': 'implicit: callee preconditions, arithmetic overflow, index bounds, unwrap, panic!/unreachable! arms unreachable'}
        clause_list.append(cid)
        self.functions.append({'id': fid, 'path': path, 'impl': impl, 'fn': name, 'clauses': clause_list, 'loops': 0, 'trait': False})
        self._rw('R17')
        self.extracted.append((path, f'statement #{k} of fn {(impl + "::") if impl else ""}{fn} [one statement]'))
        return segs

    def closure_fn(self, path, impl, fn, k, name, sig, requires=(), ensures=(), trait=None, ghost_start='', ghost_end='', inner_closures=None, attrs=(), loops=None, ghost=(), subst=()):
        """R15: the body of the k-th closure of a krill fn, verbatim, as a standalone fn `name sig`; sig must name the closure's
        own parameters and the variables it captures, e.g. '(other: &ConfiguredRoa, roa: &ConfiguredRoa) -> (r: bool)'."""
        kw = {'fn': fn}
        if impl is not None:
            kw['impl'] = impl
        if trait is not None:
            kw['trait'] = trait
        src, e = find(path, 'fn', **kw)
        if k >= len(e['closures']):
            raise LostAnchor(f'{fn}: closure #{k} not found')
        C = e['closures'][k]
        cbs, cbt = C['body']
        fid = f'{self.prop}.{self.name}.{(impl + "::") if impl else ""}{fn}.closure{k}'
        clause_list = []
        segs = [Seg(f'/*VXFN {fid}*/ ' + ''.join(a_ + ' ' for a_ in attrs) + f'pub fn {name}{sig}\n/*VXC*/\n')]
        for kind, items in (('requires', requires), ('ensures', ensures)):
            if not items:
                continue
            segs.append(Seg(f'        {kind}\n'))
            for nm, text in items:
                cid = f'{fid}.{kind}.{nm}'
                self.clauses[cid] = {'kind': kind, 'fn': fid, 'text': ' '.join(text.split())}
                clause_list.append(cid)
                segs.append(Seg('            '))
                segs.append(Seg(text.strip().rstrip(','), clause=cid, fn=fid))
                segs.append(Seg(',\n'))
        segs.append(Seg('/*VXCE*/{\n'))
        segs += self._ghost_segs(ghost_start, fid, clause_list)
        edits = self._inner_edits(src, e, cbs, cbt, fn)
        edits += self._nested_closure_edits(src, e, cbs, cbt, inner_closures, fid, clause_list, fn, strict_inside=True)
        # loops of the enclosing fn that lie inside the closure, numbered in source order among those: invariants as in fn()
        inner_loops = [L for L in e['loops'] if cbs <= L['body'][0] and L['body'][1] <= cbt]
        for k_, lspec in (loops or {}).items():
            if k_ >= len(inner_loops):
                raise LostAnchor(f'{fn}: closure #{k}: loop #{k_} not found ({len(inner_loops)} loops)')
            L = inner_loops[k_]
            lsegs = [Seg('\n            invariant\n')] if lspec.get('invariant') else [Seg('\n')]
            for nm, text in lspec.get('invariant', []):
                cid = f'{fid}.loop{k_}.{nm}'
                self.clauses[cid] = {'kind': 'invariant', 'fn': fid, 'text': ' '.join(text.split())}
                clause_list.append(cid)
                lsegs += [Seg('                '), Seg(text, clause=cid, fn=fid), Seg(',\n')]
            if lspec.get('ensures'):
                lsegs.append(Seg('            ensures\n'))
                for nm, text in lspec['ensures']:
                    cid = f'{fid}.loop{k_}.ens.{nm}'
                    self.clauses[cid] = {'kind': 'invariant', 'fn': fid, 'text': ' '.join(text.split())}
                    clause_list.append(cid)
                    lsegs += [Seg('                '), Seg(text, clause=cid, fn=fid), Seg(',\n')]
            if lspec.get('decreases'):
                lsegs.append(Seg(f'            decreases {lspec["decreases"]},\n'))
            edits.append((L['body'][0], L['body'][0], lsegs))
            if lspec.get('iter') and L['kind'] == 'for':
                edits.append((L['expr'][0], L['expr'][0], [Seg(lspec['iter'] + ': ')]))
        whole_c = src[cbs:cbt].decode()
        for anchor, text in ghost:
            if anchor[0] == 'loop_start':
                L = inner_loops[anchor[1]]
                edits.append((L['body'][0] + 1, L['body'][0] + 1, self._ghost_segs('\n' + text + '\n', fid, clause_list)))
            elif anchor[0] == 'after_loop':
                L = inner_loops[anchor[1]]
                edits.append((L['span'][1], L['span'][1], self._ghost_segs('\n' + text + '\n', fid, clause_list)))
            elif anchor[0] in ('before', 'after'):
                lit, occ = anchor[1], anchor[2]
                pos = -1
                for _ in range(occ + 1):
                    pos = whole_c.find(lit, pos + 1)
                    if pos < 0:
                        raise LostAnchor(f'{fn}: closure #{k}: ghost anchor {lit!r} occurrence {occ} not found')
                at = cbs + len(whole_c[:pos].encode()) + (len(lit.encode()) if anchor[0] == 'after' else 0)
                edits.append((at, at, self._ghost_segs('\n' + text + '\n', fid, clause_list)))
        for sub_c in subst:
            old_c, new_c, tag_c = sub_c[:3]
            every_c = len(sub_c) > 3 and sub_c[3] == 'all'
            n_c = whole_c.count(old_c)
            if (n_c != 1 and not every_c) or n_c == 0:
                raise LostAnchor(f'{fn}: closure #{k}: subst anchor {old_c!r} matches {n_c} times')
            pos_c = -1
            for _ in range(n_c):
                pos_c = whole_c.find(old_c, pos_c + 1)
                i_c = cbs + len(whole_c[:pos_c].encode())
                j_c = i_c + len(old_c.encode())
                edits = [x for x in edits if not (i_c <= x[0] and x[1] <= j_c and x[0] < x[1])]
                edits.append((i_c, j_c, [Seg(new_c)]))
                if tag_c:
                    self._rw(tag_c)
        segs += _apply_edits(src, cbs, cbt, edits)
        segs.append(Seg('\n' + ghost_end + '}'))
        segs.append(Seg(f' /*VXEND {fid}*/\n'))
        for sg in segs:
            if sg.fn is None:
                sg.fn = fid
        cid = f'{fid}.safety'
        self.clauses[cid] = {'kind': 'safety', 'fn': fid, 'text': 'implicit: callee preconditions, arithmetic overflow, index bounds, unwrap, panic!/unreachable! arms unreachable'}
        clause_list.append(cid)
        self.functions.append({'id': fid, 'path': path, 'impl': impl, 'fn': name, 'clauses': clause_list, 'loops': 0, 'trait': False})
        self._rw('R15')
        self.extracted.append((path, f'closure #{k} of fn {(impl + "::") if impl else ""}{fn} [body only]'))
        return segs

    def trait(self, path, name, methods=None, spec='', loops=None, ghost=None, subst=(), drop_bodies=()):
        """Extract a trait declaration verbatim; methods: {fn name: [(clause name, ensures text)]} spliced before the `;`
        of the method declaration; spec: extra `spec fn` declarations inserted at the start of the trait body."""
        src, e = find(path, 'trait', trait=name)
        a, b = e['item']
        edits = []
        for at in e.get('attrs', []):
            edits.append((at['span'][0], at['span'][1], []))
        _, items = _load(path)
        tid = f'{self.prop}.{self.name}.trait {name}'
        body_open = src.index(b'{', a)
        edits.append((body_open + 1, body_open + 1, [Seg('\n' + spec + '\n')]))
        for m in items:
            if m['kind'] == 'fn' and m.get('trait') == name and m.get('impl') is None and a <= m['item'][0] < b:
                for at in m.get('attrs', []):
                    edits.append((at['span'][0], at['span'][1], []))
                ens = (methods or {}).get(m['fn'])
                if ens:
                    if m['ret'] is not None:
                        edits.append((m['ret'][0], m['ret'][0], [Seg('(r: ')]))
                        edits.append((m['ret'][1], m['ret'][1], [Seg(')')]))
                        self._rw('R9')
                    segs = [Seg('\n        ensures\n')]
                    for nm, text in ens:
                        cid = f'{tid}::{m["fn"]}.ensures.{nm}'
                        self.clauses[cid] = {'kind': 'trait-ensures', 'fn': tid, 'text': ' '.join(text.split())}
                        segs += [Seg('            '), Seg(text, clause=cid, fn=tid), Seg(',\n')]
                    end = m['sig'][1]
                    edits.append((end, end, segs))
                if m['fn'] in drop_bodies:
                    if m.get('body') is None:
                        raise LostAnchor(f'trait {name}::{m["fn"]}: no provided body to drop')
                    edits.append((m['body'][0], m['body'][1], [Seg(';')]))
                    self._rw('R24')
                    continue
                # a provided (default-bodied) method: loop invariants and ghost blocks as in fn()
                for k, lspec in ((loops or {}).get(m['fn']) or {}).items():
                    if k >= len(m.get('loops') or []):
                        raise LostAnchor(f'trait {name}::{m["fn"]}: loop #{k} not found')
                    L = m['loops'][k]
                    lsegs = [Seg('\n            invariant\n')]
                    for nm, text in lspec.get('invariant', []):
                        cid = f'{tid}::{m["fn"]}.loop{k}.{nm}'
                        self.clauses[cid] = {'kind': 'invariant', 'fn': tid, 'text': ' '.join(text.split())}
                        lsegs += [Seg('                '), Seg(text, clause=cid, fn=tid), Seg(',\n')]
                    edits.append((L['body'][0], L['body'][0], lsegs))
                    if lspec.get('iter') and L['kind'] == 'for':
                        edits.append((L['expr'][0], L['expr'][0], [Seg(lspec['iter'] + ': ')]))
                for anchor, text in ((ghost or {}).get(m['fn']) or []):
                    if anchor[0] == 'loop_start':
                        L = m['loops'][anchor[1]]
                        edits.append((L['body'][0] + 1, L['body'][0] + 1, [Seg('\n' + text + '\n')]))
                    elif anchor[0] == 'body_end':
                        edits.append((m['body'][1] - 1, m['body'][1] - 1, [Seg('\n' + text + '\n')]))
                    elif anchor[0] == 'body_start':
                        edits.append((m['body'][0] + 1, m['body'][0] + 1, [Seg('\n' + text + '\n')]))
        whole_t = src[a:b].decode()
        for old_t, new_t, tag_t in subst:
            if whole_t.count(old_t) != 1:
                raise LostAnchor(f'trait {name}: subst anchor {old_t!r} matches {whole_t.count(old_t)} times')
            i_t = len(whole_t[:whole_t.index(old_t)].encode()) + a
            edits.append((i_t, i_t + len(old_t.encode()), [Seg(new_t)]))
            if tag_t:
                self._rw(tag_t)
        segs = _apply_edits(src, a, b, edits)
        self.inside.extend(segs)
        self.inside.append(Seg('\n'))
        self.extracted.append((path, f'trait {name}'))

    def const(self, path, impl, name, ensures=None, proof=''):
        """an associated/free const; with `ensures` it is emitted as Verus `exec const NAME: T ensures .. { init }` (R9)"""
        src, e = find(path, 'const', **{'impl': impl, 'const': name})
        a, b = e['item']
        text = ''.join(sg.text for sg in _apply_edits(src, a, b, [(at['span'][0], at['span'][1], []) for at in e.get('attrs', [])]))
        self.extracted.append((path, f'const {(impl + "::") if impl else ""}{name}'))
        # an elided lifetime in a const type is 'static by definition; the verus! macro wants it spelled out
        text = re.sub(r'(const\s+\w+\s*:\s*)&(?!\')', r"\1&'static ", text)
        if ensures is None:
            return [Seg(text.strip() + '\n')]
        m = re.match(r'\s*(pub(?:\([a-z]+\))?\s+)?const\s+(\w+)\s*:\s*(.+?)\s*=\s*(.+);\s*$', text.strip(), re.S)
        if not m:
            raise ToolLimit(f'const {name}: unexpected shape')
        self._rw('R9')
        fid = f'{self.prop}.{self.name}.{(impl + "::") if impl else ""}{name}'
        cid = f'{fid}.ensures.value'
        self.clauses[cid] = {'kind': 'ensures', 'fn': fid, 'text': ensures}
        self.functions.append({'id': fid, 'path': path, 'impl': impl, 'fn': name, 'clauses': [cid], 'loops': 0, 'trait': True})
        return [Seg(f'/*VXFN {fid}*/ pub exec const {m.group(2)}: {m.group(3)}\n        ensures ', fn=fid), Seg(ensures, clause=cid, fn=fid),
                Seg(f'\n    {{ {proof.replace("@INIT@", m.group(4))} {m.group(4)} }} /*VXEND {fid}*/\n', fn=fid)]

    def impl(self, header, fns):
        self.inside.append(Seg(header + ' {\n'))
        for segs in fns:
            self.inside.extend(segs)
            self.inside.append(Seg('\n'))
        self.inside.append(Seg('}\n'))

    def free(self, segs):
        self.inside.extend(segs)
        self.inside.append(Seg('\n'))

    def lemma(self, name, text):
        """a proof fn / lemma stated over the contracts; the whole item is one obligation"""
        cid = f'{self.prop}.{self.name}.lemma.{name}'
        self.clauses[cid] = {'kind': 'lemma', 'fn': cid, 'text': ' '.join(text.split())[:400]}
        self.functions.append({'id': cid, 'path': None, 'impl': None, 'fn': name, 'clauses': [cid], 'loops': 0, 'lemma': True})
        self.inside.append(Seg(f'/*VXFN {cid}*/ '))
        self.inside.append(Seg(text.strip(), clause=cid, fn=cid))
        self.inside.append(Seg(f' /*VXEND {cid}*/\n'))

    # ---------- assemble ----------
    def assemble(self, canary=False, exclude=()):
        head = ''.join(f'#![feature({f})]\n' for f in self.features)
        head += '#![allow(unused, dead_code, non_camel_case_types, non_snake_case)]\n'
        text = head + ''.join(self.outside_parts) + '\nverus! {\n'
        spans = []   # (start, end, clause, fn)
        fnspans = {}
        off = len(text.encode())
        chunks = []
        for s in self.inside:
            t = s.text
            if s.clause and s.clause in exclude:
                # a listed known finding: a clause is replaced by `true`, a whole lemma (one obligation) is left out
                t = '' if self.clauses.get(s.clause, {}).get('kind') == 'lemma' else 'true'
            if canary and s.clause is None and False:
                pass
            bt = t.encode()
            if s.clause:
                spans.append((off, off + len(bt), s.clause, s.fn))
            if s.fn:
                lo, hi = fnspans.get(s.fn, (off, off))
                fnspans[s.fn] = (min(lo, off), max(hi, off + len(bt)))
            chunks.append(t)
            off += len(bt)
        text += ''.join(chunks) + '\n} // verus!\nfn main() {}\n'
        return text, spans, fnspans


VIOLATION_MSGS = (
    'postcondition not satisfied', 'precondition not satisfied', 'invariant not satisfied before loop',
    'invariant not satisfied at end of loop body', 'assertion failed', 'possible arithmetic underflow/overflow',
    'possible division by zero', 'index out of bounds', 'loop invariant not satisfied', 'unreachable code',
    'possible bit shift underflow/overflow', 'recommendation not met', 'decreases not satisfied',
    'could not prove termination', 'failed precondition', 'panic', 'reached',
)
INCONCLUSIVE_MSGS = ('resource limit', 'rlimit', 'timed out', 'timeout')


def classify(msg):
    m = msg.lower()
    if any(x in m for x in INCONCLUSIVE_MSGS):
        return 'inconclusive'
    for x in ('postcondition not satisfied', 'precondition not satisfied', 'invariant not satisfied',
              'assertion failed', 'possible arithmetic underflow/overflow', 'possible division by zero',
              'possible bit shift', 'decreases not satisfied', 'could not prove termination',
              'cannot prove', 'unable to prove post-condition', 'unreachable', 'out of bounds', 'bounds check', 'assertion failure'):
        if x in m:
            return 'violation'
    return 'tool'


def run_verus(unit_text, workdir, fname, seed=None, rlimit=None, threads=None):
    os.makedirs(workdir, exist_ok=True)
    path = os.path.join(workdir, fname)
    open(path, 'w').write(unit_text)
    cmd = ['verus', '--edition', '2024', fname, '--error-format=json', '--output-json', '--time', '--multiple-errors', '10',
           '--no-report-long-running']
    if seed:
        cmd += ['--smt-option', f'smt.random_seed={int(seed) % 100000}']
    if rlimit:
        cmd += ['--rlimit', str(rlimit)]
    if threads:
        cmd += ['--num-threads', str(threads)]
    t0 = time.time()
    p = subprocess.run(cmd, cwd=workdir, capture_output=True, text=True)
    wall = time.time() - t0
    try:
        res = json.loads(p.stdout)
    except Exception:
        res = None
    diags = []
    for line in p.stderr.splitlines():
        line = line.strip()
        if not line.startswith('{'):
            continue
        try:
            d = json.loads(line)
        except Exception:
            continue
        if d.get('$message_type') == 'diagnostic' and d.get('level') in ('error',):
            if d['message'].startswith('aborting due to'):
                continue
            diags.append(d)
    return {'cmd': ' '.join(cmd), 'rc': p.returncode, 'json': res, 'diags': diags, 'wall': wall, 'path': path,
            'stderr_tail': p.stderr[-3000:] if res is None else ''}


def map_diag(d, spans, fnspans):
    """-> (function id or None, [clause ids], classification, rendered)"""
    cls = classify(d['message'])
    clauses = []
    fn = None
    for sp0 in d.get('spans', []):
        # a span inside a macro of another file (unreachable!, panic!, assert!): walk out to the call site in the unit
        sp = sp0
        hops = 0
        while sp.get('expansion') and sp['expansion'].get('span') and hops < 8 and not str(sp.get('file_name', '')).endswith('.rs') or \
                (sp.get('expansion') and sp['expansion'].get('span') and hops < 8 and ('/rustc/' in str(sp.get('file_name', '')) or 'library/' in str(sp.get('file_name', '')))):
            nxt = dict(sp['expansion']['span'])
            nxt['is_primary'] = sp.get('is_primary')
            nxt['label'] = sp.get('label')
            sp = nxt
            hops += 1
        bs0, be0 = sp['byte_start'], sp['byte_end']
        lab = (sp.get('label') or '')
        # only the span that names the failing clause counts (not "at the end of the function body" / "at this exit")
        if sp.get('is_primary') or 'failed' in lab:
            for (s, e, cid, f) in spans:
                if bs0 < e and be0 > s:
                    if cid not in clauses:
                        clauses.append(cid)
        if sp.get('is_primary') or fn is None:
            for f, (lo, hi) in fnspans.items():
                if lo <= bs0 < hi:
                    if sp.get('is_primary'):
                        fn = f
                    elif fn is None:
                        fn = f
    # the caller (primary span) owns a precondition failure
    return fn, clauses, cls, d.get('rendered', d['message'])


def verify_unit(u, seed=None, canary=True, exclude=(), rlimit=None):
    """Run Verus on the unit (and on its vacuity canary).  Returns a result dict."""
    wd = os.path.join(BUILD, u.name)
    for _round in range(12):
        text, spans, fnspans = u.assemble(exclude=exclude)
        r = run_verus(text, wd, u.name + '.rs', seed=seed, rlimit=rlimit)
        # constants the extracted text refers to are part of the verified text: extract them verbatim on demand
        added_const = False
        for d in r['diags']:
            m = re.search(r'cannot find value `([A-Z][A-Z0-9_]*)` in this scope', d['message'])
            if m and m.group(1) not in u.auto_added:
                for path in dict.fromkeys(pth for pth, _ in u.extracted):
                    try:
                        segs = u.const(path, None, m.group(1))
                    except LostAnchor:
                        continue
                    u.free(segs)
                    u.auto_added.append(m.group(1))
                    added_const = True
                    break
        if added_const:
            continue
        if not u.auto_opaque:
            break
        # auto-prelude: every type name rustc cannot find becomes an opaque external type (an ASSUMPTION-free
        # declaration: nothing is specified about it)
        missing = []
        for d in r['diags']:
            m = re.search(r'cannot find (?:type|struct, variant or union type) `(\w+)` in this scope', d['message'])
            if m and m.group(1) not in missing and m.group(1)[0].isupper():
                missing.append(m.group(1))
        if not missing:
            break
        for nm in missing:
            u.opaque(nm, '')
            u.auto_added.append(nm)
    out = {'unit': u.name, 'property': u.prop, 'cmd': r['cmd'], 'wall_s': round(r['wall'], 2), 'assembled': r['path'],
           'failed': [], 'tool_errors': [], 'inconclusive': [], 'verified': 0, 'errors': 0, 'fn_times': {},
           'rewrites': dict(u.rewrites), 'smt_ms': 0}
    j = r['json']
    if j is None:
        out['tool_errors'].append('verus produced no JSON: ' + r['stderr_tail'][-800:])
        return out
    vr = j.get('verification-results', {})
    out['verified'] = vr.get('verified', 0)
    out['errors'] = vr.get('errors', 0)
    out['verus_version'] = j.get('verus', {}).get('version', '')
    smt = j.get('times-ms', {}).get('smt', {})
    out['smt_ms'] = smt.get('total', 0)
    for m in smt.get('smt-run-module-times', []):
        for f in m.get('function-breakdown', []):
            out['fn_times'][f['function']] = {'ms': round(f['time-micros'] / 1000, 1), 'rlimit': f['rlimit'], 'success': f['success']}
    if vr.get('encountered-vir-error') or (not vr.get('success') and vr.get('errors', 0) == 0):
        # front-end error: tool limit
        for d in r['diags']:
            out['tool_errors'].append(d.get('rendered', d['message'])[:1500])
        if not r['diags']:
            out['tool_errors'].append('verus failed without verification errors (front-end error)')
        return out
    for d in r['diags']:
        fn, clauses, cls, rendered = map_diag(d, spans, fnspans)
        rec = {'fn': fn, 'clauses': clauses, 'message': d['message'], 'rendered': rendered[:3000]}
        if cls == 'violation':
            out['failed'].append(rec)
        elif cls == 'inconclusive':
            out['inconclusive'].append(rec)
        else:
            out['tool_errors'].append(rendered[:1500])
    return out


def canary_unit(u, seed=None):
    """vacuity guard: next to every contracted exec fn a renamed copy `vx_canary_<fn>` with the extra clause
    `ensures false` is emitted (the originals keep their contracts); every copy must FAIL verification.
    A copy that verifies means contradictory requires / assumed specs / loop invariants."""
    text, spans, fnspans = u.assemble()
    want = [f for f in u.functions if not f.get('lemma') and not f.get('trait') and f['id'] not in u.canary_skip]
    res_text = text
    made = []
    for f in want:
        fid = f['id']
        tag = f'/*VXFN {fid}*/'
        i = res_text.find(tag)
        if i < 0:
            continue
        endtag = f'/*VXEND {fid}*/'
        end = res_text.find(endtag, i)
        chunk = res_text[i + len(tag):end]
        m0 = re.search(r'\bfn\s+' + re.escape(f['fn']) + r'\b', chunk)
        if not m0:
            continue
        chunk = chunk[:m0.start()] + 'fn vx_canary_' + f['fn'] + chunk[m0.end():]
        c0 = chunk.find('/*VXC*/')
        c1 = chunk.find('/*VXCE*/')
        if c0 < 0 or c1 < 0:
            continue
        m = re.search(r'\n        ensures\n', chunk[c0:c1])
        if m:
            at0 = c0 + m.end()
            chunk = chunk[:at0] + '            false, /*VXCANARY*/\n' + chunk[at0:]
        else:
            chunk = chunk[:c1] + '\n        ensures\n            false, /*VXCANARY*/\n' + chunk[c1:]
        ins = f'\n/*VXCFN {fid}*/' + chunk + f'/*VXCEND {fid}*/\n'
        at = end + len(endtag)
        res_text = res_text[:at] + ins + res_text[at:]
        made.append(fid)
    wd = os.path.join(BUILD, u.name)
    # a contradiction, if there is one, is found at once; a canary that merely runs out of resources has failed as it should
    r = run_verus(res_text, wd, u.name + '_canary.rs', seed=seed, rlimit=3)
    failed_fns = set()
    tool = []
    j = r['json']
    if j is None or j.get('verification-results', {}).get('encountered-vir-error') or \
            (j.get('verification-results', {}).get('errors', 0) == 0 and made):
        tool.append('canary unit did not compile: ' + ' | '.join(d.get('message', '') for d in r['diags'][:3]) + r.get('stderr_tail', '')[-300:])
    bt = res_text.encode()
    offs = {}
    for fid in made:
        i = bt.find(f'/*VXCFN {fid}*/'.encode())
        e = bt.find(f'/*VXCEND {fid}*/'.encode())
        offs[fid] = (i, e)
    for d in r['diags']:
        if classify(d['message']) != 'violation':
            continue
        for sp in d.get('spans', []):
            for fid, (lo, hi) in offs.items():
                if lo <= sp['byte_start'] < hi:
                    failed_fns.add(fid)
    vacuous = [fid for fid in made if fid not in failed_fns]
    return {'checked': len(made), 'vacuous': vacuous, 'tool': tool, 'wall_s': round(r['wall'], 2)}


def scan_assumptions(text):
    pats = re.compile(r'external_body|assume_specification|\bassume\s*\(|\badmit\s*\(|uninterp|external_type_specification|#\[verifier::external|external_fn_specification')
    out = []
    for line in text.splitlines():
        if pats.search(line):
            l = ' '.join(line.split())
            if l not in out:
                out.append(l)
    return out
