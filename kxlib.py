"""kxlib -- engine K of /verif: Kani function contracts / harnesses on a scratch copy of the whole real crate.

Per run: /repo (minus target/.git) is rsync'ed to a scratch dir outside /repo and /verif; contract attributes
(#[cfg_attr(kani, kani::requires/ensures/..)]) and `#[cfg(kani)] #[path=..] mod` lines are ADDED (never a deletion);
`cargo kani` builds the real crate and runs the harnesses of the requested groups.  The scratch copy is removed after
the run; only the cargo target dir (/verif/.cache/kani-target) persists so that third-party crates are not rebuilt.
"""
import os, re, json, subprocess, time, hashlib, shutil, fcntl, sys

ROOT = os.path.dirname(os.path.abspath(__file__))
REPO = os.environ.get('VX_REPO', '/repo')
SCRATCH_BASE = os.environ.get('VX_SCRATCH', '/var/tmp/krill-verif')
CACHE = os.path.join(ROOT, '.cache')
TARGET = os.path.join(CACHE, 'kani-target')
KANI_DIR = os.path.join(ROOT, 'kani')

sys.path.insert(0, ROOT)
import vxlib
from kani.groups import GROUPS   # noqa


def _sh(cmd, cwd=None, timeout=None, env=None):
    p = subprocess.run(cmd, cwd=cwd, capture_output=True, text=True, timeout=timeout, env=env)
    return p.returncode, p.stdout, p.stderr


def prepare_scratch(groups):
    """copy /repo and add instrumentation for the given groups; returns (dir, diffstat)"""
    os.makedirs(SCRATCH_BASE, exist_ok=True)
    os.makedirs(CACHE, exist_ok=True)
    d = os.path.join(SCRATCH_BASE, 'krill-k')
    src_root = REPO
    # VX_REPO may point at a directory that only has src/ (mutant copies); take everything else from /repo
    rc, o, e = _sh(['rsync', '-a', '--delete', '--exclude', '/target', '--exclude', '/.git', '--exclude', '/seed*', '/repo/', d + '/'])
    if rc != 0:
        raise vxlib.ToolLimit('rsync failed: ' + e)
    if os.path.abspath(REPO) != '/repo':
        rc, o, e = _sh(['rsync', '-a', '--delete', os.path.join(REPO, 'src') + '/', os.path.join(d, 'src') + '/'])
        if rc != 0:
            raise vxlib.ToolLimit('rsync(src) failed: ' + e)
    mt_file = os.path.join(CACHE, 'kani-instr-mtimes.json')
    try:
        mt = json.load(open(mt_file))
    except Exception:
        mt = {}
    added = 0
    touched = {}
    allg = []
    for g in groups:
        for dgrp in GROUPS[g].get('deps', []):
            if dgrp not in allg:
                allg.append(dgrp)
        if g not in allg:
            allg.append(g)
    for g in allg:
        G = GROUPS[g]
        for rel, harness_file in G.get('inject', []):
            p = os.path.join(d, rel)
            if not os.path.exists(p):
                raise vxlib.LostAnchor(f'{rel} not found (group {g})')
            txt = touched.get(rel) or open(p).read()
            modname = 'vx_kani_' + os.path.splitext(os.path.basename(harness_file))[0]
            # the harness module is COPIED into the scratch tree: `--concrete-playback=inplace` rewrites the file that holds
            # the failing harness, and that must never be the committed file under /verif/kani
            hdir = os.path.join(d, 'vx_kani_harnesses')
            os.makedirs(hdir, exist_ok=True)
            hcopy = os.path.join(hdir, harness_file)
            new_txt = open(os.path.join(KANI_DIR, harness_file)).read()
            if not os.path.exists(hcopy) or open(hcopy).read() != new_txt:
                open(hcopy, 'w').write(new_txt)
            line = f'\n#[cfg(kani)]\n#[path = "{hcopy}"]\npub(crate) mod {modname};\n'
            if line not in txt:
                txt += line
                added += 4
            touched[rel] = txt
        for c in G.get('contracts', []):
            rel = c['file']
            p = os.path.join(d, rel)
            txt = touched.get(rel) or open(p).read()
            open(p + '.vxtmp', 'w').write(txt)
            try:
                vxlib._src_cache.pop(p + '.vxtmp', None)
                src, e = vxlib.find(p + '.vxtmp', 'fn', **{'impl': c.get('impl'), 'fn': c['fn']})
            finally:
                os.remove(p + '.vxtmp')
            pos = e['sig'][0]
            if e['vis'] is not None:
                pos = min(pos, e['vis'][0])
            attrs = ''.join(f'#[cfg_attr(kani, {a})]\n    ' for a in c['attrs'])
            b = txt.encode()
            txt = (b[:pos] + attrs.encode() + b[pos:]).decode()
            added += len(c['attrs'])
            touched[rel] = txt
    for rel, txt in touched.items():
        p = os.path.join(d, rel)
        h = hashlib.sha256(txt.encode()).hexdigest()
        open(p, 'w').write(txt)
        prev = mt.get(rel)
        if prev and prev[0] == h:
            os.utime(p, (prev[1], prev[1]))
        else:
            mt[rel] = [h, os.stat(p).st_mtime]
    json.dump(mt, open(mt_file, 'w'))
    # instrumentation diff must be additions only
    rc, o, e = _sh(['diff', '-r', '-U0', os.path.join(src_root, 'src'), os.path.join(d, 'src')])
    minus = [l for l in o.splitlines() if l.startswith('-') and not l.startswith('---')]
    plus = [l for l in o.splitlines() if l.startswith('+') and not l.startswith('+++')]
    if minus:
        raise vxlib.ToolLimit('instrumentation deleted lines: ' + '; '.join(minus[:3]))
    return d, {'added_lines': len(plus), 'deleted_lines': 0}


def parse_kani(out):
    """per-harness results from `cargo kani -j N --output-format terse` (blocks are tagged `Thread N:`)"""
    res = {}
    cur = {}      # thread -> harness
    lines = out.splitlines()
    i = 0
    single = None
    while i < len(lines):
        l = lines[i]
        m = re.match(r'(?:Thread (\d+): )?Checking harness ([^\s]+?)\.\.\.', l)
        if m:
            th = m.group(1) or 'x'
            cur[th] = m.group(2)
            i += 1
            continue
        m = re.match(r'Thread (\d+): *$', l)
        start = None
        if m and i + 1 < len(lines) and lines[i + 1].startswith('VERIFICATION RESULT'):
            th = m.group(1)
            start = i + 1
        elif l.startswith('VERIFICATION RESULT') and 'x' in cur:
            th = 'x'
            start = i
        if start is not None and th in cur:
            j = start
            block = []
            while j < len(lines):
                block.append(lines[j])
                if lines[j].startswith('Verification Time:') or lines[j].startswith('VERIFICATION:- ') and j + 1 < len(lines) and not lines[j + 1].startswith('Verification Time:'):
                    break
                j += 1
            body = '\n'.join(block)
            name = cur.pop(th)
            mm = re.search(r'\*\* (\d+) of (\d+) failed', body)
            failed = [{'check': '', 'description': d.strip(), 'location': loc.strip()} for d, loc in
                      re.findall(r'Failed Checks: ([^\n]*)\n\s*File: ([^\n]*)', body)]
            failed += [{'check': '', 'description': d.strip(), 'location': ''} for d in re.findall(r'Failed Checks: ([^\n]*)\n(?!\s*File:)', body)]
            unwind_fail = [f for f in failed if 'unwinding assertion' in f['description']]
            cov = re.search(r'\*\* (\d+) of (\d+) cover properties satisfied', body)
            covers = []
            if cov:
                covers = [('SATISFIED', 'cover')] * int(cov.group(1)) + [('UNSATISFIED', 'cover')] * (int(cov.group(2)) - int(cov.group(1)))
            v = re.search(r'VERIFICATION:- (SUCCESSFUL|FAILED)', body)
            t = re.search(r'Verification Time: ([0-9.]+)s', body)
            res[name] = {'verdict': v.group(1) if v else 'NONE', 'checks': int(mm.group(2)) if mm else 0, 'failed': failed,
                         'unwind_failed': unwind_fail, 'covers': covers, 'time_s': float(t.group(1)) if t else None,
                         'unsupported': re.findall(r'[^\n]*unsupported[^\n]*', body)[:3]}
            i = j + 1
            continue
        i += 1
    return res


def kani_env():
    env = dict(os.environ)
    env['CARGO_NET_OFFLINE'] = 'true'
    env['CARGO_TARGET_DIR'] = TARGET
    return env


def run_groups(prop, groups, tier, seed, known_ids):
    """returns a list of result dicts (one per group) in the same shape as engine V results"""
    t0 = time.time()
    os.makedirs(CACHE, exist_ok=True)
    lock = open(os.path.join(CACHE, 'kani.lock'), 'w')
    fcntl.flock(lock, fcntl.LOCK_EX)
    results = []
    try:
        try:
            d, diffstat = prepare_scratch(groups)
        except (vxlib.LostAnchor, vxlib.ToolLimit) as e:
            for g in groups:
                results.append(_empty(g, 'inconclusive', [f'{type(e).__name__}: {e}']))
            return results
        harnesses = []
        for g in groups:
            for h in GROUPS[g]['harnesses']:
                if h.get('tier', 'quick') == 'thorough' and tier != 'thorough':
                    continue
                harnesses.append((g, h))
        cmd = ['cargo', 'kani', '-Z', 'function-contracts', '-Z', 'stubbing', '-j', '16', '--output-format', 'terse', '--lib']
        for g, h in harnesses:
            cmd += ['--harness', h['name']]
        tmo = 600 + sum(h.get('timeout', 120) for _, h in harnesses)
        try:
            p = subprocess.run(cmd, cwd=d, capture_output=True, text=True, timeout=tmo, env=kani_env())
            out = p.stdout + '\n' + p.stderr
            rc = p.returncode
        except subprocess.TimeoutExpired as e:
            out = (e.stdout or b'').decode(errors='replace') if isinstance(e.stdout, bytes) else (e.stdout or '')
            rc = -9
        os.makedirs(os.path.join(CACHE, 'kani-logs'), exist_ok=True)
        logp = os.path.join(CACHE, 'kani-logs', f'{prop}-{tier}.log')
        open(logp, 'w').write(out)
        parsed = parse_kani(out)
        build_failed = ('error: could not compile' in out or 'error[E' in out) and not parsed
        for g in groups:
            G = GROUPS[g]
            r = _empty(g, 'ok', [])
            r['title'] = G.get('title', '')
            r['cmd'] = ' '.join(cmd[:12]) + ' --harness <' + ','.join(h['name'] for gg, h in harnesses if gg == g) + '>'
            r['backend'] = 'kani 0.68 / cbmc 6.11'
            r['assembled'] = logp
            r['instrumentation'] = diffstat
            r['assumptions'] = list(G.get('assumptions', []))
            r['functions'] = list(G.get('functions', []))
            if build_failed:
                r['status'] = 'inconclusive'
                errs = re.findall(r'error(?:\[E\d+\])?: [^\n]+', out)[:5]
                r['notes'].append('kani build failed (tool limit / harness no longer compiles): ' + ' | '.join(errs))
                results.append(r)
                continue
            for gg, h in harnesses:
                if gg != g:
                    continue
                full = [k for k in parsed if k.endswith('::' + h['name']) or k == h['name']]
                oid = f'{prop}.{g}.{h["name"]}'
                level = h.get('level', 'proof')
                pr = parsed.get(full[0]) if full else None
                rec = {'id': oid, 'harness': h['name'], 'level': level, 'bound': h.get('bound', ''), 'what': h.get('what', ''),
                       'verdict': pr['verdict'] if pr else 'NONE', 'cbmc_checks': pr['checks'] if pr else 0,
                       'time_s': pr['time_s'] if pr else None}
                if level == 'proof':
                    r['obligations'].append(oid)
                    r['clause_text'][oid] = h.get('what', '')
                if pr is None or pr['verdict'] == 'NONE':
                    r['status'] = 'inconclusive'
                    r['notes'].append(f'{h["name"]}: no verdict from kani (timeout / tool limit)')
                    if level != 'proof':
                        rec['verdict'] = 'NO-VERDICT'
                        r['bounded'].append(rec)
                    continue
                r['smt_ms'] += int((pr['time_s'] or 0) * 1000)
                real_fail = [f for f in pr['failed'] if f not in pr['unwind_failed']]
                if any('not currently supported by Kani' in f['description'] for f in pr['failed']):
                    # a construct outside Kani was reachable: every other "failure" is undetermined -> tool limit, never an alarm
                    r['status'] = 'inconclusive'
                    r['notes'].append(f'{h["name"]}: construct not supported by Kani reachable (tool limit)')
                    if level != 'proof':
                        rec['verdict'] = 'TOOL-LIMIT'
                        r['bounded'].append(rec)
                    continue
                if pr['verdict'] == 'SUCCESSFUL':
                    # vacuity: every cover must be satisfied
                    bad_cov = [c for c in pr['covers'] if c[0] != 'SATISFIED']
                    if bad_cov:
                        r['status'] = 'inconclusive'
                        r['notes'].append(f'{h["name"]}: vacuity guard: cover not satisfied: {bad_cov[:2]}')
                    elif level == 'proof':
                        r['discharged'].append(oid)
                    if level != 'proof':
                        r['bounded'].append(rec)
                elif real_fail:
                    f0 = real_fail[0]
                    frec = {'obligation': oid, 'text': h.get('what', ''), 'verifier': f'{f0["description"]} ({f0["check"]}) at {f0["location"]}',
                            'rendered': json.dumps(real_fail[:6], indent=1), 'harness': h['name'], 'group': g}
                    if oid in known_ids:
                        r['known'].append(frec)
                    else:
                        r['failed'].append(frec)
                    if level != 'proof':
                        rec['verdict'] = 'FAILED'
                        r['bounded'].append(rec)
                else:
                    r['status'] = 'inconclusive'
                    r['notes'].append(f'{h["name"]}: only unwinding assertions failed (bound too small) or unsupported construct: {pr["unsupported"][:1]}')
                    if level != 'proof':
                        rec['verdict'] = 'UNWIND'
                        r['bounded'].append(rec)
            if r['failed']:
                r['status'] = 'violation'
            results.append(r)
        # counterexamples for failures: re-run the failing harness alone with concrete playback
        for r in results:
            for f in r['failed'] + r['known']:
                try:
                    cex = playback(d, f['harness'])
                    f['counterexample'] = cex
                    f['replay'] = cex.get('replay') if cex else None
                except Exception as e:   # never let replay problems hide the violation
                    f['counterexample'] = None
                    f['rendered'] += f'\n(playback failed: {e})'
    finally:
        try:
            shutil.rmtree(os.path.join(SCRATCH_BASE, 'krill-k'), ignore_errors=True)
        finally:
            fcntl.flock(lock, fcntl.LOCK_UN)
    for r in results:
        r['wall_s'] = round(time.time() - t0, 2)
    return results


def run_single(group, harness, timeout=1800, extra=()):
    """development helper: run one harness alone, print verdict/time/peak memory"""
    lock = open(os.path.join(CACHE, 'kani.lock'), 'w')
    fcntl.flock(lock, fcntl.LOCK_EX)
    try:
        d, _ = prepare_scratch([group])
        cmd = ['/usr/bin/time', '-v', 'cargo', 'kani', '-Z', 'function-contracts', '-Z', 'stubbing', '--output-format', 'terse', '--lib', '--harness', harness] + list(extra)
        try:
            p = subprocess.run(cmd, cwd=d, capture_output=True, text=True, timeout=timeout, env=kani_env())
            out = p.stdout + p.stderr
        except subprocess.TimeoutExpired as e:
            out = 'TIMEOUT after %ds' % timeout
            subprocess.run(['pkill', '-f', 'cbmc --no-malloc'])
        keep = [l for l in out.splitlines() if re.search(r'VERIFICATION|Verification Time|Failed Checks|File:|Maximum resident|TIMEOUT|error|cover', l)]
        print('\n'.join(keep[-25:]))
    finally:
        shutil.rmtree(os.path.join(SCRATCH_BASE, 'krill-k'), ignore_errors=True)
        fcntl.flock(lock, fcntl.LOCK_UN)


def playback(d, harness):
    """ask kani for concrete values of a failing harness and replay them on the real code with `cargo kani playback`"""
    cmd = ['cargo', 'kani', '-Z', 'function-contracts', '-Z', 'stubbing', '-Z', 'concrete-playback', '--concrete-playback=inplace',
           '--output-format', 'terse', '--lib', '--harness', harness]
    p = subprocess.run(cmd, cwd=d, capture_output=True, text=True, timeout=1200, env=kani_env())
    out = p.stdout + p.stderr
    m = re.search(r'kani_concrete_playback_\w+', out)
    if not m:
        # find it in the harness file (inplace modifies the file that holds the harness)
        rc, o, e = _sh(['grep', '-rl', 'kani_concrete_playback_', KANI_DIR])
        if not o.strip():
            return None
    rc, o, e = _sh(['grep', '-rho', r'fn kani_concrete_playback_\w*', KANI_DIR])
    tests = [x.split()[-1] for x in o.split('\n') if x.strip()]
    if not tests:
        return None
    test = tests[-1]
    # extract the generated test text, then run it
    src_file = _sh(['grep', '-rl', test, KANI_DIR])[1].strip().split('\n')[0]
    txt = open(src_file).read()
    i = txt.index('#[test]', txt.rfind('/// Test generated for harness', 0, txt.index(test)) if '/// Test generated for harness' in txt else 0)
    j = txt.index('\n}\n', txt.index(test)) + 3
    test_src = txt[i:j]
    cex = {'test_name': test, 'test_source': test_src}
    try:
        p2 = subprocess.run(['cargo', 'kani', 'playback', '-Z', 'concrete-playback', '--lib', '--', test], cwd=d,
                            capture_output=True, text=True, timeout=1800, env=kani_env())
        o2 = p2.stdout + p2.stderr
        tail = '\n'.join(o2.strip().splitlines()[-25:])
        if 'test result: FAILED' in o2 or 'panicked at' in o2:
            cex['replay'] = 'reproduced on the real code: ' + (re.search(r"panicked at [^\n]*\n[^\n]*", o2).group(0) if re.search(r'panicked at', o2) else 'test failed')
        elif 'test result: ok' in o2:
            cex['replay'] = 'not reproduced (playback test passed)'
        else:
            cex['replay'] = 'playback could not be run: ' + tail[-400:]
        cex['replay_output_tail'] = tail
    finally:
        # remove the generated test from the harness file again (never leave run-time edits in /verif)
        open(src_file, 'w').write(txt[:i].rstrip('\n') + '\n' + txt[j:])
    return cex


def _empty(g, status, notes):
    return {'unit': g, 'engine': 'K', 'status': status, 'obligations': [], 'discharged': [], 'failed': [], 'known': [],
            'notes': list(notes), 'functions': [], 'assumptions': [], 'rewrites': {}, 'bounded': [], 'smt_ms': 0, 'wall_s': 0,
            'clause_text': {}}


def baseline_entries():
    out = {}
    for g, G in GROUPS.items():
        prop = G['property']
        out[g] = {'property': prop, 'engine': 'K',
                  'obligations': sorted(f'{prop}.{g}.{h["name"]}' for h in G['harnesses'] if h.get('tier', 'quick') == 'quick'),
                  'obligations_thorough': sorted(f'{prop}.{g}.{h["name"]}' for h in G['harnesses'])}
    return out
