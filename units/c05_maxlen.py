"""C05: the normalisation every ROA delta goes through before Routes::process_updates decides it
(RoaConfigurationUpdates::set_explicit_max_length): EVERY entry of the delta -- additions and removals -- gets its explicit
(effective) maximum length and nothing else of an entry changes.  Stored authorisations are keyed with the explicit maximum
length, so a removal that is not normalised names an authorisation that "is not present" and the whole delta is refused
although the statement says it must be applied (refused exactly when ...).  `iter_mut().for_each(closure)` is read through
R26 (assumed std semantics: the closure runs once on every element, in place)."""
from vxlib import Unit
from units import prelude
from units import c05_routes as R

API = 'src/api/roa.rs'

SPEC = r'''
pub open spec fn plen(p: TypedPrefix) -> u8 { match p { TypedPrefix::V4(x) => x.addr_len, TypedPrefix::V6(x) => x.addr_len } }
pub open spec fn eff(p: RoaPayload) -> u8 { match p.max_length { None => plen(p.prefix), Some(l) => l } }
/// the payload in the form under which authorisations are stored: explicit maximum length, same prefix and AS
pub open spec fn explicit(p: RoaPayload) -> RoaPayload { RoaPayload { asn: p.asn, prefix: p.prefix, max_length: Some(eff(p)) } }
'''


def build():
    U = Unit('c05_maxlen', 'C05', 'ROA delta normalisation: every added and every removed entry gets its explicit max length, nothing else changes')
    prelude.strings(U)
    prelude.for_each_mut(U)
    U.opaque('AsNumber', 'Clone, Copy, PartialEq, Eq, Hash')
    U.opaque('Ipv4Addr', 'Clone, Copy, PartialEq, Eq, Hash')
    U.opaque('Ipv6Addr', 'Clone, Copy, PartialEq, Eq, Hash')
    U.struct(API, 'RoaPayload', derive=['Clone', 'Copy', 'PartialEq', 'Eq', 'Hash'], structural=False)
    U.struct(API, 'RoaConfiguration', derive=['Clone'])
    U.struct(API, 'RoaConfigurationUpdates', derive=[])
    U.enum(API, 'TypedPrefix', derive=['Clone', 'Copy', 'PartialEq', 'Eq', 'Hash'], structural=False)
    U.struct(API, 'Ipv4Prefix', derive=['Clone', 'Copy', 'PartialEq', 'Eq', 'Hash'], structural=False)
    U.struct(API, 'Ipv6Prefix', derive=['Clone', 'Copy', 'PartialEq', 'Eq', 'Hash'], structural=False)
    U.add(SPEC)
    U.impl('impl Ipv4Prefix', [U.fn(API, 'Ipv4Prefix', 'addr_len', ensures=[('is_field', 'r == self.addr_len')])])
    U.impl('impl Ipv6Prefix', [U.fn(API, 'Ipv6Prefix', 'addr_len', ensures=[('is_field', 'r == self.addr_len')])])
    U.impl('impl TypedPrefix', [U.fn(API, 'TypedPrefix', 'addr_len', ensures=[('is_plen', 'r == plen(self)')])])
    U.impl('impl RoaPayload', [
        U.fn(API, 'RoaPayload', 'effective_max_length', ensures=[('def', 'r == eff(*self)')]),
        U.fn(API, 'RoaPayload', 'set_explicit_max_length', ensures=[('explicit_form_nothing_else_changed', '*final(self) == explicit(*old(self))')]),
    ])
    U.impl('impl RoaConfiguration', [
        U.fn(API, 'RoaConfiguration', 'set_explicit_max_length', ensures=[
            ('payload_in_explicit_form', 'final(self).payload == explicit(old(self).payload)'),
            ('comment_kept', 'final(self).comment == old(self).comment')]),
    ])
    U.impl('impl RoaConfigurationUpdates', [
        U.fn(API, 'RoaConfigurationUpdates', 'set_explicit_max_length', for_each_mut={
            'self.added': {'header': '|x: &mut RoaConfiguration|', 'ensures': 'final(x).payload == explicit(old(x).payload) && final(x).comment == old(x).comment'},
            'self.removed': {'header': '|x: &mut RoaPayload|', 'ensures': '*final(x) == explicit(*old(x))'},
        }, ensures=[
            ('same_entries', 'final(self).added@.len() == old(self).added@.len() && final(self).removed@.len() == old(self).removed@.len()'),
            ('every_addition_in_explicit_form', """forall |i: int| 0 <= i < old(self).added@.len() ==>
                (#[trigger] final(self).added@[i]).payload == explicit(old(self).added@[i].payload) && final(self).added@[i].comment == old(self).added@[i].comment"""),
            ('every_removal_in_explicit_form', 'forall |i: int| 0 <= i < old(self).removed@.len() ==> #[trigger] final(self).removed@[i] == explicit(old(self).removed@[i])'),
        ]),
    ])
    return U
