"""C04: CertAuth::process_keyroll_finish -- the last step of a key roll at the level of the CA command.  Once the parent has
answered the revocation request, the roll of the NAMED class finishes exactly when that class exists and is waiting with an old
key (ResourceClass::process_keyroll_finish, unit c04_keystate); nothing else -- in particular nothing about the wording of the
parent's answer, which carries the PARENT's name for the class -- can keep the class in the two-key state."""
from vxlib import Unit
from units import prelude
from units.c05_child import common

CA = 'src/server/ca/certauth.rs'
EV = 'src/server/ca/events.rs'
ERR = 'src/commons/error.rs'

SPEC = r'''
/// ResourceClass::process_keyroll_finish (VERIFIED in unit c04_keystate: Ok exactly in phase RollOld, the event removes the old key)
pub uninterp spec fn finish_ok(rc: ResourceClass) -> bool;
pub uninterp spec fn finish_event(rc: ResourceClass) -> CertAuthEvent;
impl ResourceClass {
    #[verifier::external_body] pub fn process_keyroll_finish(&self) -> (r: KrillResult<CertAuthEvent>)
        ensures (r is Ok) == finish_ok(*self), r is Ok ==> r->Ok_0 == finish_event(*self) { unimplemented!() }
    #[verifier::external_body] pub fn parent_handle(&self) -> (r: &ParentHandle) { unimplemented!() }
}
'''


def build():
    U = Unit('c04_roll_cmds', 'C04', 'the roll of the named class finishes exactly when the class exists and holds an old key awaiting revocation')
    common(U, skip=('ResourceClass',))
    U.opaque('ResourceClass', '')
    for t in ['ChildDetails', 'RevocationResponse']:
        U.opaque(t, '')
    U.struct(CA, 'CertAuth', derive=[])
    U.enum(EV, 'CertAuthEvent', keep=['KeyRollFinished'], derive=[])
    U.enum(ERR, 'Error', keep=['ResourceClassUnknown'], derive=[])
    U.add(SPEC)
    km = 'obeys_key_model::<ResourceClassName>()'
    U.impl('impl CertAuth', [
        U.fn(CA, 'CertAuth', 'process_keyroll_finish', requires=[('km', km)], ensures=[
            ('finishes_exactly_when_the_class_awaits_the_revocation', '(r is Ok) <==> (self.resources@.contains_key(rcn) && finish_ok(self.resources@[rcn]))'),
            ('one_event_that_of_the_named_class', 'r is Ok ==> r->Ok_0@ == seq![finish_event(self.resources@[rcn])]'),
        ]),
    ])
    return U
