"""C15 (trust anchor objects): TrustAnchorObjects::republish -- the TA's manifest and CRL are re-issued with one number (the
next one, or the operator's override), the same validity window, the CRL from the TA's own revocation list and the manifest
listing the CRL plus exactly the certificates issued to children; a signing certificate for another key is refused."""
from vxlib import Unit
from units import prelude
from units import c14_objectset as C14

TA = 'src/api/ta.rs'
PUB = 'src/server/ca/publishing.rs'


def build():
    U = Unit('c15_ta_republish', 'C15', 'TA republish: one number for manifest and CRL (next or override), same window, CRL from own revocations, manifest = CRL + issued certificates')
    prelude.hashmap(U)
    prelude.strings(U)
    U.opaque('ObjectName', 'Clone, PartialEq, Eq, Hash')
    U.opaque('Base64', 'Clone')
    U.opaque('Hash', 'Clone, Copy, PartialEq, Eq')
    U.opaque('Serial', 'Clone, Copy')
    U.opaque('Time', 'Clone, Copy')
    U.opaque('KeyIdentifier', 'Clone, Copy, PartialEq, Eq, Hash', eq=True)
    for t in ['Name', 'RepositoryContact', 'Revocations', 'Revocation', 'PublishedItemManifest', 'PublishedItemCrl', 'PublishedItemOther', 'IssuedCertificate']:
        U.opaque(t, 'Clone')
    U.opaque('Rsync', 'Clone', module='uri')
    for t in ['Error', 'KrillSigner', 'IssuanceTimingConfig']:
        U.opaque(t, '')
    U.outside('#[derive(Clone)] pub struct CertInfoReceived { pub subject: Name }')
    U.add('#[verifier::external_type_specification] pub struct ExCIR(CertInfoReceived);\npub assume_specification [<CertInfoReceived as Clone>::clone] (c: &CertInfoReceived) -> (r: CertInfoReceived) ensures r == *c;')
    U.outside(C14.OUT)
    U.outside('impl Error { pub fn custom(_s: &str) -> Self { unimplemented!() } }')
    U.struct(PUB, 'ObjectSetRevision', derive=['Clone', 'Copy'], structural=False)
    U.struct(PUB, 'PublishedItem', derive=['Clone'])
    U.struct(PUB, 'ManifestBuilder', derive=[])
    U.struct(TA, 'TrustAnchorObjects', derive=[])
    U.add(C14.SPEC.replace('pub assume_specification [CertInfoReceived::key_identifier] (c: &CertInfoReceived) -> (r: KeyIdentifier);',
                           'pub uninterp spec fn cert_key(c: CertInfoReceived) -> KeyIdentifier;\npub assume_specification [CertInfoReceived::key_identifier] (c: &CertInfoReceived) -> (r: KeyIdentifier) ensures r == cert_key(*c);'))
    U.add('''pub assume_specification [Error::custom] (s: &str) -> (r: Error);
pub uninterp spec fn next_update_of(weeks: i64) -> Time;
/// the certificates issued to children as manifest objects (iterator chain over the issued map; ASSUMED)
pub uninterp spec fn issued_objects(m: Map<KeyIdentifier, IssuedCertificate>) -> Map<ObjectName, PublishedObject>;''')
    km = 'obeys_key_model::<ObjectName>()'
    U.impl('impl ObjectSetRevision', [
        U.fn(PUB, 'ObjectSetRevision', 'next', requires=[('no_overflow', 'mft_number_override is None ==> old(self).number < u64::MAX')], ensures=[
            ('plus_one', 'mft_number_override is None ==> final(self).number == old(self).number + 1'),
            ('override', 'mft_number_override is Some ==> final(self).number == mft_number_override->Some_0'),
            ('next_update_set', 'final(self).next_update == next_update')]),
    ])
    U.impl('impl ManifestBuilder', [
        U.fn(PUB, 'ManifestBuilder', 'new', requires=[('km', km)], ensures=[('empty', 'r.revision == revision && r.entries@ == Map::<ObjectName, Hash>::empty()')]),
        # `mut self` receiver: R22; by-reference HashMap loop: R8
        U.fn(PUB, 'ManifestBuilder', 'with_objects', hash_loops=(0,), attrs=['#[verifier::loop_isolation(false)]'],
             requires=[('km', km), ('fresh_builder', 'self.entries@ == Map::<ObjectName, Hash>::empty()')],
             ensures=[('lists_crl_and_exactly_the_objects', 'r.entries@ =~= expected_entries(*crl, published_objects@)'), ('revision_kept', 'r.revision == self.revision')],
             loops={0: {'iter': 'vx_it', 'invariant': [
                 ('km', km),
                 ('pairs', '''vx_it.seq().len() == published_objects@.len() && (forall |i: int| 0 <= i < vx_it.seq().len() ==> published_objects@.contains_key(*(#[trigger] vx_it.seq()[i]).0)
                        && published_objects@[*vx_it.seq()[i].0] == *vx_it.seq()[i].1) && vx_it.seq().no_duplicates()'''),
                 ('all_listed', 'forall |n: ObjectName| #[trigger] published_objects@.contains_key(n) ==> exists |j: int| 0 <= j < vx_it.seq().len() && *(#[trigger] vx_it.seq()[j]).0 == n'),
                 ('revision', 'vx_self.revision == self.revision'),
                 ('only_crl_and_objects', 'forall |n: ObjectName| #[trigger] vx_self.entries@.contains_key(n) ==> n == crl.name || published_objects@.contains_key(n)'),
                 ('crl_listed', 'vx_self.entries@.contains_key(crl.name)'),
                 ('entry_done_or_to_come', '''forall |n: ObjectName| #[trigger] published_objects@.contains_key(n) ==>
                        (vx_self.entries@.contains_key(n) && vx_self.entries@[n] == published_objects@[n].hash)
                        || exists |j: int| vx_it.index@ <= j < vx_it.seq().len() && *(#[trigger] vx_it.seq()[j]).0 == n'''),
                 ('crl_hash_unless_an_object_has_its_name', '!published_objects@.contains_key(crl.name) ==> vx_self.entries@[crl.name] == crl.hash'),
             ]}},
             ghost=[
                 (('loop_start', 0), '''let ghost g_e = vx_self.entries@; let ghost g_i = vx_it.index@ as int;
                    proof { assert((name, object) == vx_it.seq()[g_i]); assert(published_objects@.contains_key(*name) && published_objects@[*name] == *object); }'''),
                 (('loop_end', 0), '''proof {
                    assert(vx_self.entries@ == g_e.insert(*name, object.hash));
                    assert forall |n: ObjectName| #[trigger] published_objects@.contains_key(n) implies
                        (vx_self.entries@.contains_key(n) && vx_self.entries@[n] == published_objects@[n].hash)
                        || exists |j: int| g_i + 1 <= j < vx_it.seq().len() && *(#[trigger] vx_it.seq()[j]).0 == n by {
                        if n != *name && !(g_e.contains_key(n) && g_e[n] == published_objects@[n].hash) {
                            let j = choose |j: int| g_i <= j < vx_it.seq().len() && *(#[trigger] vx_it.seq()[j]).0 == n; assert(j != g_i);
                        }
                    }
                 }'''),
             ]),
    ])
    U.impl('impl TrustAnchorObjects', [
        U.fn(TA, 'TrustAnchorObjects', 'next_update', external_body=True, ensures=[('assumed', 'r == next_update_of(weeks)')]),
        U.fn(TA, 'TrustAnchorObjects', 'issued_certs_objects', external_body=True, ensures=[('assumed', 'r@ == issued_objects(self.issued@)')]),
        U.fn(TA, 'TrustAnchorObjects', 'republish',
             closures={'|m|': {'header': '|m: BuiltManifest| -> (o: PublishedManifest)', 'ensures': 'o == m.0'}},
             requires=[('km', km), ('no_overflow', 'mft_number_override is None ==> old(self).revision.number < u64::MAX')],
             ensures=[
                 ('next_number_or_operator_override', '''r is Ok ==> final(self).revision.number == (match mft_number_override { Some(n) => n, None => (old(self).revision.number + 1) as u64 })'''),
                 ('one_number_for_both', 'r is Ok ==> crl_number(final(self).crl) == final(self).revision.number && mft_number(final(self).manifest) == final(self).revision.number'),
                 ('same_window', 'r is Ok ==> crl_window(final(self).crl) == mft_window(final(self).manifest)'),
                 ('crl_from_own_revocations', 'r is Ok ==> crl_revocations(final(self).crl) == final(self).revocations && final(self).revocations == old(self).revocations'),
                 ('manifest_lists_crl_and_issued_certificates', 'r is Ok ==> mft_entries(final(self).manifest) == expected_entries(final(self).crl, issued_objects(final(self).issued@))'),
                 ('only_for_the_ta_key', 'r is Ok ==> cert_key(*signing_cert) == old(self).key_identifier'),
                 ('issued_certificates_untouched', 'final(self).issued@ == old(self).issued@ && final(self).key_identifier == old(self).key_identifier'),
             ]),
    ])
    return U
