"""C09: TaskQueue::schedule_for_ca_event -- every follow-up implied by a committed CA change is put on the queue in the same
pre-save step: repository synchronisation after an object or key change, parent synchronisation after a certificate
request and after a key activation, the revocation task after a class is removed or an unexpected key is found."""
from vxlib import Unit
from units import prelude

MQ = 'src/server/mq.rs'
EV = 'src/server/ca/events.rs'

KEEP = ['RoasUpdated', 'AspaObjectsUpdated', 'ChildCertificatesUpdated', 'BgpSecCertificatesUpdated', 'ChildKeyRevoked', 'KeyPendingToNew',
        'KeyPendingToActive', 'KeyRollFinished', 'KeyRollActivated', 'ParentRemoved', 'ResourceClassRemoved', 'UnexpectedKeyFound', 'CertificateRequested',
        'ParentAdded', 'ParentUpdated', 'RepoUpdated']

SPEC = r'''
/// obligation predicate: a successful schedule call for this task was made on this queue.  Only ever ESTABLISHED by the assumed
/// contract of TaskQueue::schedule, so a function that does not make the call cannot prove it.
pub uninterp spec fn scheduled(q: TaskQueue, t: Task) -> bool;
pub uninterp spec fn ca_handle_of(c: CertAuth) -> CaHandle;
pub uninterp spec fn parent_of(c: CertAuth, rcn: ResourceClassName) -> Option<ParentHandle>;
impl CertAuth {
    #[verifier::external_body] pub fn handle(&self) -> (r: &CaHandle) ensures *r == ca_handle_of(*self) { unimplemented!() }
    #[verifier::external_body] pub fn parent_for_rc(&self, rcn: &ResourceClassName) -> (r: KrillResult<&ParentHandle>)
        ensures match r { Ok(p) => parent_of(*self, *rcn) == Some(*p), Err(_) => parent_of(*self, *rcn) is None } { unimplemented!() }
}
/// the parents of the CA, as a list (CertAuth::parents hands out an iterator over the keys of its parent map; read as the
/// finite list it yields -- ASSUMED)
pub uninterp spec fn parents_of(c: CertAuth) -> Seq<ParentHandle>;
pub uninterp spec fn has_repo(c: CertAuth) -> bool;
impl CertAuth {
    #[verifier::external_body] pub fn parents(&self) -> (r: Vec<ParentHandle>) ensures r@ == parents_of(*self) { unimplemented!() }
    #[verifier::external_body] pub fn repository_contact(&self) -> (r: KrillResult<&RepositoryContact>) ensures (r is Ok) == has_repo(*self) { unimplemented!() }
}
pub assume_specification [now] () -> (r: Priority);
pub open spec fn changes_published_objects(e: CertAuthEvent) -> bool {
    e is RoasUpdated || e is AspaObjectsUpdated || e is ChildCertificatesUpdated || e is BgpSecCertificatesUpdated || e is ChildKeyRevoked
    || e is KeyPendingToNew || e is KeyPendingToActive || e is KeyRollFinished || e is KeyRollActivated || e is ParentRemoved || e is ResourceClassRemoved
}
'''


def build():
    U = Unit('c09_events', 'C09', 'committed CA events put their follow-up tasks on the queue: repo sync, parent sync, revocation tasks')
    prelude.strings(U)
    for t in ['CaHandle', 'ParentHandle', 'ResourceClassName', 'RevocationRequest']:
        U.opaque(t, 'Clone')
    for t in ['Error', 'CertAuth', 'Priority', 'Queue', 'RepositoryContact']:
        U.opaque(t, '')
    U.outside('pub type KrillResult<T> = Result<T, Error>;\npub fn now() -> Priority { unimplemented!() }')
    U.auto_opaque = True
    U.enum(MQ, 'Task', derive=['Clone'])
    U.struct(MQ, 'TaskQueue', derive=[])
    U.enum(EV, 'CertAuthEvent', keep=KEEP, derive=[])
    U.add(SPEC)
    U.impl('impl TaskQueue', [
        U.fn(MQ, 'TaskQueue', 'schedule', external_body=True, ensures=[('assumed', 'r is Ok ==> scheduled(*self, task)')]),
        # the other scheduling entry points: `schedule_missing` keeps an existing (pending OR running) entry and adds nothing, so it
        # does not establish the obligation; `schedule_and_finish_existing` does
        U.fn(MQ, 'TaskQueue', 'schedule_missing', external_body=True),
        U.fn(MQ, 'TaskQueue', 'schedule_and_finish_existing', external_body=True, ensures=[('assumed', 'r is Ok ==> scheduled(*self, task)')]),
        U.fn(MQ, 'TaskQueue', 'schedule_for_ca_event', keep_arms={'CertAuthEvent': KEEP},
             requires=[('kept_events_only', '!(event is VxOther)')],
             loops={0: {'iter': 'vx_it', 'invariant': [
                 ('visited_parents_scheduled', '''forall |j: int| 0 <= j < vx_it.index@ ==>
                        scheduled(*self, Task::SyncParent { ca_handle: ca_handle_of(*ca), ca_version, parent: #[trigger] parents_of(*ca)[j] })'''),
                 ('handle', 'ca_handle == ca_handle_of(*ca)'),
             ]}},
             ghost=[(('loop_start', 0), 'proof { assert(parent == parents_of(*ca)[vx_it.index@ as int]); }')],
             ensures=[
                 # a parent added before the repository is configured is not contacted then; the configuration of the repository is
                 # what starts the synchronisation with EVERY parent the CA has at that point
                 ('configured_repository_starts_the_sync_with_every_parent', '''r is Ok && event is RepoUpdated ==> forall |j: int| 0 <= j < parents_of(*ca).len() ==>
                        scheduled(*self, Task::SyncParent { ca_handle: ca_handle_of(*ca), ca_version, parent: #[trigger] parents_of(*ca)[j] })'''),
                 ('new_or_updated_parent_is_synchronised_once_a_repository_exists', '''r is Ok && has_repo(*ca) ==>
                        (event is ParentAdded ==> scheduled(*self, Task::SyncParent { ca_handle: ca_handle_of(*ca), ca_version, parent: event->ParentAdded_parent }))
                        && (event is ParentUpdated ==> scheduled(*self, Task::SyncParent { ca_handle: ca_handle_of(*ca), ca_version, parent: event->ParentUpdated_parent }))'''),
                 ('object_or_key_change_syncs_the_repository', '''r is Ok && changes_published_objects(*event) ==>
                        scheduled(*self, Task::SyncRepo { ca_handle: ca_handle_of(*ca), ca_version })'''),
                 ('certificate_request_syncs_the_parent', '''r is Ok && event is CertificateRequested && parent_of(*ca, event->CertificateRequested_resource_class_name) is Some ==>
                        scheduled(*self, Task::SyncParent { ca_handle: ca_handle_of(*ca), ca_version, parent: parent_of(*ca, event->CertificateRequested_resource_class_name)->Some_0 })'''),
                 ('key_activation_syncs_the_parent_for_the_revocation', '''r is Ok && event is KeyRollActivated && parent_of(*ca, event->KeyRollActivated_resource_class_name) is Some ==>
                        scheduled(*self, Task::SyncParent { ca_handle: ca_handle_of(*ca), ca_version, parent: parent_of(*ca, event->KeyRollActivated_resource_class_name)->Some_0 })'''),
                 ('removed_class_gets_its_revocation_task', '''r is Ok && event is ResourceClassRemoved ==> exists |t: Task| #[trigger] scheduled(*self, t) && (match t {
                        Task::ResourceClassRemoved { ca_handle, ca_version: v, parent, rcn, revocation_requests } => ca_handle == ca_handle_of(*ca) && v == ca_version
                            && parent == event->ResourceClassRemoved_parent && rcn == event->ResourceClassRemoved_resource_class_name
                            && revocation_requests@ =~= event->ResourceClassRemoved_revoke_requests@,
                        _ => false })'''),
                 ('unexpected_key_gets_its_revocation_task', '''r is Ok && event is UnexpectedKeyFound ==>
                        scheduled(*self, Task::UnexpectedKey { ca_handle: ca_handle_of(*ca), ca_version, rcn: event->UnexpectedKeyFound_resource_class_name,
                            revocation_request: event->UnexpectedKeyFound_revoke_req })'''),
             ]),
    ])
    return U
