from units.c13_handlers import build_file


def extra(U):
    U.opaque('PublisherHandle', 'Clone')
    U.struct('src/api/admin.rs', 'PublisherSummary', derive=[])
    U.struct('src/api/admin.rs', 'PublisherList', derive=[])
    U.impl('impl PublisherSummary', [U.fn('src/api/admin.rs', 'PublisherSummary', 'from_handle')])
    U.outside('''
impl RepositoryResponse { pub fn to_xml_vec(&self) -> Vec<u8> { unimplemented!() } }
impl RepoStats { pub fn stale_publishers(&self, _s: i64) -> std::vec::IntoIter<PublisherHandle> { unimplemented!() } }
''')
    U.add('''
pub assume_specification [RepositoryResponse::to_xml_vec] (x: &RepositoryResponse) -> (r: Vec<u8>);
pub assume_specification [RepoStats::stale_publishers] (x: &RepoStats, s: i64) -> (r: std::vec::IntoIter<PublisherHandle>);
''')


def build():
    return build_file('pubd.rs', 'c13_h_pubd', 'route table /api/v1/pubd/**: each facade call is dominated by proceed_permitted with the required permission',
                      skip=(), extra=extra)
