"""C05 (BGPsec router key definitions): BgpSecDefinitions::process_updates, the whole function verbatim -- a delta is accepted only
if every removed key is defined at that point, every added CSR is validly signed and the CA holds its AS; an accepted delta is
applied entirely: the returned definitions (what the router certificates of the same command are issued from) are exactly what
replaying the returned events (what is stored) gives; nothing is returned on refusal."""
from vxlib import Unit
from units import prelude

BG = 'src/server/ca/bgpsec.rs'
API = 'src/api/bgpsec.rs'
EV = 'src/server/ca/events.rs'
ERR = 'src/commons/error.rs'

SPEC = r'''
pub uninterp spec fn holds_asn(r: ResourceSet, a: Asn) -> bool;
pub assume_specification [ResourceSet::contains_asn] (r: &ResourceSet, a: Asn) -> (b: bool) ensures b == holds_asn(*r, a);
/// CSR self-signature check (rpki-rs), uninterpreted
pub uninterp spec fn csr_valid(c: BgpsecCsr) -> bool;
pub assume_specification [BgpsecCsr::verify_signature] (c: &BgpsecCsr) -> (r: Result<(), CsrError>) ensures r is Ok <==> csr_valid(*c);
pub uninterp spec fn stored_of(c: BgpsecCsr) -> StoredBgpSecCsr;
/// (the stored form also records the time of processing; which time is not part of any clause)
pub assume_specification [StoredBgpSecCsr::from_csr] (c: &BgpsecCsr) -> (r: StoredBgpSecCsr);
pub uninterp spec fn key_of(d: BgpSecDefinition) -> BgpSecAsnKey;
impl From<&BgpSecDefinition> for BgpSecAsnKey { #[verifier::external_body] fn from(d: &BgpSecDefinition) -> (r: Self) ensures r == key_of(*d) { unimplemented!() } }
pub assume_specification [<StoredBgpSecCsr as PartialEq>::eq] (a: &StoredBgpSecCsr, b: &StoredBgpSecCsr) -> (r: bool);
pub assume_specification [CsrError::to_string] (e: &CsrError) -> (s: String);

// ---- what applying the stored events does (CertAuth::apply arms BgpSecDefinitionAdded / Updated / Removed: add_or_replace / remove) ----
pub open spec fn apply_ev(m: Map<BgpSecAsnKey, StoredBgpSecCsr>, e: CertAuthEvent) -> Map<BgpSecAsnKey, StoredBgpSecCsr> {
    match e {
        CertAuthEvent::BgpSecDefinitionAdded { key, csr } => m.insert(key, csr),
        CertAuthEvent::BgpSecDefinitionUpdated { key, csr } => m.insert(key, csr),
        CertAuthEvent::BgpSecDefinitionRemoved { key } => m.remove(key),
        _ => m,
    }
}
pub open spec fn replay(m: Map<BgpSecAsnKey, StoredBgpSecCsr>, evs: Seq<CertAuthEvent>) -> Map<BgpSecAsnKey, StoredBgpSecCsr> decreases evs.len() {
    if evs.len() == 0 { m } else { apply_ev(replay(m, evs.drop_last()), evs.last()) }
}
pub proof fn lemma_replay_push(m: Map<BgpSecAsnKey, StoredBgpSecCsr>, evs: Seq<CertAuthEvent>, e: CertAuthEvent)
    ensures replay(m, evs.push(e)) == apply_ev(replay(m, evs), e)
{ assert(evs.push(e).drop_last() =~= evs); }
/// every removal event removes a key that is defined at that point of the delta
pub open spec fn removals_defined(m: Map<BgpSecAsnKey, StoredBgpSecCsr>, evs: Seq<CertAuthEvent>) -> bool {
    forall |i: int| 0 <= i < evs.len() && (#[trigger] evs[i]) is BgpSecDefinitionRemoved ==> replay(m, evs.subrange(0, i)).contains_key(evs[i]->BgpSecDefinitionRemoved_key)
}
pub proof fn lemma_removals_push(m: Map<BgpSecAsnKey, StoredBgpSecCsr>, evs: Seq<CertAuthEvent>, e: CertAuthEvent)
    requires removals_defined(m, evs), e is BgpSecDefinitionRemoved ==> replay(m, evs).contains_key(e->BgpSecDefinitionRemoved_key)
    ensures removals_defined(m, evs.push(e))
{
    let n = evs.push(e);
    assert forall |i: int| 0 <= i < n.len() && (#[trigger] n[i]) is BgpSecDefinitionRemoved implies replay(m, n.subrange(0, i)).contains_key(n[i]->BgpSecDefinitionRemoved_key) by {
        if i < evs.len() { assert(n.subrange(0, i) =~= evs.subrange(0, i)); assert(n[i] == evs[i]); } else { assert(n.subrange(0, i) =~= evs); }
    }
}
/// every event that adds or replaces a definition is for an AS the CA holds
pub open spec fn only_held(evs: Seq<CertAuthEvent>, res: ResourceSet) -> bool {
    forall |i: int| 0 <= i < evs.len() ==> match #[trigger] evs[i] {
        CertAuthEvent::BgpSecDefinitionAdded { key, .. } => holds_asn(res, key.asn),
        CertAuthEvent::BgpSecDefinitionUpdated { key, .. } => holds_asn(res, key.asn),
        _ => true,
    }
}
'''


def build():
    U = Unit('c05_bgpsec', 'C05', 'BGPsec definition delta: accepted only if removals are defined, CSRs validly signed, AS held; applied entirely (returned definitions == replay of the returned events)')
    prelude.hashmap(U)
    prelude.strings(U)
    U.opaque('Asn', 'Clone, Copy, PartialEq, Eq, Hash')
    U.opaque('KeyIdentifier', 'Clone, Copy, PartialEq, Eq, Hash')
    U.opaque('CaHandle', 'Clone')
    U.opaque('StoredBgpSecCsr', 'Clone, PartialEq')
    U.opaque('BgpsecCsr', 'Clone')
    for t in ['ResourceSet', 'CsrError']:
        U.opaque(t, '')
    U.outside('''
pub type KrillResult<T> = Result<T, Error>;
impl ResourceSet { pub fn contains_asn(&self, _a: Asn) -> bool { unimplemented!() } }
impl BgpsecCsr { pub fn verify_signature(&self) -> Result<(), CsrError> { unimplemented!() } }
impl StoredBgpSecCsr { pub fn from_csr(_c: &BgpsecCsr) -> Self { unimplemented!() } }
impl CsrError { pub fn to_string(&self) -> String { unimplemented!() } }
''')
    U.struct(API, 'BgpSecAsnKey', derive=['Clone', 'Copy', 'PartialEq', 'Eq', 'Hash'], structural=False)
    U.struct(API, 'BgpSecDefinition', derive=['Clone'])
    U.struct(API, 'BgpSecDefinitionUpdates', derive=[])
    U.enum(EV, 'CertAuthEvent', keep=['BgpSecDefinitionAdded', 'BgpSecDefinitionUpdated', 'BgpSecDefinitionRemoved'], derive=[])
    U.enum(ERR, 'Error', keep=['BgpSecDefinitionUnknown', 'BgpSecDefinitionInvalidlySigned', 'BgpSecDefinitionNotEntitled'], derive=[])
    U.struct(BG, 'BgpSecDefinitions', derive=['Clone'])
    U.add(SPEC)
    km = 'obeys_key_model::<BgpSecAsnKey>()'
    U.impl('impl BgpSecDefinitions', [
        U.fn(BG, 'BgpSecDefinitions', 'get_stored_csr', requires=[('km', km)], ensures=[
            ('lookup', 'match r { Some(c) => self.0@.contains_key(*key) && *c == self.0@[*key], None => !self.0@.contains_key(*key) }')]),
        U.fn(BG, 'BgpSecDefinitions', 'has', requires=[('km', km)], ensures=[('lookup', 'r == self.0@.contains_key(*key)')]),
        U.fn(BG, 'BgpSecDefinitions', 'add_or_replace', requires=[('km', km)], ensures=[('inserted', 'final(self).0@ == old(self).0@.insert(key, csr)')]),
        U.fn(BG, 'BgpSecDefinitions', 'remove', requires=[('km', km)], ensures=[
            ('removed_iff_present', 'r == old(self).0@.contains_key(*key)'), ('removed', 'final(self).0@ == old(self).0@.remove(*key)')]),
        U.fn(BG, 'BgpSecDefinitions', 'process_updates', attrs=['#[verifier::loop_isolation(false)]'],
             closures={0: {'header': '|e: CsrError| -> (o: Error)', 'ensures': 'true'}},
             requires=[('km', km)],
             ensures=[
                 ('applied_entirely', 'r is Ok ==> r->Ok_0.0.0@ == replay(self.0@, r->Ok_0.1@)'),
                 ('removals_only_of_defined_keys', 'r is Ok ==> removals_defined(self.0@, r->Ok_0.1@)'),
                 ('only_for_held_as_numbers', 'r is Ok ==> only_held(r->Ok_0.1@, *all_resources)'),
                 ('every_added_definition_checked', '''r is Ok ==> forall |i: int| 0 <= i < updates.add@.len() ==>
                        csr_valid((#[trigger] updates.add@[i]).csr) && holds_asn(*all_resources, key_of(updates.add@[i]).asn)'''),
                 ('every_added_definition_present_afterwards', '''r is Ok ==> forall |i: int| 0 <= i < updates.add@.len() ==>
                        r->Ok_0.0.0@.contains_key(key_of(#[trigger] updates.add@[i]))'''),
             ],
             loops={
                 0: {'iter': 'vx_it', 'invariant': [
                     ('km', km),
                     ('replayed', 'definitions.0@ == replay(self.0@, events@)'),
                     ('removals_defined', 'removals_defined(self.0@, events@)'),
                     ('only_removals_so_far', 'forall |i: int| 0 <= i < events@.len() ==> #[trigger] events@[i] is BgpSecDefinitionRemoved'),
                 ]},
                 1: {'iter': 'vx_it1', 'invariant': [
                     ('km', km),
                     ('list', 'vx_it1.seq() == updates.add@'),
                     ('replayed', 'definitions.0@ == replay(self.0@, events@)'),
                     ('held', 'only_held(events@, *all_resources)'),
                     ('removals_defined', 'removals_defined(self.0@, events@)'),
                     ('checked_so_far', '''forall |i: int| 0 <= i < vx_it1.index@ ==> csr_valid((#[trigger] updates.add@[i]).csr) && holds_asn(*all_resources, key_of(updates.add@[i]).asn)
                            && definitions.0@.contains_key(key_of(updates.add@[i]))'''),
                 ]},
             },
             ghost=[
                 (('loop_start', 0), 'let ghost g_ev = events@;'),
                 (('loop_end', 0), 'proof { if events@.len() > g_ev.len() { assert(events@ =~= g_ev.push(events@.last())); lemma_replay_push(self.0@, g_ev, events@.last()); /*@removed_key_was_defined*/ assert(replay(self.0@, g_ev).contains_key(events@.last()->BgpSecDefinitionRemoved_key)); lemma_removals_push(self.0@, g_ev, events@.last()); } }'),
                 (('loop_start', 1), 'let ghost g_ev = events@; let ghost g_defs = definitions.0@; proof { assert(definition == updates.add@[vx_it1.index@ as int]); }'),
                 (('loop_end', 1), '''proof {
                        if events@.len() > g_ev.len() { assert(events@ =~= g_ev.push(events@.last())); lemma_replay_push(self.0@, g_ev, events@.last()); lemma_removals_push(self.0@, g_ev, events@.last()); }
                        /*@event_replays_to_working_copy*/ assert(definitions.0@ == replay(self.0@, events@));
                        assert forall |i: int| 0 <= i < vx_it1.index@ + 1 implies definitions.0@.contains_key(key_of(#[trigger] updates.add@[i])) by {
                            if i < vx_it1.index@ { assert(g_defs.contains_key(key_of(updates.add@[i]))); }
                        }
                    }'''),
             ]),
    ])
    return U
