"""C03: CertAuth::process_child_remove / process_child_suspend_inactive -- removing (suspending) a child puts EVERY certificate
that is issued to one of its keys, in every resource class, on the removed (suspended) list of a ChildCertificatesUpdated
event for that class (from which the key object set revokes and withdraws it, unit c03_keyobjectset::update_certs)."""
from vxlib import Unit
from units import prelude
from units.c05_child import common

CA = 'src/server/ca/certauth.rs'
CH = 'src/server/ca/child.rs'
API = 'src/api/ca.rs'
EV = 'src/server/ca/events.rs'
ERR = 'src/commons/error.rs'

SPEC = r'''
pub uninterp spec fn rc_issued(rc: ResourceClass, ki: KeyIdentifier) -> Option<IssuedCertificate>;
pub uninterp spec fn csr_key(c: CsrInfo) -> KeyIdentifier;
/// the keys the child uses in a class (ChildDetails::issued: loop over a HashMap with a let-chain; ASSUMED)
pub uninterp spec fn child_keys(c: ChildDetails, rcn: ResourceClassName) -> Seq<KeyIdentifier>;
impl ResourceClass {
    #[verifier::external_body]
    pub fn issued(&self, ki: &KeyIdentifier) -> (r: Option<&IssuedCertificate>)
        ensures match r { Some(c) => rc_issued(*self, *ki) == Some(*c), None => rc_issued(*self, *ki) is None } { unimplemented!() }
}
pub assume_specification [CsrInfo::key_id] (c: &CsrInfo) -> (r: KeyIdentifier) ensures r == csr_key(*c);

/// every certificate issued to one of `keys` in class `rc` is named on the removed list `rem`
pub open spec fn all_removed(rem: Seq<KeyIdentifier>, rc: ResourceClass, keys: Seq<KeyIdentifier>, n: int) -> bool {
    forall |j: int| 0 <= j < n && rc_issued(rc, #[trigger] keys[j]) is Some ==> rem.contains(csr_key(rc_issued(rc, keys[j])->Some_0.csr_info))
}
/// ... is on the suspended list `sus` (same request info and resources, so the same certificate)
pub open spec fn all_suspended(sus: Seq<SuspendedCert>, rc: ResourceClass, keys: Seq<KeyIdentifier>, n: int) -> bool {
    forall |j: int| 0 <= j < n && rc_issued(rc, #[trigger] keys[j]) is Some ==>
        exists |i: int| 0 <= i < sus.len() && (#[trigger] sus[i]).csr_info == rc_issued(rc, keys[j])->Some_0.csr_info && sus[i].serial == rc_issued(rc, keys[j])->Some_0.serial
}
pub open spec fn class_removed(evs: Seq<CertAuthEvent>, rcn: ResourceClassName, rc: ResourceClass, keys: Seq<KeyIdentifier>) -> bool {
    keys.len() == 0 || exists |i: int| 0 <= i < evs.len() && (match #[trigger] evs[i] {
        CertAuthEvent::ChildCertificatesUpdated { resource_class_name, updates } => resource_class_name == rcn && all_removed(updates.removed@, rc, keys, keys.len() as int),
        _ => false })
}
pub open spec fn class_suspended(evs: Seq<CertAuthEvent>, rcn: ResourceClassName, rc: ResourceClass, keys: Seq<KeyIdentifier>) -> bool {
    keys.len() == 0 || exists |i: int| 0 <= i < evs.len() && (match #[trigger] evs[i] {
        CertAuthEvent::ChildCertificatesUpdated { resource_class_name, updates } => resource_class_name == rcn && all_suspended(updates.suspended@, rc, keys, keys.len() as int),
        _ => false })
}
pub proof fn lemma_class_removed_mono(a: Seq<CertAuthEvent>, e: CertAuthEvent, rcn: ResourceClassName, rc: ResourceClass, keys: Seq<KeyIdentifier>)
    requires class_removed(a, rcn, rc, keys) ensures class_removed(a.push(e), rcn, rc, keys)
{
    if keys.len() != 0 {
        let i = choose |i: int| 0 <= i < a.len() && (match #[trigger] a[i] {
            CertAuthEvent::ChildCertificatesUpdated { resource_class_name, updates } => resource_class_name == rcn && all_removed(updates.removed@, rc, keys, keys.len() as int),
            _ => false });
        assert(a.push(e)[i] == a[i]);
    }
}
pub proof fn lemma_class_suspended_mono(a: Seq<CertAuthEvent>, e: CertAuthEvent, rcn: ResourceClassName, rc: ResourceClass, keys: Seq<KeyIdentifier>)
    requires class_suspended(a, rcn, rc, keys) ensures class_suspended(a.push(e), rcn, rc, keys)
{
    if keys.len() != 0 {
        let i = choose |i: int| 0 <= i < a.len() && (match #[trigger] a[i] {
            CertAuthEvent::ChildCertificatesUpdated { resource_class_name, updates } => resource_class_name == rcn && all_suspended(updates.suspended@, rc, keys, keys.len() as int),
            _ => false });
        assert(a.push(e)[i] == a[i]);
    }
}

/// C06: the stored event refers only to a child and a resource class this CA knows (what CertAuth::apply unwraps, unit c06_apply)
pub open spec fn ev_ok(ca: CertAuth, ev: CertAuthEvent) -> bool {
    match ev {
        CertAuthEvent::ChildCertificatesUpdated { resource_class_name, .. } => ca.resources@.contains_key(resource_class_name),
        CertAuthEvent::ChildSuspended { child } => ca.children@.contains_key(child),
        _ => true,
    }
}
'''


def build():
    U = Unit('c03_child_remove', 'C03', 'child removal / suspension: every certificate issued to the child, in every class, is on the removed / suspended list of that class')
    common(U, skip=('ChildState',))
    U.opaque('Hash', 'Clone, Copy')
    for t in ['ObjectName', 'RequestResourceLimit', 'Name', 'CsrInfo', 'Base64', 'Issued', 'Suspended', 'Unsuspended']:
        U.opaque(t, 'Clone')
    U.opaque('Rsync', 'Clone', module='uri')
    U.opaque('Validity', 'Clone, Copy')
    U.opaque('Serial', 'Clone, Copy')
    U.outside('''
pub type IssuedCertificate = CertInfo<Issued>;
pub type SuspendedCert = CertInfo<Suspended>;
pub type UnsuspendedCert = CertInfo<Unsuspended>;
impl CsrInfo { pub fn key_id(&self) -> KeyIdentifier { unimplemented!() } }
''')
    U.enum(API, 'ChildState', derive=['Clone', 'Copy'])
    U.struct(API, 'CertInfo', derive=['Clone'])
    U.struct(CA, 'CertAuth', derive=[])
    U.struct(CH, 'ChildDetails', derive=[])
    U.struct(CH, 'ChildCertificateUpdates', derive=[], default_ensures=[
        ('empty', 'r.issued@.len() == 0 && r.removed@.len() == 0 && r.suspended@.len() == 0 && r.unsuspended@.len() == 0')])
    U.enum(EV, 'CertAuthEvent', keep=['ChildCertificatesUpdated', 'ChildRemoved', 'ChildSuspended'], derive=[])
    U.enum(ERR, 'Error', keep=['CaChildUnknown'], derive=[])
    U.add(SPEC)
    km = 'obeys_key_model::<ChildHandle>() && obeys_key_model::<ResourceClassName>() && obeys_key_model::<KeyIdentifier>()'
    U.impl('impl ChildState', [
        U.fn(API, 'ChildState', 'is_suspended', ensures=[('is_variant', 'r == (self is Suspended)')]),
    ])
    U.impl('impl<T> CertInfo<T>', [
        U.fn(API, 'CertInfo', 'key_identifier', ensures=[('is_csr_key', 'r == csr_key(self.csr_info)')]),
        U.fn(API, 'CertInfo', 'to_converted', ensures=[('same_certificate', 'r.csr_info == self.csr_info && r.serial == self.serial && r.resources == self.resources')]),
    ])
    U.impl('impl ChildDetails', [
        U.fn(CH, 'ChildDetails', 'issued', external_body=True, ensures=[('assumed', 'r@ == child_keys(*self, *parent_rcn)')]),
        # the class-name translations exist for the child's view of the protocol; used_keys is recorded under OUR class names
        U.fn(CH, 'ChildDetails', 'name_for_parent_rcn', external_body=True),
        U.fn(CH, 'ChildDetails', 'parent_name_for_rcn', external_body=True),
    ])

    def outer_inv(pred):
        return [('km', km),
                ('child', 'self.children@.contains_key(*child_handle) && *child == self.children@[*child_handle]'),
                ('pairs', '''vx_it.seq().len() == self.resources@.len() && (forall |i: int| 0 <= i < vx_it.seq().len() ==> self.resources@.contains_key(*(#[trigger] vx_it.seq()[i]).0)
                        && self.resources@[*vx_it.seq()[i].0] == *vx_it.seq()[i].1) && vx_it.seq().no_duplicates()'''),
                ('events_so_far_applicable', 'forall |i: int| 0 <= i < res@.len() ==> ev_ok(*self, #[trigger] res@[i]) && !(res@[i] is ChildRemoved)'),
                ('classes_done_or_to_come', f'''forall |n: ResourceClassName| #[trigger] self.resources@.contains_key(n) ==>
                        {pred}(res@, n, self.resources@[n], child_keys(*child, n))
                        || exists |j: int| vx_it.index@ <= j < vx_it.seq().len() && *(#[trigger] vx_it.seq()[j]).0 == n''')]

    def ghost(pred, lem, inner_pred, field):
        return [
            (('loop_start', 0), '''let ghost g_res = res@; let ghost g_i = vx_it.index@ as int;
            proof {
                assert(*rcn == *vx_it.seq()[g_i].0 && *rc == *vx_it.seq()[g_i].1);
                assert forall |i: int| 0 <= i < vx_it.seq().len() && i != g_i implies *(#[trigger] vx_it.seq()[i]).0 != *rcn by {
                    let a = vx_it.seq()[i]; let b = vx_it.seq()[g_i];
                    if *a.0 == *b.0 { assert(*a.1 == self.resources@[*a.0]); assert(*b.1 == self.resources@[*b.0]); assert(a == b); }
                }
            }'''),
            (('loop_end', 0), f'''proof {{
                assert forall |n: ResourceClassName| #[trigger] self.resources@.contains_key(n) implies
                        {pred}(res@, n, self.resources@[n], child_keys(*child, n))
                        || exists |j: int| g_i + 1 <= j < vx_it.seq().len() && *(#[trigger] vx_it.seq()[j]).0 == n by {{
                    if n == *rcn {{
                        if child_keys(*child, n).len() != 0 {{ /*@this_class_event_lists_every_certificate*/ assert({pred}(res@, n, self.resources@[n], child_keys(*child, n))); }}
                    }} else if {pred}(g_res, n, self.resources@[n], child_keys(*child, n)) {{
                        if res@.len() > g_res.len() {{ {lem}(g_res, res@.last(), n, self.resources@[n], child_keys(*child, n)); assert(res@ =~= g_res.push(res@.last())); }}
                    }} else {{
                        let j = choose |j: int| g_i <= j < vx_it.seq().len() && *(#[trigger] vx_it.seq()[j]).0 == n;
                        assert(j != g_i);
                    }}
                }}
            }}'''),
        ]

    def inner_inv(inner_pred, field):
        return [('km', km),
                ('child', 'self.children@.contains_key(*child_handle) && *child == self.children@[*child_handle]'),
                ('keys', 'vx_it2.seq() == child_keys(*child, *rcn)'),
                ('so_far', f'{inner_pred}(cert_updates.{field}@, *rc, child_keys(*child, *rcn), vx_it2.index@ as int)'),
                ('outer_frozen', 'res@ == g_res')]

    rem_inner_ghost = [
        (('loop_start', 1), '''let ghost g_rem = cert_updates.removed@; let ghost g_j = vx_it2.index@ as int;
                proof { assert(key == vx_it2.seq()[g_j]); }'''),
        (('loop_end', 1), '''proof {
                    assert forall |j: int| 0 <= j < g_j + 1 && rc_issued(*rc, #[trigger] child_keys(*child, *rcn)[j]) is Some implies
                            cert_updates.removed@.contains(csr_key(rc_issued(*rc, child_keys(*child, *rcn)[j])->Some_0.csr_info)) by {
                        if j < g_j {
                            let w = choose |w: int| 0 <= w < g_rem.len() && g_rem[w] == csr_key(rc_issued(*rc, child_keys(*child, *rcn)[j])->Some_0.csr_info);
                            assert(cert_updates.removed@[w] == g_rem[w]);
                        } else { /*@this_certificate_goes_on_the_removed_list*/ assert(cert_updates.removed@[g_rem.len() as int] == csr_key(rc_issued(*rc, key)->Some_0.csr_info)); }
                    }
                }'''),
        (('after_loop', 1), '''proof { assert(all_removed(cert_updates.removed@, *rc, child_keys(*child, *rcn), child_keys(*child, *rcn).len() as int)); }'''),
    ]
    sus_inner_ghost = [
        (('loop_start', 1), '''let ghost g_sus = cert_updates.suspended@; let ghost g_j = vx_it2.index@ as int;
                proof { assert(key == vx_it2.seq()[g_j]); }'''),
        (('loop_end', 1), '''proof {
                    assert forall |j: int| 0 <= j < g_j + 1 && rc_issued(*rc, #[trigger] child_keys(*child, *rcn)[j]) is Some implies
                            exists |i: int| 0 <= i < cert_updates.suspended@.len() && (#[trigger] cert_updates.suspended@[i]).csr_info == rc_issued(*rc, child_keys(*child, *rcn)[j])->Some_0.csr_info
                                && cert_updates.suspended@[i].serial == rc_issued(*rc, child_keys(*child, *rcn)[j])->Some_0.serial by {
                        if j < g_j {
                            let w = choose |w: int| 0 <= w < g_sus.len() && (#[trigger] g_sus[w]).csr_info == rc_issued(*rc, child_keys(*child, *rcn)[j])->Some_0.csr_info
                                && g_sus[w].serial == rc_issued(*rc, child_keys(*child, *rcn)[j])->Some_0.serial;
                            assert(cert_updates.suspended@[w] == g_sus[w]);
                        } else { /*@this_certificate_goes_on_the_suspended_list*/ assert(cert_updates.suspended@[g_sus.len() as int].csr_info == rc_issued(*rc, key)->Some_0.csr_info); }
                    }
                }'''),
        (('after_loop', 1), '''proof { assert(all_suspended(cert_updates.suspended@, *rc, child_keys(*child, *rcn), child_keys(*child, *rcn).len() as int)); }'''),
    ]
    U.impl('impl CertAuth', [
        U.fn(CA, 'CertAuth', 'get_child', requires=[('km', km)], ensures=[
            ('known', 'r is Ok <==> self.children@.contains_key(*child)'), ('details', 'r is Ok ==> *r->Ok_0 == self.children@[*child]')]),
        U.fn(CA, 'CertAuth', 'process_child_remove', requires=[('km', km)], hash_loops=(0,),
             ensures=[
                 ('every_certificate_of_the_child_is_revoked', '''r is Ok ==> forall |n: ResourceClassName| #[trigger] self.resources@.contains_key(n) ==>
                        class_removed(r->Ok_0@, n, self.resources@[n], child_keys(self.children@[*child_handle], n))'''),
                 ('child_removed_last', 'r is Ok ==> r->Ok_0@.len() > 0 && r->Ok_0@.last() == (CertAuthEvent::ChildRemoved { child: *child_handle })'),
                 ('replayable_only_known_classes_named_and_the_child_removed_last', '''r is Ok ==> (forall |i: int| 0 <= i < r->Ok_0@.len() ==> ev_ok(*self, #[trigger] r->Ok_0@[i]))
                        && (forall |i: int| 0 <= i < r->Ok_0@.len() - 1 ==> !(#[trigger] r->Ok_0@[i] is ChildRemoved))'''),
                 ('unknown_child_refused', '!self.children@.contains_key(*child_handle) ==> r is Err'),
             ],
             loops={0: {'iter': 'vx_it', 'invariant': outer_inv('class_removed')},
                    1: {'iter': 'vx_it2', 'invariant': inner_inv('all_removed', 'removed')}},
             ghost=ghost('class_removed', 'lemma_class_removed_mono', 'all_removed', 'removed') + rem_inner_ghost + [
                 (('after_loop', 0), 'let ghost g_after = res@;'),
                 (('before', 'Ok(res)', 0), '''proof {
            assert(res@ =~= g_after.push(res@.last()));
            assert forall |n: ResourceClassName| #[trigger] self.resources@.contains_key(n) implies class_removed(res@, n, self.resources@[n], child_keys(*child, n)) by {
                lemma_class_removed_mono(g_after, res@.last(), n, self.resources@[n], child_keys(*child, n));
            }
        }''')]),
        U.fn(CA, 'CertAuth', 'process_child_suspend_inactive', requires=[('km', km)], hash_loops=(0,),
             ensures=[
                 ('every_certificate_of_the_child_is_suspended', '''r is Ok && !(self.children@[*child_handle].state is Suspended) ==> forall |n: ResourceClassName| #[trigger] self.resources@.contains_key(n) ==>
                        class_suspended(r->Ok_0@, n, self.resources@[n], child_keys(self.children@[*child_handle], n))'''),
                 ('replayable_only_known_child_and_classes_named', 'r is Ok ==> forall |i: int| 0 <= i < r->Ok_0@.len() ==> ev_ok(*self, #[trigger] r->Ok_0@[i])'),
                 ('already_suspended_is_a_noop', 'self.children@.contains_key(*child_handle) && self.children@[*child_handle].state is Suspended ==> r is Ok && r->Ok_0@.len() == 0'),
             ],
             loops={0: {'iter': 'vx_it', 'invariant': outer_inv('class_suspended')},
                    1: {'iter': 'vx_it2', 'invariant': inner_inv('all_suspended', 'suspended')}},
             ghost=ghost('class_suspended', 'lemma_class_suspended_mono', 'all_suspended', 'suspended') + sus_inner_ghost + [
                 (('after_loop', 0), 'let ghost g_after = res@;'),
                 (('before', 'Ok(res)', 1), '''proof {
            if res@.len() > g_after.len() {
                assert(res@ =~= g_after.push(res@.last()));
                assert forall |n: ResourceClassName| #[trigger] self.resources@.contains_key(n) implies class_suspended(res@, n, self.resources@[n], child_keys(*child, n)) by {
                    lemma_class_suspended_mono(g_after, res@.last(), n, self.resources@[n], child_keys(*child, n));
                }
            }
        }''')]),
    ])
    return U
