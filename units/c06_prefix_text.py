"""C06 (stored data reads back): TypedPrefix::from_str -- which family a stored prefix string is read as.  Every textual form of an
IPv6 prefix contains a colon (also the mixed notation `::ffff:1.2.3.0/120` that std prints for IPv4-mapped addresses, which contains
dots as well) and no IPv4 form does, so a text with a colon must be read as IPv6 and one without as IPv4; otherwise a ROA
configuration that was accepted and stored cannot be read back and the history of the CA no longer replays (F16)."""
from vxlib import Unit
from units import prelude

ROA = 'src/api/roa.rs'

OUT = '''
impl Prefix {
    pub fn from_v4_str(_s: &str) -> Result<Prefix, PrefixError> { unimplemented!() }
    pub fn from_v6_str(_s: &str) -> Result<Prefix, PrefixError> { unimplemented!() }
}
impl From<Prefix> for Ipv4Prefix { fn from(_p: Prefix) -> Self { unimplemented!() } }
impl From<Prefix> for Ipv6Prefix { fn from(_p: Prefix) -> Self { unimplemented!() } }
impl AuthorizationFmtError { pub fn pfx(_s: &str) -> Self { unimplemented!() } }
pub fn vx_has_char(_s: &str, _c: char) -> bool { unimplemented!() }
pub fn vx_trim(_s: &str) -> &str { unimplemented!() }
'''

SPEC = r'''
pub assume_specification [Prefix::from_v4_str] (s: &str) -> (r: Result<Prefix, PrefixError>);
pub assume_specification [Prefix::from_v6_str] (s: &str) -> (r: Result<Prefix, PrefixError>);
pub assume_specification [<Ipv4Prefix as From<Prefix>>::from] (p: Prefix) -> (r: Ipv4Prefix);
pub assume_specification [<Ipv6Prefix as From<Prefix>>::from] (p: Prefix) -> (r: Ipv6Prefix);
pub assume_specification [AuthorizationFmtError::pfx] (s: &str) -> (r: AuthorizationFmtError);
/// `s.contains(c)` for a character pattern (tagged substitution: str::contains is generic over the unstable Pattern trait)
pub uninterp spec fn has_char(s: Seq<char>, c: char) -> bool;
pub assume_specification [vx_has_char] (s: &str, c: char) -> (r: bool) ensures r == has_char(s@, c);
pub assume_specification [vx_trim] (s: &str) -> (r: &str);
'''


def build():
    U = Unit('c06_prefix_text', 'C06', 'TypedPrefix::from_str reads a text with a colon as IPv6 and one without as IPv4 (so every printed prefix, mixed notation included, reads back)')
    prelude.strings(U)
    for t in ['Prefix', 'PrefixError', 'Ipv4Prefix', 'Ipv6Prefix', 'AuthorizationFmtError']:
        U.opaque(t, '')
    U.outside(OUT)
    U.enum(ROA, 'TypedPrefix', derive=[])
    U.add(SPEC)
    U.impl('impl TypedPrefix', [
        U.fn(ROA, 'TypedPrefix', 'from_str', trait='FromStr', as_inherent=True,
             subst=[('Result<Self, Self::Err>', 'Result<Self, AuthorizationFmtError>', 'R9'), ("prefix.contains(", "vx_has_char(prefix, ", 'R14'), ('from_v4_str(prefix.trim())', 'from_v4_str(vx_trim(prefix))', 'R14'), ('from_v6_str(prefix.trim())', 'from_v6_str(vx_trim(prefix))', 'R14')],
             closures={'|_|*': {'header': '|_e: PrefixError| -> (o: AuthorizationFmtError)', 'ensures': 'true'}},
             ensures=[('family_decided_by_the_colon', '''r is Ok ==> ((r->Ok_0 is V6) <==> has_char(prefix@, ':'))''')]),
    ])
    return U
