"""C17: the classification predicates of BgpAnalyser::categorise_roa (closure bodies lifted verbatim, R15) against RFC 6811:
a ROA is only called redundant if the other ROA validates everything it validates; `authorizes` are exactly the covered
route origins the ROA matches; `disallows` are the covered route origins that are invalid."""
from vxlib import Unit
from units import prelude
from units import c17_validate as CV

AN = CV.AN
RW = CV.RW
API = CV.API

SPEC = r'''
pub uninterp spec fn tp_len(p: TypedPrefix) -> u8;
pub assume_specification [TypedPrefix::addr_len] (p: TypedPrefix) -> (r: u8) ensures r == tp_len(p);
pub open spec fn peml(p: RoaPayload) -> u8 { match p.max_length { Some(m) => m, None => tp_len(p.prefix) } }
/// RFC 6811 match for a payload whose prefix (as P) is `pp`
pub open spec fn pmatches<P: RoutePrefix>(pl: RoaPayload, pp: P, o: RouteOrigin<P>) -> bool {
    pl.asn == o.origin && pp.covers_spec(o.prefix) && peml(pl) >= o.prefix.len_spec()
}
/// ASSUMED prefix algebra of the RoutePrefix implementations (each instance is proved on the bit level for Ipv4Prefix and
/// Ipv6Prefix by engine K, group k_bgp_prefix: k_covers_reflexive_*, k_covers_transitive_*, k_covers_len_*, k_subprefix_*)
pub uninterp spec fn sub<P: RoutePrefix>(p: P, l: u8) -> P;
pub uninterp spec fn fam_max<P: RoutePrefix>() -> u8;
#[verifier::external_body] pub proof fn axiom_covers_refl<P: RoutePrefix>(p: P) ensures p.covers_spec(p) {}
#[verifier::external_body] pub proof fn axiom_covers_trans<P: RoutePrefix>(a: P, b: P, c: P) requires a.covers_spec(b), b.covers_spec(c) ensures a.covers_spec(c) {}
#[verifier::external_body] pub proof fn axiom_covers_len<P: RoutePrefix>(a: P, b: P) requires a.covers_spec(b) ensures a.len_spec() <= b.len_spec() {}
#[verifier::external_body] pub proof fn axiom_subprefix<P: RoutePrefix>(p: P, l: u8) requires p.len_spec() <= l <= fam_max::<P>()
    ensures p.covers_spec(sub(p, l)), sub(p, l).len_spec() == l {}
/// everything `roa` validates is validated by the payload `other` (whose prefix is `op`)
pub open spec fn includes<P: RoutePrefix>(other: RoaPayload, op: P, roa: Roa<'_, P>) -> bool {
    forall |o: RouteOrigin<P>| #[trigger] CV_matches(roa, o) ==> pmatches(other, op, o)
}
pub open spec fn CV_matches<P: RoutePrefix>(r: Roa<'_, P>, o: RouteOrigin<P>) -> bool { matches(r, o) }
'''


def build():
    U = Unit('c17_categorise', 'C17', 'categorise_roa predicates (lifted closure bodies): redundant only if included; authorizes == matched covered origins; disallows == invalid covered origins')
    prelude.strings(U)
    U.opaque('TypedPrefix', 'Clone, Copy, PartialEq, Eq, Hash', eq=True)
    U.opaque('RoaInfo', 'Clone')
    U.outside('use std::fmt;\nimpl TypedPrefix { pub fn addr_len(self) -> u8 { unimplemented!() } }')
    U.struct(API, 'AsNumber', derive=['Clone', 'Copy', 'PartialEq', 'Eq'])
    U.struct(API, 'RoaPayload', derive=['Clone', 'Copy', 'PartialEq', 'Eq'], structural=False)
    U.struct(API, 'RoaConfiguration', derive=[])
    U.struct(API, 'ConfiguredRoa', derive=[])
    U.struct(RW, 'RouteOrigin', derive=['Clone', 'Copy'], structural=False)
    U.struct(AN, 'Roa', derive=['Clone', 'Copy'], structural=False)
    U.struct(AN, 'ValidatedRouteOrigin', derive=[])
    U.enum(AN, 'RouteOriginValidity', derive=['Clone', 'Copy', 'PartialEq', 'Eq'], structural=False)
    U.trait(RW, 'RoutePrefix', spec='    spec fn covers_spec(self, other: Self) -> bool;\n    spec fn len_spec(self) -> u8;',
            methods={'covers': [('is_spec', 'r == self.covers_spec(other)')], 'addr_len': [('is_spec', 'r == self.len_spec()')]})
    U.add(CV.SPEC)
    U.add(SPEC)
    U.impl('impl RoaPayload', [
        U.fn(API, 'RoaPayload', 'effective_max_length', ensures=[('is_peml', 'r == peml(*self)')]),
    ])
    U.impl("impl<'a, P: RoutePrefix> Roa<'a, P>", [
        U.fn(AN, 'Roa', 'payload', ensures=[('is_field', 'r == self.roa.roa_configuration.payload')]),
        U.fn(AN, 'Roa', 'origin', ensures=[('is_field', 'r == self.roa.roa_configuration.payload.asn')]),
        U.fn(AN, 'Roa', 'max_len', ensures=[('is_field', 'r == self.roa.roa_configuration.payload.max_length')]),
        U.fn(AN, 'Roa', 'effective_max_len', ensures=[('is_eml', 'r == eml(self)')]),
    ])
    wf_roa = 'roa.prefix.len_spec() <= eml(roa) <= fam_max::<P>()'
    U.free(U.closure_fn(AN, 'BgpAnalyser', 'categorise_roa', 0, 'vx_covered',
                       "<'a, P: RoutePrefix>(origin: &ValidatedRouteOrigin<P>, roa: Roa<'a, P>) -> (r: bool)",
                       ensures=[('is_covers', 'r == roa.prefix.covers_spec(origin.route_origin.prefix)')]))
    U.free(U.closure_fn(AN, 'BgpAnalyser', 'categorise_roa', 3, 'vx_including',
                       "<'a, P: RoutePrefix>(other: &RoaPayload, roa: Roa<'a, P>, Ghost(op): Ghost<P>) -> (r: bool)",
                       requires=[('other_covers_this_prefix', 'op.covers_spec(roa.prefix) && tp_len(other.prefix) == op.len_spec()'),
                                 ('max_length_valid', wf_roa)],
                       ensures=[('redundant_only_if_included', 'r ==> includes(*other, op, roa)'),
                                ('included_implies_redundant', 'includes(*other, op, roa) ==> r')],
                       ghost_start='''proof {
        if other.asn == roa.roa.roa_configuration.payload.asn && peml(*other) >= eml(roa) {
            assert forall |o: RouteOrigin<P>| #[trigger] CV_matches(roa, o) implies pmatches(*other, op, o) by { axiom_covers_trans(op, roa.prefix, o.prefix); }
        } else {
            // witness: the most specific route this ROA validates, announced by its own AS
            let w = RouteOrigin::<P> { prefix: sub(roa.prefix, eml(roa)), origin: roa.roa.roa_configuration.payload.asn };
            axiom_subprefix(roa.prefix, eml(roa));
            assert(CV_matches(roa, w));
            assert(!pmatches(*other, op, w));
        }
        axiom_covers_len(op, roa.prefix);
    }
'''))
    U.free(U.closure_fn(AN, 'BgpAnalyser', 'categorise_roa', 4, 'vx_authorizes',
                       "<'a, P: RoutePrefix>(origin: &&ValidatedRouteOrigin<P>, roa: Roa<'a, P>) -> (r: bool)",
                       requires=[('covered', 'roa.prefix.covers_spec(origin.route_origin.prefix)'),
                                 ('validated_against_this_roa', 'matches(roa, origin.route_origin) ==> origin.validity is Valid')],
                       ensures=[('authorizes_iff_roa_matches', 'r <==> matches(roa, origin.route_origin)')]))
    U.free(U.closure_fn(AN, 'BgpAnalyser', 'categorise_roa', 6, 'vx_disallows',
                       "<P: RoutePrefix>(origin: &&ValidatedRouteOrigin<P>) -> (r: bool)",
                       ensures=[('disallows_iff_invalid', 'r <==> (origin.validity is InvalidLength || origin.validity is InvalidAsn)')]))
    return U
