"""C05: ASPA delta processing (AspaDefinitions::process_updates) -- refused exactly when ...; a delta that is accepted is applied
entirely: replaying the returned events gives the returned (and published) definitions."""
from vxlib import Unit
from units import prelude

ASPA = 'src/server/ca/aspa.rs'
API = 'src/api/aspa.rs'
ERR = 'src/commons/error.rs'
EV = 'src/server/ca/events.rs'

SPEC = r'''
pub uninterp spec fn holds_asn(r: ResourceSet, a: Asn) -> bool;
pub assume_specification [ResourceSet::contains_asn] (r: &ResourceSet, a: Asn) -> (b: bool) ensures b == holds_asn(*r, a);
pub type PSet = Set<Asn>;
/// the configuration as the user sees it: customer -> set of providers
pub type AView = Map<Asn, PSet>;
pub open spec fn aview(d: AspaDefinitions) -> AView { d.attestations@.map_values(|x: AspaDefinition| x.providers@.to_set()) }
pub open spec fn upd(base: PSet, u: AspaProvidersUpdate) -> PSet { base.difference(u.removed@.to_set()).union(u.added@.to_set()) }
/// CertAuth::apply for the three ASPA configuration events (dispatch transcribed; AspaDefinitions::{add_or_replace, remove,
/// apply_update} are verified against these arms below)
pub open spec fn apply_ev(m: AView, e: CertAuthEvent) -> AView {
    match e {
        CertAuthEvent::AspaConfigAdded { aspa_config } => m.insert(aspa_config.customer, aspa_config.providers@.to_set()),
        CertAuthEvent::AspaConfigRemoved { customer } => m.remove(customer),
        CertAuthEvent::AspaConfigUpdated { customer, update } => {
            // (AspaDefinitions::apply_update: an existing definition that ends up without providers is dropped; an update for
            //  an unknown customer creates the definition from the added providers)
            if m.contains_key(customer) {
                let n = upd(m[customer], update);
                if n =~= Set::<Asn>::empty() { m.remove(customer) } else { m.insert(customer, n) }
            } else { m.insert(customer, upd(Set::empty(), update)) }
        }
        _ => m,
    }
}
pub open spec fn replay(m: AView, evs: Seq<CertAuthEvent>) -> AView decreases evs.len() {
    if evs.len() == 0 { m } else { apply_ev(replay(m, evs.drop_last()), evs.last()) }
}
pub proof fn lemma_replay_push(m: AView, evs: Seq<CertAuthEvent>, e: CertAuthEvent)
    ensures replay(m, evs.push(e)) == apply_ev(replay(m, evs), e)
{ assert(evs.push(e).drop_last() =~= evs); }
/// malformed definition (statement: empty or duplicated provider list, customer listed as its own provider)
pub open spec fn malformed(d: AspaDefinition) -> bool {
    d.providers@.len() == 0 || d.providers@.contains(d.customer) || !d.providers@.no_duplicates()
}
'''


CA_SPEC = r'''
/// everything the CA currently holds under all parents (CertAuth::all_resources; verified in unit c05_allres)
pub uninterp spec fn all_res(ca: CertAuth) -> ResourceSet;
/// the providers of a customer as configured now (none: no definition)
pub open spec fn providers_now(ca: CertAuth, customer: Asn) -> PSet {
    if ca.aspas.attestations@.contains_key(customer) { ca.aspas.attestations@[customer].providers@.to_set() } else { Set::<Asn>::empty() }
}
'''


def build():
    U = Unit('c05_aspa', 'C05', 'ASPA delta: refused exactly when malformed / customer not held / removes an unknown customer; accepted delta applied entirely (event replay == result)')
    prelude.hashmap(U, get_mut=True)
    prelude.strings(U)
    U.opaque('Asn', 'Clone, Copy, PartialEq, Eq, Hash, PartialOrd, Ord', eq=True, clone_spec=True)
    for t in ['CaHandle']:
        U.opaque(t, 'Clone')
    U.opaque('ResourceSet', '')
    U.outside('''
pub type CustomerAsn = Asn;
pub type ProviderAsn = Asn;
pub type KrillResult<T> = Result<T, Error>;
impl ResourceSet { pub fn contains_asn(&self, _a: Asn) -> bool { unimplemented!() } }
/// R14: stands for `a.iter().filter(|x| !b.contains(x)).copied().collect()` (iterator chain, outside the verifier)
pub fn vx_minus(_a: &Vec<Asn>, _b: &Vec<Asn>) -> Vec<Asn> { unimplemented!() }
''')
    U.struct(API, 'AspaDefinition', derive=['Clone', 'PartialEq', 'Eq'], structural=False)
    U.struct(API, 'AspaDefinitionUpdates', derive=[])
    U.struct(API, 'AspaProvidersUpdate', derive=[])
    U.struct(ASPA, 'AspaDefinitions', derive=['Clone'])
    U.enum(EV, 'CertAuthEvent', keep=['AspaConfigAdded', 'AspaConfigUpdated', 'AspaConfigRemoved'], derive=[])
    U.enum(ERR, 'Error', keep=['AspaCustomerUnknown', 'AspaProvidersEmpty', 'AspaCustomerAsProvider', 'AspaProvidersDuplicates', 'AspaCustomerAsNotEntitled'], derive=[])
    U.auto_opaque = True
    U.struct('src/server/ca/certauth.rs', 'CertAuth', derive=[])
    U.add(SPEC)
    U.add(CA_SPEC)
    U.add('''
/// ASSUMED (std): sort gives a sorted permutation; dedup of a sorted vector leaves each value exactly once; slice contains
pub uninterp spec fn is_sorted<T>(s: Seq<T>) -> bool;
pub assume_specification<T: Ord> [<[T]>::sort] (s: &mut [T]) ensures final(s)@.to_multiset() == old(s)@.to_multiset(), final(s)@.len() == old(s)@.len(), is_sorted(final(s)@);
pub assume_specification<T: PartialEq, A: std::alloc::Allocator> [Vec::<T, A>::dedup] (v: &mut Vec<T, A>)
    ensures is_sorted(old(v)@) ==> final(v)@.no_duplicates() && final(v)@.to_set() == old(v)@.to_set();
pub assume_specification<T: PartialEq> [<[T]>::contains] (s: &[T], x: &T) -> (r: bool) ensures r == s@.contains(*x);
pub assume_specification [vx_minus] (a: &Vec<Asn>, b: &Vec<Asn>) -> (r: Vec<Asn>) ensures r@.to_set() == a@.to_set().difference(b@.to_set());
''')
    km = 'obeys_key_model::<Asn>()'
    U.impl('impl AspaDefinition', [
        # assumed set-level contracts (bodies use Vec::contains/sort/dedup/retain, outside the verifier)
        U.fn(API, 'AspaDefinition', 'customer_used_as_provider', ensures=[('customer_among_providers', 'r == self.providers@.contains(self.customer)')]),
        # verified against std facts about sort / dedup (assumed: sort permutes and sorts, dedup of a sorted vector keeps each value once)
        U.fn(API, 'AspaDefinition', 'contains_duplicate_providers', ensures=[('iff_some_provider_listed_twice', 'r == !self.providers@.no_duplicates()')],
             ghost=[(('after', 'self.providers.clone();'), 'let ghost p0 = providers@; proof { assert(p0 =~= self.providers@); }'),
                    (('after', 'providers.sort();'), 'let ghost s1 = providers@;'),
                    (('after', 'providers.dedup();'), '''proof {
            let d = providers@;
            p0.to_multiset_ensures(); s1.to_multiset_ensures();
            assert(s1.to_set() =~= p0.to_set()) by {
                assert forall |x: Asn| s1.to_set().contains(x) <==> p0.to_set().contains(x) by {
                    assert(s1.contains(x) <==> s1.to_multiset().count(x) > 0);
                    assert(p0.contains(x) <==> p0.to_multiset().count(x) > 0);
                }
            }
            d.unique_seq_to_set();
            p0.lemma_cardinality_of_set();
            if p0.no_duplicates() { p0.unique_seq_to_set(); }
            if p0.len() == p0.to_set().len() { p0.lemma_no_dup_set_cardinality(); }
        }''')]),
        U.fn(API, 'AspaDefinition', 'apply_update', external_body=True, ensures=[
            ('assumed', 'final(self).customer == old(self).customer && final(self).providers@.to_set() == upd(old(self).providers@.to_set(), *update)')]),
    ])
    U.impl('impl AspaProvidersUpdate', [
        U.fn(API, 'AspaProvidersUpdate', 'is_empty', ensures=[('both_empty', 'r == (self.added@.len() == 0 && self.removed@.len() == 0)')]),
    ])
    U.impl('impl AspaDefinitions', [
        U.fn(ASPA, 'AspaDefinitions', 'get', requires=[('km', km)], ensures=[('lookup', 'match r { Some(d) => self.attestations@.contains_key(customer) && *d == self.attestations@[customer], None => !self.attestations@.contains_key(customer) }')]),
        U.fn(ASPA, 'AspaDefinitions', 'has', requires=[('km', km)], ensures=[('lookup', 'r == self.attestations@.contains_key(customer)')]),
        U.fn(ASPA, 'AspaDefinitions', 'add_or_replace', requires=[('km', km)], ensures=[
            ('is_event_arm', 'aview(*final(self)) == aview(*old(self)).insert(aspa_def.customer, aspa_def.providers@.to_set())'),
            ('state', 'final(self).attestations@ == old(self).attestations@.insert(aspa_def.customer, aspa_def)')]),
        U.fn(ASPA, 'AspaDefinitions', 'remove', requires=[('km', km)], ensures=[
            ('is_event_arm', 'aview(*final(self)) == aview(*old(self)).remove(customer)'),
            ('state', 'final(self).attestations@ == old(self).attestations@.remove(customer)')]),
    ])
    U.impl('impl AspaDefinitions', [
        U.fn(ASPA, 'AspaDefinitions', 'apply_update', requires=[('km', km)], ensures=[
            ('is_event_arm', 'aview(*final(self)) =~= apply_ev(aview(*old(self)), CertAuthEvent::AspaConfigUpdated { customer, update: *update })')],
            ghost=[(('body_end',), """proof {
            let m0 = old(self).attestations@; let m1 = self.attestations@; let c = customer;
            let base = if m0.contains_key(c) { m0[c].providers@.to_set() } else { Set::<Asn>::empty() };
            let n = upd(base, *update);
            assert(aview(*old(self)).contains_key(c) == m0.contains_key(c));
            if m0.contains_key(c) { assert(aview(*old(self))[c] == base); }
            if m0.contains_key(c) {
                if m1.contains_key(c) {
                    assert(m1[c].providers@.to_set() == n);
                    assert(m1[c].providers@.len() > 0);
                    assert(n.contains(m1[c].providers@[0]));
                    assert(!(n =~= Set::<Asn>::empty()));
                    assert(aview(*self) =~= aview(*old(self)).insert(c, n));
                } else {
                    assert(n =~= Set::<Asn>::empty());
                    assert(aview(*self) =~= aview(*old(self)).remove(c));
                }
            } else {
                assert(m1[c].providers@.to_set() =~= n);
                assert(aview(*self) =~= aview(*old(self)).insert(c, n));
            }
        }""")]),
        U.fn(ASPA, 'AspaDefinitions', 'process_updates', requires=[('km', km)],
             subst=[("""aspa_config
                        .providers
                        .iter()
                        .filter(|new_provider| {
                            !existing.providers.contains(new_provider)
                        })
                        .copied()
                        .collect()""", 'vx_minus(&aspa_config.providers, &existing.providers)', 'R14'),
                    ("""existing
                        .providers
                        .iter()
                        .filter(|existing| {
                            !aspa_config.providers.contains(existing)
                        })
                        .copied()
                        .collect()""", 'vx_minus(&existing.providers, &aspa_config.providers)', 'R14')],
             ensures=[
                 ('applied_entirely', 'r is Ok ==> aview(r->Ok_0.0) =~= replay(aview(*self), r->Ok_0.1@)'),
                 ('accepted_only_if_wellformed_and_held', """r is Ok ==> forall |i: int| 0 <= i < updates.add_or_replace@.len() ==>
                        !malformed(#[trigger] updates.add_or_replace@[i]) && holds_asn(*all_resources, updates.add_or_replace@[i].customer)"""),
                 ('refusal_has_a_reason', """r is Err ==> (exists |i: int| 0 <= i < updates.add_or_replace@.len() &&
                        (malformed(#[trigger] updates.add_or_replace@[i]) || !holds_asn(*all_resources, updates.add_or_replace@[i].customer)))
                        || (exists |i: int| 0 <= i < updates.remove@.len() && !rm_present(aview(*self), updates.remove@, i))"""),
                 ('removals_all_present', 'r is Ok ==> forall |i: int| 0 <= i < updates.remove@.len() ==> rm_present(aview(*self), updates.remove@, i)'),
             ],
             loops={
                 0: {'iter': 'vx_it', 'invariant': [
                     ('km', km),
                     ('replay', 'aview(all_aspas) =~= replay(aview(*self), events@)'),
                     ('working_copy', 'aview(all_aspas) =~= rm_view(aview(*self), updates.remove@, vx_it.index@ as int)'),
                     ('so_far_present', 'forall |i: int| 0 <= i < vx_it.index@ ==> rm_present(aview(*self), updates.remove@, i)'),
                     ('seq', 'vx_it.seq() == updates.remove@'),
                 ]},
                 1: {'iter': 'vx_it', 'invariant': [
                     ('km', km),
                     ('replay', 'aview(all_aspas) =~= replay(aview(*self), events@)'),
                     ('so_far_ok', """forall |i: int| 0 <= i < vx_it.index@ ==> !malformed(#[trigger] updates.add_or_replace@[i]) && holds_asn(*all_resources, updates.add_or_replace@[i].customer)"""),
                     ('removals', 'forall |i: int| 0 <= i < updates.remove@.len() ==> rm_present(aview(*self), updates.remove@, i)'),
                     ('seq', 'vx_it.seq() == updates.add_or_replace@'),
                 ]},
             },
             ghost=[
                 (('loop_start', 0), """let ghost g_ev = events@; let ghost g_i = vx_it.index@ as int;
            proof { assert(customer == vx_it.seq()[g_i]); assert(aview(all_aspas).contains_key(customer) == all_aspas.attestations@.contains_key(customer)); }"""),
                 (('before', 'return Err(Error::AspaCustomerUnknown(', 0), """proof { /*@unknown_customer_is_the_reason*/ assert(!rm_present(aview(*self), updates.remove@, g_i)); }"""),
                 (('loop_end', 0), """proof { lemma_replay_push(aview(*self), g_ev, CertAuthEvent::AspaConfigRemoved { customer }); }"""),
                 (('loop_start', 1), """let ghost g_ev = events@; let ghost g_i = vx_it.index@ as int; let ghost g_cfg = aspa_config; let ghost g_all = aview(all_aspas);
            let ghost g_att = all_aspas.attestations@;
            proof { assert(aspa_config == vx_it.seq()[g_i]); }"""),
                 (('loop_end', 1), """proof {
                let c = g_cfg.customer; let p = g_cfg.providers@.to_set();
                assert(g_all.contains_key(c) == g_att.contains_key(c));
                assert(p.contains(g_cfg.providers@[0]));
                /*@hint_working_copy_gets_requested_definition*/ assert(aview(all_aspas) =~= g_all.insert(c, p));
                if events@.len() > g_ev.len() {
                    lemma_replay_push(aview(*self), g_ev, events@.last()); assert(events@ =~= g_ev.push(events@.last()));
                    match events@.last() {
                        CertAuthEvent::AspaConfigUpdated { customer, update } => {
                            let e = g_att[c].providers@.to_set();
                            /*@hint_existing_is_working_copy_entry*/ assert(g_all[c] == e);
                            /*@hint_update_yields_requested_providers*/ assert(upd(e, update) =~= p);
                        }
                        _ => {}
                    }
                } else {
                    assert(events@ =~= g_ev);
                    if g_att.contains_key(c) {
                        let e = g_att[c].providers@.to_set();
                        /*@hint_existing_is_working_copy_entry2*/ assert(g_all[c] == e);
                        /*@hint_empty_update_means_same_providers*/ assert(e =~= p) by {
                            assert forall |x: Asn| e.contains(x) == p.contains(x) by {
                                if e.contains(x) && !p.contains(x) { assert(e.difference(p).contains(x)); }
                                if p.contains(x) && !e.contains(x) { assert(p.difference(e).contains(x)); }
                            }
                        }
                        assert(g_all.insert(c, p) =~= g_all);
                    }
                }
                /*@event_replays_to_working_copy*/ assert(aview(all_aspas) =~= replay(aview(*self), events@));
            }"""),
             ]),
    ])
    U.add("""
/// working copy after the first n removals, and `the n-th removal names a customer present at its turn`
pub open spec fn rm_view(v: AView, removed: Seq<Asn>, n: int) -> AView decreases n {
    if n <= 0 { v } else { rm_view(v, removed, n - 1).remove(removed[n - 1]) }
}
pub open spec fn rm_present(v: AView, removed: Seq<Asn>, i: int) -> bool { rm_view(v, removed, i).contains_key(removed[i]) }
""")
    U.impl('impl CertAuth', [
        U.fn('src/server/ca/certauth.rs', 'CertAuth', 'all_resources', external_body=True, ensures=[('is_all_res', 'r == all_res(*self)')]),
        U.fn('src/server/ca/certauth.rs', 'CertAuth', 'handle', ensures=[('own_handle', '*r == self.handle')]),
        # the decision of the "update existing" command for one customer: what the definition WOULD be after the update is what counts
        U.fn('src/server/ca/certauth.rs', 'CertAuth', 'updated_allowed_and_needed', requires=[('km', km),
             ('definitions_are_filed_under_their_customer', 'forall |k: Asn| #[trigger] self.aspas.attestations@.contains_key(k) ==> self.aspas.attestations@[k].customer == k')],
             closures={0: {'header': '|| -> (d: AspaDefinition)', 'ensures': 'd.customer == customer && d.providers@.len() == 0'}},
             ensures=[
                 ('refused_only_for_a_definition_that_would_stay_and_is_not_backed', '''r is Err ==> upd(providers_now(*self, customer), *update).len() > 0
                        && (!holds_asn(all_res(*self), customer) || upd(providers_now(*self, customer), *update).contains(customer))'''),
                 ('an_accepted_change_removes_the_definition_or_is_backed_by_the_customer_as_and_well_formed', '''r == Ok::<bool, Error>(true) ==>
                        upd(providers_now(*self, customer), *update) =~= Set::<Asn>::empty()
                        || (holds_asn(all_res(*self), customer) && !upd(providers_now(*self, customer), *update).contains(customer))'''),
             ],
             ghost=[(('after', 'updated.apply_update(update);'), '''proof {
            assert(existing.providers@.to_set() =~= providers_now(*self, customer));
            let n = upd(providers_now(*self, customer), *update);
            assert(updated.providers@.to_set() == n);
            if updated.providers@.len() == 0 { assert(n =~= Set::<Asn>::empty()); }
            else { assert(n.contains(updated.providers@[0])); updated.providers@.lemma_cardinality_of_set(); }
            assert(updated.providers@.contains(updated.customer) == n.contains(customer));
        }''')]),
    ])
    return U
