"""C04/C14: ResourceClassObjects -- the published object sets move in lock-step with the key state; products are always
added to / removed from the CURRENT key's set; re-issuance covers every set of the class."""
from vxlib import Unit
from units import prelude

PUB = 'src/server/ca/publishing.rs'
ERR = 'src/commons/error.rs'

SPEC = r'''
// ---- assumed contracts of KeyObjectSet methods (their own contracts are proved in unit c03_keyobjectset / c14_objectset) ----
pub uninterp spec fn kos_created(k: CertifiedKey, r: KeyObjectSet) -> bool;
pub uninterp spec fn kos_retired(k: KeyObjectSet) -> KeyObjectSet;
pub uninterp spec fn kos_upd_roas(k: KeyObjectSet, u: RoaUpdates) -> KeyObjectSet;
pub uninterp spec fn kos_upd_aspas(k: KeyObjectSet, u: AspaObjectsUpdates) -> KeyObjectSet;
pub uninterp spec fn kos_upd_bgpsec(k: KeyObjectSet, u: BgpSecCertificateUpdates) -> KeyObjectSet;
pub uninterp spec fn kos_upd_certs(k: KeyObjectSet, u: ChildCertificateUpdates) -> KeyObjectSet;
pub uninterp spec fn kos_due(k: KeyObjectSet, hours: i64) -> bool;
pub uninterp spec fn kos_reissued(old: KeyObjectSet, new: KeyObjectSet) -> bool;
impl KeyObjectSet {
    #[verifier::external_body] pub fn create(key: &CertifiedKey, timing: &IssuanceTimingConfig, signer: &KrillSigner) -> (r: KrillResult<KeyObjectSet>)
        ensures r is Ok ==> kos_created(*key, r->Ok_0) { unimplemented!() }
    #[verifier::external_body] pub fn retire(&self) -> (r: KrillResult<KeyObjectSet>) ensures r is Ok ==> r->Ok_0 == kos_retired(*self) { unimplemented!() }
    #[verifier::external_body] pub fn update_roas(&mut self, u: &RoaUpdates) ensures *final(self) == kos_upd_roas(*old(self), *u) { unimplemented!() }
    #[verifier::external_body] pub fn update_aspas(&mut self, u: &AspaObjectsUpdates) ensures *final(self) == kos_upd_aspas(*old(self), *u) { unimplemented!() }
    #[verifier::external_body] pub fn update_bgpsec_certs(&mut self, u: &BgpSecCertificateUpdates) ensures *final(self) == kos_upd_bgpsec(*old(self), *u) { unimplemented!() }
    #[verifier::external_body] pub fn update_certs(&mut self, u: &ChildCertificateUpdates) ensures *final(self) == kos_upd_certs(*old(self), *u) { unimplemented!() }
    #[verifier::external_body] pub fn requires_reissuance(&self, hours: i64) -> (r: bool) ensures r == kos_due(*self, hours) { unimplemented!() }
    #[verifier::external_body] pub fn reissue(&mut self, timing: &IssuanceTimingConfig, signer: &KrillSigner) -> (r: KrillResult<()>)
        ensures r is Ok ==> kos_reissued(*old(self), *final(self)), r is Err ==> *final(self) == *old(self) { unimplemented!() }
}
pub assume_specification [Error::publishing] (s: &str) -> (r: Error);

// ---- abstraction ----
pub enum OPhase { Current, Staging, Old }
pub open spec fn ophase(k: ResourceClassKeyState) -> OPhase {
    match k { ResourceClassKeyState::Current(_) => OPhase::Current, ResourceClassKeyState::Staging(_) => OPhase::Staging, ResourceClassKeyState::Old(_) => OPhase::Old }
}
/// the set of the key that signs products
pub open spec fn cur_set(k: ResourceClassKeyState) -> KeyObjectSet {
    match k { ResourceClassKeyState::Current(s) => s.current_set, ResourceClassKeyState::Staging(s) => s.current_set, ResourceClassKeyState::Old(s) => s.current_set }
}
/// the set of the other key (staging or old), which publishes only a manifest and CRL
pub open spec fn other_set(k: ResourceClassKeyState) -> Option<KeyObjectSet> {
    match k { ResourceClassKeyState::Current(s) => None, ResourceClassKeyState::Staging(s) => Some(s.staging_set), ResourceClassKeyState::Old(s) => Some(s.old_set) }
}
'''


def build():
    U = Unit('c04_objects', 'C04', 'object sets move in lock-step with the key roll; products always go to the current key; re-issue covers all sets')
    prelude.strings(U)
    for t in ['ReceivedCert', 'RepositoryContact', 'PublishedManifest', 'PublishedCrl', 'Revocations']:
        U.opaque(t, 'Clone')
    U.opaque('ObjectSetRevision', 'Clone, Copy')
    U.opaque('PublishedObjectsMap', 'Clone')
    for t in ['CertifiedKey', 'IssuanceTimingConfig', 'KrillSigner', 'RoaUpdates', 'AspaObjectsUpdates', 'BgpSecCertificateUpdates', 'ChildCertificateUpdates', 'Error']:
        U.opaque(t, '')
    U.outside('''
pub type KrillResult<T> = Result<T, Error>;
impl Error { pub fn publishing(_s: &str) -> Error { unimplemented!() } }
impl IssuanceTimingConfig { pub fn publish_hours_before_next(&self) -> i64 { unimplemented!() } }
''')
    U.add('pub assume_specification [IssuanceTimingConfig::publish_hours_before_next] (t: &IssuanceTimingConfig) -> (r: i64);')
    # KeyObjectSet: the real struct except that the HashMap field type is abstracted (not needed here)
    U.struct(PUB, 'KeyObjectSet', derive=['Clone'])
    U.outside('pub type HashMap<K, V> = PublishedObjectsMapOf<K, V>;\n#[derive(Clone)] pub struct PublishedObjectsMapOf<K, V>(pub Vec<(K, V)>);\n#[derive(Clone)] pub struct ObjectName(pub u8);\n#[derive(Clone)] pub struct PublishedObject(pub u8);')
    U.add('''#[verifier::external_type_specification] #[verifier::external_body] #[verifier::reject_recursive_types(K)] #[verifier::reject_recursive_types(V)] pub struct ExPOM<K, V>(PublishedObjectsMapOf<K, V>);
#[verifier::external_type_specification] #[verifier::external_body] pub struct ExObjectName(ObjectName);
#[verifier::external_type_specification] #[verifier::external_body] pub struct ExPublishedObject(PublishedObject);
pub assume_specification<K: Clone, V: Clone> [<PublishedObjectsMapOf<K, V> as Clone>::clone] (c: &PublishedObjectsMapOf<K, V>) -> (r: PublishedObjectsMapOf<K, V>) ensures r == *c;''')
    for st in ['CurrentKeyState', 'StagingKeyState', 'OldKeyState', 'ResourceClassObjects']:
        U.struct(PUB, st, derive=['Clone'])
    U.enum(PUB, 'ResourceClassKeyState', derive=['Clone'])
    U.add(SPEC)
    U.impl('impl ResourceClassKeyState', [
        U.fn(PUB, 'ResourceClassKeyState', 'current', ensures=[('is_current', 'r == ResourceClassKeyState::Current(CurrentKeyState { current_set })')]),
    ])
    upd = lambda f, spec: U.fn(PUB, 'ResourceClassObjects', f, ensures=[
        ('phase_kept', 'ophase(final(self).keys) == ophase(old(self).keys)'),
        ('current_key_set_updated', f'cur_set(final(self).keys) == {spec}(cur_set(old(self).keys), *{ {"update_roas": "roa_updates", "update_certs": "cert_updates"}.get(f, "updates") })'),
        ('other_key_untouched', 'other_set(final(self).keys) == other_set(old(self).keys)')])
    U.impl('impl ResourceClassObjects', [
        U.fn(PUB, 'ResourceClassObjects', 'keyroll_stage', ensures=[
            ('only_from_current', 'r is Ok ==> ophase(old(self).keys) is Current'),
            ('to_staging', '''r is Ok ==> ophase(final(self).keys) is Staging && cur_set(final(self).keys) == cur_set(old(self).keys)
                && kos_created(*key, other_set(final(self).keys)->Some_0)'''),
            ('refused_unchanged', 'r is Err ==> final(self).keys == old(self).keys')]),
        U.fn(PUB, 'ResourceClassObjects', 'keyroll_activate', ensures=[
            ('only_from_staging', 'r is Ok ==> ophase(old(self).keys) is Staging'),
            ('new_key_takes_over', 'r is Ok ==> ophase(final(self).keys) is Old && cur_set(final(self).keys) == other_set(old(self).keys)->Some_0'),
            ('old_key_retired', 'r is Ok ==> other_set(final(self).keys) == Some(kos_retired(cur_set(old(self).keys)))'),
            ('refused_unchanged', 'r is Err ==> final(self).keys == old(self).keys')]),
        U.fn(PUB, 'ResourceClassObjects', 'keyroll_finish', ensures=[
            ('only_from_old', 'r is Ok ==> ophase(old(self).keys) is Old'),
            ('single_key', 'r is Ok ==> final(self).keys == ResourceClassKeyState::Current(CurrentKeyState { current_set: cur_set(old(self).keys) })'),
            ('refused_unchanged', 'r is Err ==> final(self).keys == old(self).keys')]),
        upd('update_roas', 'kos_upd_roas'),
        upd('update_aspas', 'kos_upd_aspas'),
        upd('update_bgpsec_certs', 'kos_upd_bgpsec'),
        upd('update_certs', 'kos_upd_certs'),
        U.fn(PUB, 'ResourceClassObjects', 'requires_re_issuance', ensures=[
            ('any_set_due', '''r == (kos_due(cur_set(self.keys), hours) || (other_set(self.keys) is Some && kos_due(other_set(self.keys)->Some_0, hours)))''')]),
        U.fn(PUB, 'ResourceClassObjects', 'reissue', ensures=[
            ('all_sets_reissued', '''r is Ok ==> ophase(final(self).keys) == ophase(old(self).keys) && kos_reissued(cur_set(old(self).keys), cur_set(final(self).keys))
                && (other_set(old(self).keys) is Some ==> other_set(final(self).keys) is Some && kos_reissued(other_set(old(self).keys)->Some_0, other_set(final(self).keys)->Some_0))''')]),
    ])
    # CaObjects::re_issue iterates `self.classes.values_mut()` (outside the verifier); one iteration of its loop (the body,
    # lifted verbatim, R17) decides per class whether to re-issue and keeps the `required` flag STICKY, so that a re-issue of
    # any class is reported to the caller (which then publishes)
    U.add('''
pub open spec fn rco_due(o: ResourceClassObjects, hours: i64) -> bool {
    kos_due(cur_set(o.keys), hours) || (other_set(o.keys) is Some && kos_due(other_set(o.keys)->Some_0, hours))
}''')
    U.free(U.loop_fn(PUB, 'CaObjects', 're_issue', 0, 'vx_re_issue_one_class',
                     '(resource_class_objects: &mut ResourceClassObjects, required0: bool, force: bool, hours: i64, timing: &IssuanceTimingConfig, signer: &KrillSigner) -> (r: KrillResult<bool>)',
                     body_only=True, ghost_before='let mut required = required0;\n', tail='Ok(required)',
                     ensures=[
                         ('reported_if_any_class_was_reissued', 'r is Ok ==> r->Ok_0 == (required0 || force || rco_due(*old(resource_class_objects), hours))'),
                         ('due_or_forced_class_is_reissued', '''r is Ok && (force || rco_due(*old(resource_class_objects), hours)) ==>
                                kos_reissued(cur_set(old(resource_class_objects).keys), cur_set(final(resource_class_objects).keys))'''),
                         ('other_classes_untouched', 'r is Ok && !(force || rco_due(*old(resource_class_objects), hours)) ==> *final(resource_class_objects) == *old(resource_class_objects)'),
                     ]))
    return U
