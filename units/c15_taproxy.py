"""C15: trust-anchor proxy: a signer response is accepted only for the open nonce and under the associated signer's key;
one open request at a time; signed request/response validate = signature AND clear text equals signed content."""
from vxlib import Unit
from units import prelude

TP = 'src/server/taproxy.rs'
TA = 'src/api/ta.rs'
CA = 'src/api/ca.rs'
ERR = 'src/commons/error.rs'

SPEC = r'''
// ---- assumed externals: CMS validation of the signed message, bytes of its content, JSON decoding ----
pub uninterp spec fn msg_valid(m: TrustAnchorSignedMessage, k: PublicKey) -> Option<SignedMessage>;
pub uninterp spec fn msg_bytes(m: SignedMessage) -> Bytes;
pub open spec fn decode_response(b: Bytes) -> Option<TrustAnchorSignerResponse> { json_decode::<TrustAnchorSignerResponse>(b) }
pub open spec fn decode_request(b: Bytes) -> Option<TrustAnchorSignerRequest> { json_decode::<TrustAnchorSignerRequest>(b) }
impl TrustAnchorSignedMessage {
    #[verifier::external_body]
    pub fn validate(&self, issuer_key: &PublicKey) -> (r: KrillResult<SignedMessage>)
        ensures r is Ok <==> msg_valid(*self, *issuer_key) is Some, r is Ok ==> r->Ok_0 == msg_valid(*self, *issuer_key)->Some_0 { unimplemented!() }
}
impl SignedMessage {
    #[verifier::external_body] pub fn content(&self) -> (r: &OctetString) ensures octets_of(*r) == msg_bytes(*self) { unimplemented!() }
}
pub uninterp spec fn octets_of(o: OctetString) -> Bytes;
impl OctetString { #[verifier::external_body] pub fn to_bytes(&self) -> (r: Bytes) ensures r == octets_of(*self) { unimplemented!() } }
pub assume_specification [Error::custom] (s: &str) -> (r: Error);
pub uninterp spec fn req_key(r: ProvisioningRequest) -> KeyIdentifier;
pub assume_specification [ProvisioningRequest::key_identifier] (r: &ProvisioningRequest) -> (k: KeyIdentifier) ensures k == req_key(*r);
pub assume_specification [Nonce::new] () -> (r: Nonce);

/// a response is genuine for a signer identity: the CMS validates under that identity's key and the clear-text part
/// equals what was signed
pub open spec fn response_genuine(r: TrustAnchorSignedResponse, id: IdCertInfo) -> bool {
    msg_valid(r.signed, id.public_key) is Some && decode_response(msg_bytes(msg_valid(r.signed, id.public_key)->Some_0)) == Some(r.response)
}
pub open spec fn request_genuine(r: TrustAnchorSignedRequest, id: IdCertInfo) -> bool {
    msg_valid(r.signed, id.public_key) is Some && decode_request(msg_bytes(msg_valid(r.signed, id.public_key)->Some_0)) == Some(r.request)
}
'''


def build():
    U = Unit('c15_taproxy', 'C15', 'proxy accepts a signer response only for the open nonce under the associated signer key; validate = signature AND content equality')
    prelude.hashmap(U, get_mut=True)
    prelude.strings(U)
    for t in ['CaHandle', 'RepositoryContact', 'Base64', 'Hash', 'PublicKey', 'ResourceSet', 'TrustAnchorObjects', 'TaCertDetails',
              'TrustAnchorSignedMessage', 'UsedKeyState', 'ProvisioningRequest', 'ProvisioningResponse']:
        U.opaque(t, 'Clone')
    U.opaque('ChildHandle', 'Clone, PartialEq, Eq, Hash')
    U.opaque('KeyIdentifier', 'Clone, Copy, PartialEq, Eq, Hash')
    U.opaque('Nonce', 'Clone, PartialEq, Eq', eq=True)
    U.opaque('ChildResponses', 'Clone')
    U.opaque('TrustAnchorSignerRequest', 'Clone, PartialEq, Eq', eq=True)
    for t in ['SignedMessage', 'OctetString', 'Bytes', 'JsonError']:
        U.opaque(t, '')
    U.outside('''
pub type KrillResult<T> = Result<T, Error>;
#[derive(Clone, PartialEq, Eq)]
pub struct TrustAnchorSignerResponse { pub nonce: Nonce, pub objects: TrustAnchorObjects, pub child_responses: ChildResponses }
impl PartialEq for TrustAnchorObjects { fn eq(&self, _o: &Self) -> bool { unimplemented!() } } impl Eq for TrustAnchorObjects {}
impl PartialEq for ChildResponses { fn eq(&self, _o: &Self) -> bool { unimplemented!() } } impl Eq for ChildResponses {}
impl Error { pub fn custom(_s: &str) -> Error { unimplemented!() } }
impl ProvisioningRequest { pub fn key_identifier(&self) -> KeyIdentifier { unimplemented!() } }
impl Nonce { pub fn new() -> Self { unimplemented!() } }
pub type TaNonce = Nonce;
pub mod serde_json {
    pub trait VxJson: Sized {}
    impl VxJson for super::TrustAnchorSignerResponse {}
    impl VxJson for super::TrustAnchorSignerRequest {}
    pub fn from_slice<T: VxJson>(_b: &super::Bytes) -> Result<T, super::JsonError> { unimplemented!() }
}
''')
    U.add('''#[verifier::external_type_specification] pub struct ExTASR(TrustAnchorSignerResponse);
impl vstd::std_specs::cmp::PartialEqSpecImpl for TrustAnchorSignerResponse {
    open spec fn obeys_eq_spec() -> bool { true }
    open spec fn eq_spec(&self, other: &TrustAnchorSignerResponse) -> bool { *self == *other }
}
pub assume_specification [<TrustAnchorSignerResponse as PartialEq>::eq] (a: &TrustAnchorSignerResponse, b: &TrustAnchorSignerResponse) -> (r: bool);
#[verifier::external_trait_specification] pub trait ExVxJson: Sized { type ExternalTraitSpecificationFor: serde_json::VxJson; }
/// ASSUMED: JSON decoding is a function of the bytes
pub uninterp spec fn json_decode<T>(b: Bytes) -> Option<T>;
pub assume_specification<T: serde_json::VxJson> [serde_json::from_slice::<T>] (b: &Bytes) -> (r: Result<T, JsonError>)
    ensures r is Ok <==> json_decode::<T>(*b) is Some, r is Ok ==> r->Ok_0 == json_decode::<T>(*b)->Some_0;
''')
    U.struct(CA, 'IdCertInfo', derive=['Clone'])
    U.struct(TA, 'TrustAnchorSignerInfo', derive=['Clone'])
    U.struct(TA, 'TrustAnchorChild', derive=['Clone'])
    U.struct(TA, 'TrustAnchorSignedResponse', derive=['Clone'])
    U.struct(TA, 'TrustAnchorSignedRequest', derive=['Clone'])
    U.struct(TP, 'TrustAnchorProxy', derive=[])
    U.enum(TP, 'TrustAnchorProxyEvent', derive=[])
    U.enum(ERR, 'Error', keep=['TaProxyHasNoRequest', 'TaProxyRequestNonceMismatch', 'TaProxyHasNoSigner', 'TaProxyHasRequest',
                               'TaProxyAlreadyHasSigner', 'TaProxyHasDifferentSigner', 'CaChildUnknown', 'Custom'], derive=[])
    U.add(SPEC)
    U.impl('impl TrustAnchorSignedResponse', [
        U.fn(TA, 'TrustAnchorSignedResponse', 'validate', ensures=[
            ('accepted_exactly_when_genuine', '(r is Ok) <==> response_genuine(*self, *issuer)')]),
        U.fn(TA, 'TrustAnchorSignedResponse', 'content', ensures=[('is_clear_text', '*r == self.response')]),
        U.fn(TA, 'TrustAnchorSignedResponse', 'into_content', ensures=[('is_clear_text', 'r == self.response')]),
    ])
    U.impl('impl TrustAnchorSignedRequest', [
        U.fn(TA, 'TrustAnchorSignedRequest', 'validate', ensures=[
            ('accepted_exactly_when_genuine', '(r is Ok) <==> request_genuine(*self, *issuer)')]),
    ])
    km = 'obeys_key_model::<ChildHandle>() && obeys_key_model::<KeyIdentifier>()'
    U.impl('impl TrustAnchorProxy', [
        U.fn(TP, 'TrustAnchorProxy', 'process_make_signer_request', ensures=[
            ('one_open_request_at_a_time', '(r is Ok) <==> self.open_signer_request is None'),
            ('event', 'r is Ok ==> r->Ok_0@.len() == 1 && r->Ok_0@[0] is SignerRequestMade')]),
        U.fn(TP, 'TrustAnchorProxy', 'process_signer_response', ensures=[
            ('accepted_exactly_when', '''(r is Ok) <==> (self.open_signer_request is Some && response.response.nonce == self.open_signer_request->Some_0
                && self.signer is Some && response_genuine(response, self.signer->Some_0.id))'''),
            ('event', 'r is Ok ==> r->Ok_0@ == seq![TrustAnchorProxyEvent::SignerResponseReceived(response)]')]),
        U.fn(TP, 'TrustAnchorProxy', 'process_add_signer', ensures=[
            ('only_first', '(r is Ok) <==> self.signer is None'), ('event', 'r is Ok ==> r->Ok_0@ == seq![TrustAnchorProxyEvent::SignerAdded(signer)]')]),
        U.fn(TP, 'TrustAnchorProxy', 'get_child_details', requires=[('km', km)], ensures=[
            ('known', '(r is Ok) <==> self.child_details@.contains_key(*child_handle)'), ('details', 'r is Ok ==> *r->Ok_0 == self.child_details@[*child_handle]')]),
        U.fn(TP, 'TrustAnchorProxy', 'process_give_child_response', requires=[('km', km)], ensures=[
            ('only_if_present', '''(r is Ok) <==> (self.child_details@.contains_key(child_handle) && self.child_details@[child_handle].open_responses@.contains_key(key))'''),
            ('event', 'r is Ok ==> r->Ok_0@ == seq![TrustAnchorProxyEvent::ChildResponseGiven(child_handle, key)]')]),
        U.fn(TP, 'TrustAnchorProxy', 'apply', trait='Aggregate', as_inherent=True,
             subst=[('event: Self::Event', 'event: TrustAnchorProxyEvent', 'R4')],
             keep_arms={'TrustAnchorProxyEvent': ['RepositoryAdded', 'SignerAdded', 'SignerUpdated', 'SignerRequestMade', 'ChildResponseGiven', 'ChildAdded', 'ChildRequestAdded']},
             requires=[('km', km), ('kept_events_only', '!(event is SignerResponseReceived)'),
                       ('enabled', 'event is ChildResponseGiven ==> old(self).child_details@.contains_key(event->ChildResponseGiven_0)'),
                       ('enabled_request', 'event is ChildRequestAdded ==> old(self).child_details@.contains_key(event->ChildRequestAdded_0)')],
             ensures=[
                 ('signer_replaced_whole', 'event is SignerAdded ==> final(self).signer == Some(event->SignerAdded_0)'),
                 ('signer_updated_whole', 'event is SignerUpdated ==> final(self).signer == Some(event->SignerUpdated_0)'),
                 ('request_opened', 'event is SignerRequestMade ==> final(self).open_signer_request == Some(event->SignerRequestMade_0) && final(self).signer == old(self).signer'),
                 ('response_given_once', '''event is ChildResponseGiven ==> final(self).child_details@.contains_key(event->ChildResponseGiven_0)
                    && final(self).child_details@[event->ChildResponseGiven_0].open_responses@
                        == old(self).child_details@[event->ChildResponseGiven_0].open_responses@.remove(event->ChildResponseGiven_1)'''),
                 ('child_added_under_its_handle', '''event is ChildAdded ==> final(self).child_details@ == old(self).child_details@.insert(event->ChildAdded_0.handle, event->ChildAdded_0)'''),
                 ('request_filed_under_the_requesting_child_and_its_key', '''event is ChildRequestAdded ==> final(self).child_details@.contains_key(event->ChildRequestAdded_0)
                    && final(self).child_details@[event->ChildRequestAdded_0].open_requests@
                        == old(self).child_details@[event->ChildRequestAdded_0].open_requests@.insert(req_key(event->ChildRequestAdded_1), event->ChildRequestAdded_1)
                    && final(self).child_details@[event->ChildRequestAdded_0].open_responses@ == old(self).child_details@[event->ChildRequestAdded_0].open_responses@
                    && (forall |c: ChildHandle| c != event->ChildRequestAdded_0 && #[trigger] old(self).child_details@.contains_key(c) ==> final(self).child_details@.contains_key(c) && final(self).child_details@[c] == old(self).child_details@[c])'''),
                 ('open_request_untouched', '!(event is SignerRequestMade) ==> final(self).open_signer_request == old(self).open_signer_request'),
             ]),
    ])
    return U
