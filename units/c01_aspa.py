"""C01: AspaObjects::create_updates -- the removal loop (lifted verbatim, R17) withdraws the ASPA object of every customer
AS that no longer has a definition OR is no longer held by the certificate of this class, and nothing else; the filter of the
issuing loop (R15) selects exactly the definitions whose customer AS is held."""
from vxlib import Unit
from units import prelude

ASPA = 'src/server/ca/aspa.rs'
API = 'src/api/aspa.rs'

SPEC = r'''
pub uninterp spec fn holds_asn(r: ResourceSet, a: Asn) -> bool;
pub assume_specification [ResourceSet::contains_asn] (r: &ResourceSet, a: Asn) -> (b: bool) ensures b == holds_asn(*r, a);
/// a published ASPA object must go: its definition is gone, or its customer AS is not on the current certificate
/// ASSUMED: the derived PartialEq of AspaDefinition compares customer and provider list
impl vstd::std_specs::cmp::PartialEqSpecImpl for AspaDefinition {
    open spec fn obeys_eq_spec() -> bool { true }
    open spec fn eq_spec(&self, other: &AspaDefinition) -> bool { self.customer == other.customer && self.providers@ == other.providers@ }
}
pub assume_specification [<AspaDefinition as PartialEq>::eq] (a: &AspaDefinition, b: &AspaDefinition) -> (r: bool);
pub open spec fn same_def(a: AspaDefinition, b: AspaDefinition) -> bool { a.customer == b.customer && a.providers@ == b.providers@ }
pub assume_specification [AspaObjects::make_aspa] (o: &AspaObjects, d: AspaDefinition, k: &CertifiedKey, t: &IssuanceTimingConfig, s: &KrillSigner) -> (r: KrillResult<AspaInfo>)
    ensures r is Ok ==> same_def(r->Ok_0.definition, d);
pub open spec fn must_go(defs: AspaDefinitions, res: ResourceSet, c: Asn) -> bool { !defs.attestations@.contains_key(c) || !holds_asn(res, c) }
'''


def build():
    U = Unit('c01_aspa', 'C01', 'ASPA objects follow definitions and held resources: removal loop and issuing filter of AspaObjects::create_updates')
    prelude.hashmap(U)
    prelude.strings(U)
    U.opaque('Asn', 'Clone, Copy, PartialEq, Eq, Hash', eq=True)
    U.opaque('ResourceSet', '')
    for t in ['CertifiedKey', 'IssuanceTimingConfig', 'KrillSigner', 'Error']:
        U.opaque(t, '')
    U.outside('''
pub type CustomerAsn = Asn;
pub type ProviderAsn = Asn;
impl ResourceSet { pub fn contains_asn(&self, _a: Asn) -> bool { unimplemented!() } }
pub type KrillResult<T> = Result<T, Error>;
impl AspaObjects { pub fn make_aspa(&self, _d: AspaDefinition, _k: &CertifiedKey, _t: &IssuanceTimingConfig, _s: &KrillSigner) -> KrillResult<AspaInfo> { unimplemented!() } }
''')
    U.struct(API, 'AspaDefinition', derive=['Clone', 'PartialEq', 'Eq'], structural=False)
    # stub: only the field the issuing decision reads (the object itself is opaque)
    U.add('pub struct AspaInfo { pub definition: AspaDefinition }')
    U.struct(ASPA, 'AspaDefinitions', derive=[])
    U.struct(ASPA, 'AspaObjects', derive=[])
    U.struct(ASPA, 'AspaObjectsUpdates', derive=[])
    U.add('pub struct Config { pub issuance_timing: IssuanceTimingConfig }   // stub: the one field read here')
    U.add(SPEC)
    km = 'obeys_key_model::<Asn>()'
    U.impl('impl AspaDefinitions', [
        U.fn(ASPA, 'AspaDefinitions', 'has', requires=[('km', km)], ensures=[('lookup', 'r == self.attestations@.contains_key(customer)')]),
    ])
    U.impl('impl AspaObjects', [
        U.loop_fn(ASPA, 'AspaObjects', 'create_updates', 1, 'vx_removal_loop',
                  '(&self, all_aspa_defs: &AspaDefinitions, resources: &ResourceSet, object_updates: &mut AspaObjectsUpdates)',
                  requires=[('km', km), ('nothing_removed_yet', 'old(object_updates).removed@.len() == 0')],
                  ensures=[
                      ('every_stale_or_overclaiming_object_removed', '''forall |c: Asn| self.0@.contains_key(c) && must_go(*all_aspa_defs, *resources, c)
                            ==> #[trigger] final(object_updates).removed@.contains(c)'''),
                      ('only_those', '''forall |i: int| 0 <= i < final(object_updates).removed@.len() ==> self.0@.contains_key(#[trigger] final(object_updates).removed@[i])
                            && must_go(*all_aspa_defs, *resources, final(object_updates).removed@[i])'''),
                      ('issued_untouched', 'final(object_updates).updated@ == old(object_updates).updated@'),
                  ],
                  iter='vx_it',
                  invariant=[
                      ('km', km),
                      ('keys', 'vx_it.seq().unref().to_set() == self.0@.dom()'),
                      ('removed_or_to_come', '''forall |c: Asn| #[trigger] self.0@.contains_key(c) && must_go(*all_aspa_defs, *resources, c)
                            ==> object_updates.removed@.contains(c) || (exists |j: int| vx_it.index@ <= j < vx_it.seq().len() && #[trigger] vx_it.seq().unref()[j] == c)'''),
                      ('only_those', '''forall |i: int| 0 <= i < object_updates.removed@.len() ==> self.0@.contains_key(#[trigger] object_updates.removed@[i])
                            && must_go(*all_aspa_defs, *resources, object_updates.removed@[i])'''),
                      ('issued_untouched', 'object_updates.updated@ == old(object_updates).updated@'),
                  ],
                  ghost_loop_start='''let ghost g_rem = object_updates.removed@; let ghost g_i = vx_it.index@ as int;
            proof { assert(customer == vx_it.seq().unref()[g_i]); assert(vx_it.seq().unref().to_set().contains(customer)); }''',
                  ghost_loop_end='''proof {
                assert forall |c: Asn| #[trigger] self.0@.contains_key(c) && must_go(*all_aspa_defs, *resources, c) implies
                        object_updates.removed@.contains(c) || (exists |j: int| g_i + 1 <= j < vx_it.seq().len() && #[trigger] vx_it.seq().unref()[j] == c) by {
                    if c == customer { /*@stale_or_overclaiming_object_of_this_customer_removed*/ assert(object_updates.removed@[g_rem.len() as int] == customer); }
                    else if g_rem.contains(c) { let j = choose |j: int| 0 <= j < g_rem.len() && g_rem[j] == c; assert(object_updates.removed@[j] == c); }
                    else { let j = choose |j: int| g_i <= j < vx_it.seq().len() && #[trigger] vx_it.seq().unref()[j] == c; assert(j != g_i); }
                }
                assert forall |i: int| 0 <= i < object_updates.removed@.len() implies self.0@.contains_key(#[trigger] object_updates.removed@[i])
                        && must_go(*all_aspa_defs, *resources, object_updates.removed@[i]) by {
                    if i < g_rem.len() { assert(object_updates.removed@[i] == g_rem[i]); }
                }
            }'''),
        # one iteration of the issuing loop (body lifted, R17): an object is (re-)issued exactly when there is none for the
        # customer AS yet or the existing one was issued for a different definition, and then for exactly the configured definition
        U.loop_fn(ASPA, 'AspaObjects', 'create_updates', 0, 'vx_issue_one',
                  '(&self, relevant_aspa: &AspaDefinition, certified_key: &CertifiedKey, config: &Config, signer: &KrillSigner, object_updates: &mut AspaObjectsUpdates) -> (r: KrillResult<()>)',
                  body_only=True, tail='Ok(())', requires=[('km', km)],
                  inner_closures={0: {'header': '|existing: &AspaInfo| -> (o: bool)', 'ensures': 'o == !same_def(existing.definition, *relevant_aspa)'}},
                  ensures=[
                      ('issued_iff_missing_or_changed', '''r is Ok ==> (if !self.0@.contains_key(relevant_aspa.customer) || !same_def(self.0@[relevant_aspa.customer].definition, *relevant_aspa) {
                                final(object_updates).updated@.len() == old(object_updates).updated@.len() + 1
                                && same_def(final(object_updates).updated@.last().definition, *relevant_aspa)
                                && final(object_updates).updated@.drop_last() == old(object_updates).updated@
                            } else { final(object_updates).updated@ == old(object_updates).updated@ })'''),
                      ('nothing_withdrawn_here', 'final(object_updates).removed@ == old(object_updates).removed@'),
                  ]),
        U.closure_fn(ASPA, 'AspaObjects', 'create_updates', 0, 'vx_issue_filter',
                     '(aspa: &&AspaDefinition, resources: &ResourceSet) -> (r: bool)',
                     ensures=[('issued_only_for_held_customers', 'r == holds_asn(*resources, aspa.customer)')]),
    ])
    return U
