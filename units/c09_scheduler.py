"""C09: recurring maintenance never stops: every recurring handler answers with a follow-up of itself, and the start-up task
schedules the recurring tasks whatever the number of hosted CAs."""
from vxlib import Unit
from units import prelude

SCH = 'src/server/scheduler.rs'
MQ = 'src/server/mq.rs'

OUT = '''
pub struct FatalError(pub Error);
pub struct KrillRuntime(pub u8);
impl CaManager {
    pub fn ca_handles(&self) -> Result<Vec<CaHandle>, Error> { unimplemented!() }
    pub fn republish_all(&self, _f: bool, _k: &KrillRuntime) -> Result<Vec<CaHandle>, Error> { unimplemented!() }
    pub fn renew_objects_all(&self, _a: &Actor, _k: &KrillRuntime) -> Result<(), Error> { unimplemented!() }
    pub fn ta_renew_testbed_ta(&self, _k: &KrillRuntime) -> Result<(), Error> { unimplemented!() }
}
impl CertAuth { pub fn version(&self) -> u64 { unimplemented!() } }
impl Config {
    pub fn ca_refresh_start_up(&self, _j: bool) -> Priority { unimplemented!() }
    pub fn suspend_child_after_inactive_seconds(&self) -> Option<i64> { unimplemented!() }
}
pub struct SlowKrillRuntime(pub u8);
pub struct RepositoryManager(pub u8);
impl RepositoryManager { pub fn is_initialized(&self) -> Result<bool, Error> { unimplemented!() } pub fn update_rrdp_if_needed(&self) -> Result<Option<Time>, Error> { unimplemented!() } }
pub struct Time(pub i64);
impl From<Time> for Priority { fn from(_t: Time) -> Priority { unimplemented!() } }
pub fn in_hours(_h: i64) -> Priority { unimplemented!() }
impl CaManager {
    pub fn cas_repo_sync_single(&self, _c: &CaHandle, _v: u64, _k: &SlowKrillRuntime) -> Result<bool, Error> { unimplemented!() }
    pub fn ca_sync_parent(&self, _c: &CaHandle, _v: u64, _p: &ParentHandle, _a: &Actor, _k: &SlowKrillRuntime) -> Result<bool, Error> { unimplemented!() }
    pub fn has_ca(&self, _c: &CaHandle) -> Result<bool, Error> { unimplemented!() }
}
impl Config {
    pub fn requeue_remote_failed(&self) -> Priority { unimplemented!() }
    pub fn ca_refresh_next(&self) -> Priority { unimplemented!() }
}
pub fn in_seconds(_m: i64) -> Priority { unimplemented!() }
pub fn now() -> Priority { unimplemented!() }
pub fn in_minutes(_m: i64) -> Priority { unimplemented!() }
pub fn in_weeks(_m: i64) -> Priority { unimplemented!() }
'''

SPEC = r'''
#[verifier::external_type_specification] pub struct ExFatalError(FatalError);
#[verifier::external_type_specification] #[verifier::external_body] pub struct ExKrillRuntime(KrillRuntime);
#[verifier::external_type_specification] pub struct ExConfig(Config);
#[verifier::external_type_specification] pub struct ExTaTiming(TaTiming);
pub uninterp spec fn tasks_of(k: KrillRuntime) -> TaskQueue;
/// obligation predicate: a successful schedule call for a task of this kind was made on this queue during the run.
/// It is only ever ESTABLISHED by the assumed contracts of the scheduling calls, so a function that never makes the call
/// cannot prove it.
pub uninterp spec fn scheduled(q: TaskQueue, t: Task) -> bool;
impl KrillRuntime {
    #[verifier::external_body] pub fn tasks(&self) -> (q: &TaskQueue) ensures *q == tasks_of(*self) { unimplemented!() }
    #[verifier::external_body] pub fn ca_manager(&self) -> (q: &CaManager) { unimplemented!() }
    #[verifier::external_body] pub fn config(&self) -> (q: &Config) { unimplemented!() }
    #[verifier::external_body] pub fn system_actor(&self) -> (q: &Actor) { unimplemented!() }
    #[verifier::external_body] pub fn repo_manager(&self) -> (q: &RepositoryManager) ensures *q == repo_of(*self) { unimplemented!() }
}
#[verifier::external_type_specification] #[verifier::external_body] pub struct ExRepositoryManager(RepositoryManager);
/// this instance runs a publication server (RepositoryManager::is_initialized, assumed)
pub uninterp spec fn has_publication_server(m: RepositoryManager) -> bool;
pub uninterp spec fn repo_of(k: KrillRuntime) -> RepositoryManager;
#[verifier::external_type_specification] #[verifier::external_body] pub struct ExTime(Time);
/// nothing is staged any more: the RRDP update was done, or there was nothing to do (ASSUMED meaning of Ok(None);
/// Ok(Some(t)): changes are staged but the minimum interval since the last update has not passed, t is when it will have)
pub uninterp spec fn rrdp_caught_up(m: RepositoryManager) -> bool;
pub assume_specification [RepositoryManager::update_rrdp_if_needed] (m: &RepositoryManager) -> (r: Result<Option<Time>, Error>)
    ensures r is Ok && r->Ok_0 is None ==> rrdp_caught_up(*m);
pub assume_specification [<Priority as From<Time>>::from] (t: Time) -> (r: Priority);
pub assume_specification [in_hours] (h: i64) -> (r: Priority);
pub assume_specification [RepositoryManager::is_initialized] (m: &RepositoryManager) -> (r: Result<bool, Error>) ensures r is Ok ==> r->Ok_0 == has_publication_server(*m);
impl TaskQueue {
    #[verifier::external_body] pub fn schedule(&self, task: Task, priority: Priority) -> (r: KrillResult<()>) ensures r is Ok ==> scheduled(*self, task) { unimplemented!() }
    #[verifier::external_body] pub fn schedule_missing(&self, task: Task, priority: Priority) -> (r: KrillResult<()>) ensures r is Ok ==> scheduled(*self, task) { unimplemented!() }
}
impl CaManager { #[verifier::external_body] pub fn get_ca(&self, h: &CaHandle) -> (r: Result<std::sync::Arc<CertAuth>, Error>) { unimplemented!() } }
impl CertAuth {
    #[verifier::external_body] pub fn handle(&self) -> (r: &CaHandle) { unimplemented!() }
    #[verifier::external_body] pub fn parents(&self) -> (r: Vec<ParentHandle>) { unimplemented!() }
}
pub assume_specification [CaManager::ca_handles] (m: &CaManager) -> (r: Result<Vec<CaHandle>, Error>);
pub assume_specification [CaManager::republish_all] (m: &CaManager, f: bool, k: &KrillRuntime) -> (r: Result<Vec<CaHandle>, Error>);
pub assume_specification [CaManager::renew_objects_all] (m: &CaManager, a: &Actor, k: &KrillRuntime) -> (r: Result<(), Error>);
pub assume_specification [CaManager::ta_renew_testbed_ta] (m: &CaManager, k: &KrillRuntime) -> (r: Result<(), Error>);
pub assume_specification [CertAuth::version] (c: &CertAuth) -> (r: u64);
pub assume_specification [Config::ca_refresh_start_up] (c: &Config, j: bool) -> (r: Priority);
pub assume_specification [Config::suspend_child_after_inactive_seconds] (c: &Config) -> (r: Option<i64>);
impl Config { #[verifier::external_body] pub fn testbed(&self) -> (r: Option<&TestBed>) { unimplemented!() } }
#[verifier::external_type_specification] #[verifier::external_body] pub struct ExSlowKrillRuntime(SlowKrillRuntime);
impl SlowKrillRuntime {
    #[verifier::external_body] pub fn ca_manager(&self) -> (q: &CaManager) { unimplemented!() }
    #[verifier::external_body] pub fn config(&self) -> (q: &Config) { unimplemented!() }
    #[verifier::external_body] pub fn system_actor(&self) -> (q: &Actor) { unimplemented!() }
}
/// the work of the task was carried out for the committed version it was queued for (ASSUMED meaning of Ok(true) of the drivers;
/// Ok(false): the task ran before its CA version was committed -- tasks are queued in the pre-save step)
pub uninterp spec fn repo_synced(ca: CaHandle, version: u64) -> bool;
pub uninterp spec fn parent_synced(ca: CaHandle, version: u64, parent: ParentHandle) -> bool;
pub uninterp spec fn ca_hosted(ca: CaHandle) -> bool;
pub uninterp spec fn parent_known(ca: CaHandle, parent: ParentHandle) -> bool;
pub assume_specification [CaManager::cas_repo_sync_single] (m: &CaManager, c: &CaHandle, v: u64, k: &SlowKrillRuntime) -> (r: Result<bool, Error>)
    ensures r == Ok::<bool, Error>(true) ==> repo_synced(*c, v);
pub assume_specification [CaManager::ca_sync_parent] (m: &CaManager, c: &CaHandle, v: u64, p: &ParentHandle, a: &Actor, k: &SlowKrillRuntime) -> (r: Result<bool, Error>)
    ensures r == Ok::<bool, Error>(true) ==> parent_synced(*c, v, *p), r is Err && r->Err_0 is CaParentUnknown ==> !parent_known(*c, *p);
pub assume_specification [CaManager::has_ca] (m: &CaManager, c: &CaHandle) -> (r: Result<bool, Error>) ensures r is Ok ==> r->Ok_0 == ca_hosted(*c);
pub assume_specification [Config::requeue_remote_failed] (c: &Config) -> (r: Priority);
pub assume_specification [Config::ca_refresh_next] (c: &Config) -> (r: Priority);
pub assume_specification [in_seconds] (m: i64) -> (r: Priority);
pub assume_specification [now] () -> (r: Priority);
pub assume_specification [in_minutes] (m: i64) -> (r: Priority);
pub assume_specification [in_weeks] (m: i64) -> (r: Priority);
'''


def build():
    U = Unit('c09_scheduler', 'C09', 'recurring handlers answer FollowUp(self); the start-up task schedules republish / renew / snapshot tasks unconditionally')
    prelude.strings(U)
    for t in ['CaHandle', 'ParentHandle', 'ResourceClassName', 'RevocationRequest']:
        U.opaque(t, 'Clone')
    U.enum('src/commons/error.rs', 'Error', keep=['CaParentUnknown'], derive=[])
    for t in ['CaManager', 'CertAuth', 'Actor', 'Priority', 'TaskQueue', 'TestBed']:
        U.opaque(t, '')
    U.outside('pub type KrillResult<T> = Result<T, Error>;\npub struct TaTiming { pub mft_next_update_weeks: i64 }\npub struct Config { pub bgp_riswhois_enabled: bool, pub ta_timing: TaTiming }')
    U.outside(OUT)
    U.enum(MQ, 'Task', derive=['Clone'])
    U.enum(MQ, 'TaskResult', derive=[])
    U.add(SPEC)
    for c in ['SCHEDULER_USE_JITTER_CAS_THRESHOLD', 'SCHEDULER_RESYNC_REPO_CAS_THRESHOLD', 'SCHEDULER_INTERVAL_RENEW_MINS', 'SCHEDULER_INTERVAL_REPUBLISH_MINS']:
        U.free(U.const('src/constants.rs', None, c))
    follow = lambda fn, task: U.free(U.fn(SCH, None, fn, eta=('FatalError',), ensures=[
        ('never_done', f'r is Ok ==> r->Ok_0 is FollowUp && r->Ok_0->FollowUp_0 == Task::{task}')]))
    U.free(U.fn(SCH, None, 'queue_start_tasks', eta=('FatalError',), ensures=[
        ('recurring_tasks_scheduled', '''r is Ok ==> scheduled(tasks_of(*krill), Task::RepublishIfNeeded)
            && scheduled(tasks_of(*krill), Task::RenewObjectsIfNeeded) && scheduled(tasks_of(*krill), Task::UpdateSnapshots)'''),
        # F21: a publication is committed before its RRDP update is queued; a stop in between is repaired here
        ('rrdp_update_scheduled_when_a_publication_server_runs', '''r is Ok && has_publication_server(repo_of(*krill)) ==> scheduled(tasks_of(*krill), Task::RrdpUpdateIfNeeded)''')]))
    # a task is finished for good only when its work was done (or can never be done); a premature or failed run is kept
    U.free(U.fn(SCH, None, 'sync_repo', eta=('FatalError',), ensures=[
        ('done_only_when_synchronised', 'r is Ok && (r->Ok_0 is Done ==> repo_synced(ca, version))'),
        ('otherwise_the_task_is_kept', 'r is Ok && (r->Ok_0 is Done || r->Ok_0 is Reschedule)')]))
    U.free(U.fn(SCH, None, 'sync_parent', eta=('FatalError',), ensures=[
        ('dropped_only_for_a_ca_or_parent_that_is_gone', 'r is Ok && r->Ok_0 is Done ==> !ca_hosted(ca) || !parent_known(ca, parent)'),
        ('after_success_the_refresh_recurs', '''r is Ok && r->Ok_0 is FollowUp ==> parent_synced(ca, ca_version, parent)
            && r->Ok_0->FollowUp_0 == (Task::SyncParent { ca_handle: ca, ca_version, parent })'''),
        ]))
    U.free(U.fn(SCH, None, 'update_rrdp_if_needed', eta=('FatalError',), ensures=[
        ('done_only_when_nothing_is_left_staged', 'r is Ok && (r->Ok_0 is Done ==> rrdp_caught_up(repo_of(*krill)))'),
        ('otherwise_the_task_is_kept', 'r is Ok && (r->Ok_0 is Done || r->Ok_0 is Reschedule)')]))
    follow('renew_objects_if_needed', 'RenewObjectsIfNeeded')
    follow('republish_if_needed', 'RepublishIfNeeded')
    follow('renew_testbed_ta', 'RenewTestbedTa')
    return U
