"""C15 (proxy side, delivery): TrustAnchorProxy::apply, arm SignerResponseReceived -- every response in the accepted signer
response is filed under the child it is addressed to and under no other child; the request it answers is no longer open; the
open signer request is closed."""
from vxlib import Unit
from units import prelude

TP = 'src/server/taproxy.rs'
TA = 'src/api/ta.rs'
CA = 'src/api/ca.rs'
CH = 'src/server/ca/child.rs'

SPEC = r'''
impl From<&str> for ResourceClassName { #[verifier::external_body] fn from(s: &str) -> (o: Self) { unimplemented!() } }
/// what one child looks like after the responses `rs` addressed to it have been filed
pub open spec fn child_after(c0: TrustAnchorChild, c1: TrustAnchorChild, rs: Map<KeyIdentifier, ProvisioningResponse>) -> bool {
    // every response addressed to the child is there to be collected, and the request it answers is closed
    &&& forall |k: KeyIdentifier| #[trigger] rs.contains_key(k) ==> c1.open_responses@.contains_key(k) && c1.open_responses@[k] == rs[k] && !c1.open_requests@.contains_key(k)
    // nothing else was filed, dropped or re-opened
    &&& forall |k: KeyIdentifier| #[trigger] c1.open_responses@.contains_key(k) && !rs.contains_key(k) ==> c0.open_responses@.contains_key(k) && c1.open_responses@[k] == c0.open_responses@[k]
    &&& forall |k: KeyIdentifier| #[trigger] c0.open_responses@.contains_key(k) && !rs.contains_key(k) ==> c1.open_responses@.contains_key(k)
    &&& forall |k: KeyIdentifier| #[trigger] c1.open_requests@.contains_key(k) ==> c0.open_requests@.contains_key(k)
    &&& forall |k: KeyIdentifier| #[trigger] c0.open_requests@.contains_key(k) && !rs.contains_key(k) ==> c1.open_requests@.contains_key(k)
}
'''


def build():
    U = Unit('c15_proxy_apply', 'C15', 'proxy apply(SignerResponseReceived): each response is filed under the addressed child only, its request closed, the open signer request closed')
    prelude.hashmap(U, get_mut=True)
    prelude.strings(U)
    for t in ['CaHandle', 'RepositoryContact', 'PublicKey', 'ResourceSet', 'TrustAnchorObjects', 'TaCertDetails',
              'TrustAnchorSignedMessage', 'ProvisioningRequest', 'Nonce', 'Base64', 'Hash', 'IssuanceResponse', 'RevocationResponse']:
        U.opaque(t, 'Clone')
    U.opaque('ChildHandle', 'Clone, PartialEq, Eq, Hash')
    U.opaque('KeyIdentifier', 'Clone, Copy, PartialEq, Eq, Hash', clone_spec=True)
    U.opaque('ResourceClassName', 'Clone')
    U.outside('pub type TaNonce = Nonce;\npub mod provisioning { pub use super::{IssuanceResponse, RevocationResponse}; }')
    U.struct(CA, 'IdCertInfo', derive=['Clone'])
    U.struct(TA, 'TrustAnchorSignerInfo', derive=['Clone'])
    U.enum(CH, 'UsedKeyState', derive=['Clone'])
    U.enum(TA, 'ProvisioningResponse', derive=['Clone'])
    U.struct(TA, 'TrustAnchorChild', derive=['Clone'])
    U.struct(TA, 'TrustAnchorSignerResponse', derive=['Clone'])
    U.struct(TA, 'TrustAnchorSignedResponse', derive=['Clone'])
    U.struct(TP, 'TrustAnchorProxy', derive=[])
    U.enum(TP, 'TrustAnchorProxyEvent', derive=[])
    U.add(SPEC)
    U.impl('impl TrustAnchorSignedResponse', [
        U.fn(TA, 'TrustAnchorSignedResponse', 'into_content', ensures=[('is_clear_text', 'r == self.response')]),
    ])
    km = 'obeys_key_model::<ChildHandle>() && obeys_key_model::<KeyIdentifier>()'
    U.impl('impl TrustAnchorProxy', [
        U.fn(TP, 'TrustAnchorProxy', 'apply', trait='Aggregate', as_inherent=True, clone_loops=(0, 1),
             attrs=['#[verifier::loop_isolation(false)]'],
             subst=[('event: Self::Event', 'event: TrustAnchorProxyEvent', 'R4')],
             keep_arms={'TrustAnchorProxyEvent': ['SignerResponseReceived']},
             requires=[('km', km), ('this_arm', 'event is SignerResponseReceived'), ('enabled', 'old(self).signer is Some')],
             ensures=[
                 ('signer_request_closed', 'final(self).open_signer_request is None'),
                 ('same_signer_with_the_new_objects', '''final(self).signer is Some && final(self).signer->Some_0.id == old(self).signer->Some_0.id
                        && final(self).signer->Some_0.objects == event->SignerResponseReceived_0.response.objects'''),
                 ('same_children', 'final(self).child_details@.dom() =~= old(self).child_details@.dom()'),
                 ('filed_under_the_addressed_child', '''forall |c: ChildHandle| #[trigger] old(self).child_details@.contains_key(c) && event->SignerResponseReceived_0.response.child_responses@.contains_key(c)
                        ==> child_after(old(self).child_details@[c], final(self).child_details@[c], event->SignerResponseReceived_0.response.child_responses@[c]@)'''),
                 ('and_under_no_other_child', '''forall |c: ChildHandle| #[trigger] old(self).child_details@.contains_key(c) && !event->SignerResponseReceived_0.response.child_responses@.contains_key(c)
                        ==> final(self).child_details@[c].open_responses@ == old(self).child_details@[c].open_responses@
                            && final(self).child_details@[c].open_requests@ == old(self).child_details@[c].open_requests@'''),
             ],
             loops={
                 0: {'iter': 'vx_it', 'invariant': [
                     ('km', km),
                     ('pairs', '''vx_it.seq().len() == content.child_responses@.len() && (forall |i: int| 0 <= i < vx_it.seq().len() ==> content.child_responses@.contains_key(*(#[trigger] vx_it.seq()[i]).0)
                            && content.child_responses@[*vx_it.seq()[i].0] == *vx_it.seq()[i].1) && vx_it.seq().no_duplicates()'''),
                     ('all_listed', 'forall |c: ChildHandle| #[trigger] content.child_responses@.contains_key(c) ==> exists |j: int| 0 <= j < vx_it.seq().len() && *(#[trigger] vx_it.seq()[j]).0 == c'),
                     ('same_children', 'self.child_details@.dom() =~= old(self).child_details@.dom()'),
                     ('visited_children_filed', '''forall |j: int| 0 <= j < vx_it.index@ && old(self).child_details@.contains_key(*(#[trigger] vx_it.seq()[j]).0)
                            ==> child_after(old(self).child_details@[*vx_it.seq()[j].0], self.child_details@[*vx_it.seq()[j].0], vx_it.seq()[j].1@)'''),
                     ('others_untouched', '''forall |c: ChildHandle| #[trigger] old(self).child_details@.contains_key(c) && !(exists |j: int| 0 <= j < vx_it.index@ && *(#[trigger] vx_it.seq()[j]).0 == c)
                            ==> self.child_details@[c] == old(self).child_details@[c]'''),
                     ('signer', 'self.signer == old(self).signer'),
                 ]},
                 1: {'iter': 'vx_it1', 'invariant': [
                     ('km', km),
                     ('pairs', '''vx_it1.seq().len() == child_responses@.len() && (forall |i: int| 0 <= i < vx_it1.seq().len() ==> child_responses@.contains_key(*(#[trigger] vx_it1.seq()[i]).0)
                            && child_responses@[*vx_it1.seq()[i].0] == *vx_it1.seq()[i].1) && vx_it1.seq().no_duplicates()'''),
                     ('all_listed', 'forall |k: KeyIdentifier| #[trigger] child_responses@.contains_key(k) ==> exists |j: int| 0 <= j < vx_it1.seq().len() && *(#[trigger] vx_it1.seq()[j]).0 == k'),
                     ('filed_or_to_come', '''forall |k: KeyIdentifier| #[trigger] child_responses@.contains_key(k) ==>
                            (child_details.open_responses@.contains_key(k) && child_details.open_responses@[k] == child_responses@[k] && !child_details.open_requests@.contains_key(k))
                            || exists |j: int| vx_it1.index@ <= j < vx_it1.seq().len() && *(#[trigger] vx_it1.seq()[j]).0 == k'''),
                     ('nothing_else_filed', '''forall |k: KeyIdentifier| #[trigger] child_details.open_responses@.contains_key(k) && !child_responses@.contains_key(k)
                            ==> g_c0.open_responses@.contains_key(k) && child_details.open_responses@[k] == g_c0.open_responses@[k]'''),
                     ('nothing_dropped', 'forall |k: KeyIdentifier| #[trigger] g_c0.open_responses@.contains_key(k) && !child_responses@.contains_key(k) ==> child_details.open_responses@.contains_key(k)'),
                     ('nothing_reopened', 'forall |k: KeyIdentifier| #[trigger] child_details.open_requests@.contains_key(k) ==> g_c0.open_requests@.contains_key(k)'),
                     ('only_answered_requests_closed', 'forall |k: KeyIdentifier| #[trigger] g_c0.open_requests@.contains_key(k) && !child_responses@.contains_key(k) ==> child_details.open_requests@.contains_key(k)'),
                 ]}},
             ghost=[
                 (('loop_start', 0), '''let ghost g_map = self.child_details@; let ghost g_n = vx_it.index@ as int;
                    proof {
                        assert((vx_k0, vx_v0) == vx_it.seq()[g_n]); assert(child_handle == *vx_k0); assert(child_responses@ == vx_v0@);
                        assert forall |i: int| 0 <= i < vx_it.seq().len() && i != g_n implies *(#[trigger] vx_it.seq()[i]).0 != child_handle by {
                            let a = vx_it.seq()[i]; let b = vx_it.seq()[g_n];
                            if *a.0 == *b.0 { assert(*a.1 == content.child_responses@[*a.0]); assert(*b.1 == content.child_responses@[*b.0]); assert(a == b); }
                        }
                    }'''),
                 (('before_loop', 1), 'let ghost g_c0 = *child_details; proof { assert(g_c0 == g_map[child_handle]); }'),
                 (('loop_start', 1), '''let ghost g_i = vx_it1.index@ as int; let ghost g_c = *child_details;
                    proof { assert((vx_k1, vx_v1) == vx_it1.seq()[g_i]); assert(key_id == *vx_k1); assert(response == *vx_v1); assert(child_responses@.contains_key(key_id) && child_responses@[key_id] == response); }'''),
                 (('loop_end', 1), '''proof {
                        /*@this_response_filed_under_this_child*/ assert(child_details.open_responses@.contains_key(key_id) && child_details.open_responses@[key_id] == response
                            && !child_details.open_requests@.contains_key(key_id));
                        assert(child_details.open_responses@ == g_c.open_responses@.insert(key_id, response));
                        assert(child_details.open_requests@ == g_c.open_requests@.remove(key_id));
                        assert forall |k: KeyIdentifier| #[trigger] child_responses@.contains_key(k) implies
                            (child_details.open_responses@.contains_key(k) && child_details.open_responses@[k] == child_responses@[k] && !child_details.open_requests@.contains_key(k))
                            || exists |j: int| g_i + 1 <= j < vx_it1.seq().len() && *(#[trigger] vx_it1.seq()[j]).0 == k by {
                            if k != key_id && !(g_c.open_responses@.contains_key(k) && g_c.open_responses@[k] == child_responses@[k] && !g_c.open_requests@.contains_key(k)) {
                                let j = choose |j: int| g_i <= j < vx_it1.seq().len() && *(#[trigger] vx_it1.seq()[j]).0 == k; assert(j != g_i);
                            }
                        }
                    }'''),
                 (('after_loop', 1), '''proof { /*@all_responses_of_this_child_filed*/ assert(child_after(g_c0, *child_details, child_responses@)); }'''),
             ]),
    ])
    return U
