"""C03 (trust anchor): TrustAnchorObjects::add_issued / revoke_issued -- replacing or revoking the certificate issued to a
key puts the previous certificate on the TA's revocation list (and drops nothing that has not expired)."""
from vxlib import Unit
from units import prelude

TA = 'src/api/ta.rs'
CA = 'src/api/ca.rs'

SPEC = r'''
pub uninterp spec fn csr_key(c: CsrInfo) -> KeyIdentifier;
pub assume_specification [CsrInfo::key_id] (c: &CsrInfo) -> (r: KeyIdentifier) ensures r == csr_key(*c);
pub uninterp spec fn not_after(v: Validity) -> Time;
pub assume_specification [Validity::not_after] (v: Validity) -> (r: Time) ensures r == not_after(v);
/// opaque model of the revocation list (its mutators are verified in unit c03_keyobjectset; ASSUMED here with the same clauses)
pub uninterp spec fn rev_has(r: Revocations, serial: Serial, expires: Time) -> bool;
pub uninterp spec fn expired(t: Time) -> bool;
pub uninterp spec fn rev_of(r: Revocation) -> (Serial, Time);
pub assume_specification [Revocation::new] (serial: Serial, expires: Time) -> (r: Revocation) ensures rev_of(r) == (serial, expires);
impl Revocations {
    #[verifier::external_body] pub fn add(&mut self, revocation: Revocation)
        ensures forall |s: Serial, t: Time| #[trigger] rev_has(*final(self), s, t) <==> (rev_has(*old(self), s, t) || (s, t) == rev_of(revocation))
    { unimplemented!() }
    #[verifier::external_body] pub fn remove_expired(&mut self) -> (r: Vec<Revocation>)
        ensures forall |s: Serial, t: Time| rev_has(*old(self), s, t) && !expired(t) ==> #[trigger] rev_has(*final(self), s, t),
                forall |s: Serial, t: Time| #[trigger] rev_has(*final(self), s, t) ==> rev_has(*old(self), s, t)
    { unimplemented!() }
}
'''


def build():
    U = Unit('c03_ta', 'C03', 'trust anchor: a replaced or revoked issued certificate goes on the revocation list; unexpired revocations are kept')
    prelude.hashmap(U)
    prelude.strings(U)
    U.opaque('KeyIdentifier', 'Clone, Copy, PartialEq, Eq, Hash')
    U.opaque('Hash', 'Clone, Copy')
    U.opaque('Time', 'Clone, Copy')
    for t in ['ObjectName', 'ResourceSet', 'RequestResourceLimit', 'Name', 'CsrInfo', 'Base64', 'Issued', 'PublishedCrl', 'PublishedManifest']:
        U.opaque(t, 'Clone')
    U.opaque('Rsync', 'Clone', module='uri')
    U.opaque('Validity', 'Clone, Copy')
    U.opaque('Serial', 'Clone, Copy')
    U.opaque('ObjectSetRevision', 'Clone, Copy')
    for t in ['Revocations', 'Revocation']:
        U.opaque(t, '')
    U.outside('''
pub type IssuedCertificate = CertInfo<Issued>;
impl CsrInfo { pub fn key_id(&self) -> KeyIdentifier { unimplemented!() } }
impl Validity { pub fn not_after(self) -> Time { unimplemented!() } }
impl Revocation { pub fn new(_s: Serial, _t: Time) -> Self { unimplemented!() } }
''')
    U.struct(CA, 'CertInfo', derive=[])
    U.struct(TA, 'TrustAnchorObjects', derive=[])
    U.add(SPEC)
    km = 'obeys_key_model::<KeyIdentifier>()'
    U.impl('impl<T> CertInfo<T>', [
        U.fn(CA, 'CertInfo', 'key_identifier', ensures=[('is_csr_key', 'r == csr_key(self.csr_info)')]),
        U.fn(CA, 'CertInfo', 'revocation', ensures=[('identifies_this_certificate', 'rev_of(r) == (self.serial, not_after(self.validity))')]),
    ])
    kept = 'forall |s: Serial, t: Time| rev_has(old(self).revocations, s, t) && !expired(t) ==> #[trigger] rev_has(final(self).revocations, s, t)'
    U.impl('impl TrustAnchorObjects', [
        U.fn(TA, 'TrustAnchorObjects', 'add_issued', requires=[('km', km)], ensures=[
            ('certificate_filed_under_its_key', 'final(self).issued@ == old(self).issued@.insert(csr_key(issued.csr_info), issued)'),
            ('previous_certificate_revoked', '''old(self).issued@.contains_key(csr_key(issued.csr_info)) && !expired(not_after(old(self).issued@[csr_key(issued.csr_info)].validity))
                    ==> rev_has(final(self).revocations, old(self).issued@[csr_key(issued.csr_info)].serial, not_after(old(self).issued@[csr_key(issued.csr_info)].validity))'''),
            ('unexpired_revocations_kept', kept),
        ]),
        U.fn(TA, 'TrustAnchorObjects', 'revoke_issued', requires=[('km', km)], ensures=[
            ('true_iff_there_was_a_certificate', 'r == old(self).issued@.contains_key(*key)'),
            ('certificate_gone', 'final(self).issued@ == old(self).issued@.remove(*key)'),
            ('revoked_certificate_on_the_list', '''old(self).issued@.contains_key(*key) && !expired(not_after(old(self).issued@[*key].validity))
                    ==> rev_has(final(self).revocations, old(self).issued@[*key].serial, not_after(old(self).issued@[*key].validity))'''),
            ('unexpired_revocations_kept', kept),
        ]),
    ])
    return U
