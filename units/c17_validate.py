"""C17: ValidatedRouteOrigin::validate agrees with RFC 6811, for covering-ROA lists of any length, generic over the
address family (the RoutePrefix implementations are checked against their bit-level meaning by engine K)."""
from vxlib import Unit
from units import prelude

AN = 'src/server/bgp/analyser.rs'
RW = 'src/server/bgp/riswhois.rs'
API = 'src/api/roa.rs'

SPEC = r'''
/// RFC 6811: a ROA matches a route origin: same origin AS, ROA prefix covers the route prefix, route length <= max length
pub open spec fn eml<P: RoutePrefix>(r: Roa<'_, P>) -> u8 {
    match r.roa.roa_configuration.payload.max_length { Some(m) => m, None => r.prefix.len_spec() }
}
pub open spec fn matches<P: RoutePrefix>(r: Roa<'_, P>, o: RouteOrigin<P>) -> bool {
    r.roa.roa_configuration.payload.asn == o.origin && r.prefix.covers_spec(o.prefix) && eml(r) >= o.prefix.len_spec()
}
pub open spec fn as0() -> AsNumber { AsNumber(0) }
'''


def build():
    U = Unit('c17_validate', 'C17', 'validate: Valid iff some covering ROA matches (RFC 6811); else InvalidLength iff same-AS ROA exists; else InvalidAsn iff non-AS0 ROA exists; else Disallowed; never NotFound')
    prelude.strings(U)
    U.opaque('TypedPrefix', 'Clone, Copy, PartialEq, Eq, Hash')
    U.opaque('RoaInfo', 'Clone')
    U.outside('use std::fmt;')
    U.struct(API, 'AsNumber', derive=['Clone', 'Copy', 'PartialEq', 'Eq'])
    U.struct(API, 'RoaPayload', derive=['Clone', 'Copy'], structural=False)
    U.struct(API, 'RoaConfiguration', derive=[])
    U.struct(API, 'ConfiguredRoa', derive=[])
    U.struct(RW, 'RouteOrigin', derive=['Clone', 'Copy'], structural=False)
    U.struct(AN, 'Roa', derive=['Clone', 'Copy'], structural=False)
    U.struct(AN, 'ValidatedRouteOrigin', derive=[])
    U.enum(AN, 'RouteOriginValidity', derive=['Clone', 'Copy'], structural=False)
    U.trait(RW, 'RoutePrefix', spec='    spec fn covers_spec(self, other: Self) -> bool;\n    spec fn len_spec(self) -> u8;',
            methods={'covers': [('is_spec', 'r == self.covers_spec(other)')], 'addr_len': [('is_spec', 'r == self.len_spec()')]})
    U.add(SPEC)
    U.impl("impl AsNumber", [U.const(API, 'AsNumber', 'AS0', ensures='AsNumber::AS0 == AsNumber(0)'), U.fn(API, 'AsNumber', 'from_u32', ensures=[('wraps', 'r == AsNumber(number)')])])
    U.impl("impl<'a, P: RoutePrefix> Roa<'a, P>", [
        U.fn(AN, 'Roa', 'payload', ensures=[('is_field', 'r == self.roa.roa_configuration.payload')]),
        U.fn(AN, 'Roa', 'origin', ensures=[('is_field', 'r == self.roa.roa_configuration.payload.asn')]),
        U.fn(AN, 'Roa', 'max_len', ensures=[('is_field', 'r == self.roa.roa_configuration.payload.max_length')]),
        U.fn(AN, 'Roa', 'effective_max_len', ensures=[('is_eml', 'r == eml(self)')]),
    ])
    U.impl('impl<P: RoutePrefix> ValidatedRouteOrigin<P>', [
        U.fn(AN, 'ValidatedRouteOrigin', 'validate', copied_loops=(0,),
             ensures=[
                 ('valid_iff_some_roa_matches', '(r.validity is Valid) <==> (exists |i: int| 0 <= i < covering@.len() && matches(covering@[i], origin))'),
                 ('valid_names_a_matching_roa', 'r.validity is Valid ==> exists |i: int| 0 <= i < covering@.len() && matches(covering@[i], origin) && r.validity->Valid_0 == covering@[i].roa.roa_configuration.payload'),
                 ('invalid_length_iff', '''(r.validity is InvalidLength) <==> (!(exists |i: int| 0 <= i < covering@.len() && matches(covering@[i], origin))
                    && (exists |i: int| 0 <= i < covering@.len() && (#[trigger] covering@[i]).roa.roa_configuration.payload.asn == origin.origin))'''),
                 ('invalid_asn_iff', '''(r.validity is InvalidAsn) <==> (!(exists |i: int| 0 <= i < covering@.len() && (#[trigger] covering@[i]).roa.roa_configuration.payload.asn == origin.origin)
                    && (exists |i: int| 0 <= i < covering@.len() && (#[trigger] covering@[i]).roa.roa_configuration.payload.asn != as0()))'''),
                 ('never_not_found', '!(r.validity is NotFound)'),
                 ('origin_kept', 'r.route_origin == origin'),
                 ('disallowing_is_all_covering', '''!(r.validity is Valid) ==> r.disallowing@.len() == covering@.len()
                    && forall |i: int| 0 <= i < covering@.len() ==> r.disallowing@[i] == (#[trigger] covering@[i]).roa.roa_configuration.payload'''),
             ],
             loops={0: {'iter': 'vx_it', 'invariant': [
                 ('none_matched_so_far', 'forall |i: int| 0 <= i < vx_it.index@ ==> !matches(covering@[i], origin)'),
                 ('same_asn_flag', 'same_asn_found <==> (exists |i: int| 0 <= i < vx_it.index@ && (#[trigger] covering@[i]).roa.roa_configuration.payload.asn == origin.origin)'),
                 ('non_as0_flag', 'none_as0_found <==> (exists |i: int| 0 <= i < vx_it.index@ && (#[trigger] covering@[i]).roa.roa_configuration.payload.asn != as0())'),
                 ('invalidating', '''invalidating@.len() == vx_it.index@ && forall |i: int| 0 <= i < vx_it.index@ ==> invalidating@[i] == (#[trigger] covering@[i]).roa.roa_configuration.payload'''),
             ]}},
             ghost=[(('loop_start', 0), 'proof { assert(roa == covering@[vx_it.index@ as int]); }')]),
    ])
    return U
