"""C06 (replay never panics, trust-anchor proxy) / C15: TrustAnchorProxy::process_add_child_request -- a child request is filed
(ChildRequestAdded) only for a child the proxy knows, so that applying the stored event finds the child it unwraps; and only a request
for the TA's resource class, within the child's resources, with a well-formed CSR, or a revocation for a key the child has in use."""
from vxlib import Unit
from units import prelude

TP = 'src/server/taproxy.rs'
TA = 'src/api/ta.rs'
ERR = 'src/commons/error.rs'

OUT = '''
pub type KrillResult<T> = Result<T, Error>;
pub mod provisioning {
    use super::*;
    pub struct IssuanceRequest(pub u8);
    pub struct RevocationRequest(pub u8);
    impl IssuanceRequest {
        pub fn class_name(&self) -> &ResourceClassName { unimplemented!() }
        pub fn limit(&self) -> &RequestResourceLimit { unimplemented!() }
        pub fn csr(&self) -> &Csr { unimplemented!() }
    }
    impl RevocationRequest {
        pub fn class_name(&self) -> &ResourceClassName { unimplemented!() }
        pub fn key(&self) -> KeyIdentifier { unimplemented!() }
    }
}
impl RequestResourceLimit { pub fn apply_to(&self, _r: &ResourceSet) -> Result<ResourceSet, Error> { unimplemented!() } }
impl CsrInfo { pub fn vx_try_from(_c: &Csr) -> Result<CsrInfo, Error> { unimplemented!() } }
pub fn ta_resource_class_name() -> ResourceClassName { unimplemented!() }
'''

SPEC = r'''
#[verifier::external_type_specification] #[verifier::external_body] pub struct ExIssuanceRequest(provisioning::IssuanceRequest);
#[verifier::external_type_specification] #[verifier::external_body] pub struct ExRevocationRequest(provisioning::RevocationRequest);
pub uninterp spec fn iss_class(r: provisioning::IssuanceRequest) -> ResourceClassName;
pub uninterp spec fn rev_class(r: provisioning::RevocationRequest) -> ResourceClassName;
pub uninterp spec fn rev_key(r: provisioning::RevocationRequest) -> KeyIdentifier;
pub uninterp spec fn ta_class() -> ResourceClassName;
pub uninterp spec fn limit_ok(r: provisioning::IssuanceRequest, res: ResourceSet) -> bool;
pub uninterp spec fn csr_ok(r: provisioning::IssuanceRequest) -> bool;
pub assume_specification [provisioning::IssuanceRequest::class_name] (r: &provisioning::IssuanceRequest) -> (c: &ResourceClassName) ensures *c == iss_class(*r);
pub assume_specification [provisioning::RevocationRequest::class_name] (r: &provisioning::RevocationRequest) -> (c: &ResourceClassName) ensures *c == rev_class(*r);
pub assume_specification [provisioning::RevocationRequest::key] (r: &provisioning::RevocationRequest) -> (k: KeyIdentifier) ensures k == rev_key(*r);
pub assume_specification [ta_resource_class_name] () -> (c: ResourceClassName) ensures c == ta_class();
pub uninterp spec fn iss_limit(r: provisioning::IssuanceRequest) -> RequestResourceLimit;
pub uninterp spec fn iss_csr(r: provisioning::IssuanceRequest) -> Csr;
pub uninterp spec fn lim_ok(l: RequestResourceLimit, res: ResourceSet) -> bool;
pub uninterp spec fn csr_wf(c: Csr) -> bool;
pub assume_specification [provisioning::IssuanceRequest::limit] (r: &provisioning::IssuanceRequest) -> (l: &RequestResourceLimit) ensures *l == iss_limit(*r);
pub assume_specification [provisioning::IssuanceRequest::csr] (r: &provisioning::IssuanceRequest) -> (c: &Csr) ensures *c == iss_csr(*r);
pub assume_specification [RequestResourceLimit::apply_to] (l: &RequestResourceLimit, res: &ResourceSet) -> (r: Result<ResourceSet, Error>) ensures r is Ok <==> lim_ok(*l, *res);
pub assume_specification [CsrInfo::vx_try_from] (c: &Csr) -> (r: Result<CsrInfo, Error>) ensures r is Ok <==> csr_wf(*c);
impl vstd::std_specs::cmp::PartialEqSpecImpl for ResourceClassName {
    open spec fn obeys_eq_spec() -> bool { true }
    open spec fn eq_spec(&self, other: &ResourceClassName) -> bool { *self == *other }
}
pub assume_specification [<ResourceClassName as PartialEq>::eq] (a: &ResourceClassName, b: &ResourceClassName) -> (r: bool);
'''


def build():
    U = Unit('c06_ta_child_request', 'C06', 'TA proxy: a child request is filed only for a known child (the stored event can be applied), for the TA class, within the child\'s resources / for a key in use'.replace("\\'", ''))
    prelude.hashmap(U)
    prelude.strings(U)
    U.opaque('ChildHandle', 'Clone, PartialEq, Eq, Hash')
    U.opaque('KeyIdentifier', 'Clone, Copy, PartialEq, Eq, Hash')
    U.opaque('CaHandle', 'Clone')
    U.opaque('ResourceClassName', 'Clone, PartialEq')
    for t in ['IdCertInfo', 'ResourceSet', 'UsedKeyState', 'ProvisioningResponse', 'RequestResourceLimit', 'Csr', 'CsrInfo']:
        U.opaque(t, '')
    U.auto_opaque = True
    U.outside(OUT)
    U.enum(ERR, 'Error', keep=['Custom', 'CaChildUnknown'], derive=[])
    U.enum(TA, 'ProvisioningRequest', derive=[])
    U.struct(TA, 'TrustAnchorChild', derive=[])
    U.struct(TP, 'TrustAnchorProxy', derive=[])
    U.enum(TP, 'TrustAnchorProxyEvent', keep=['ChildRequestAdded'], derive=[])
    U.add(SPEC)
    km = 'obeys_key_model::<ChildHandle>() && obeys_key_model::<KeyIdentifier>()'
    U.impl('impl TrustAnchorProxy', [
        U.fn(TP, 'TrustAnchorProxy', 'get_child_details', requires=[('km', km)], ensures=[
            ('known', '(r is Ok) <==> self.child_details@.contains_key(*child_handle)'), ('details', 'r is Ok ==> *r->Ok_0 == self.child_details@[*child_handle]')]),
        U.fn(TP, 'TrustAnchorProxy', 'process_add_child_request', requires=[('km', km)],
             subst=[('CsrInfo::try_from(issuance.csr())?', 'CsrInfo::vx_try_from(issuance.csr())?', 'R9')],
             ensures=[
                 ('replayable_filed_only_for_a_known_child', 'r is Ok ==> self.child_details@.contains_key(child_handle) && r->Ok_0@ == seq![TrustAnchorProxyEvent::ChildRequestAdded(child_handle, request)]'),
                 ('issuance_only_for_the_ta_class_within_the_childs_resources_with_a_wellformed_csr', '''r is Ok && request is Issuance ==> iss_class(request->Issuance_0) == ta_class()
                        && lim_ok(iss_limit(request->Issuance_0), self.child_details@[child_handle].resources) && csr_wf(iss_csr(request->Issuance_0))'''),
                 ('revocation_only_for_the_ta_class_and_a_key_of_this_child', '''r is Ok && request is Revocation ==> rev_class(request->Revocation_0) == ta_class()
                        && self.child_details@[child_handle].used_keys@.contains_key(rev_key(request->Revocation_0))'''),
             ]),
    ])
    return U
