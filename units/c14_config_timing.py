"""C14 (validity windows contain the present; nothing is re-issued on every run): the checks of Config::verify on the life time and
the re-issue margin of ROAs, ASPA objects and BGPsec router certificates (each check is one statement of verify, lifted verbatim,
R17s; verify returns the error of the first statement that refuses).  A configuration that passes has, for each of the three
kinds, a life time of at least two weeks and a margin of at least one week that is smaller than the life time -- so an object is
issued with a not-after time in the future and is not due again the moment it is issued (F25: the ASPA and BGPsec settings were not
checked at all)."""
from vxlib import Unit
from units import prelude

CFG = 'src/config.rs'

SPEC = r'''
pub struct Config { pub issuance_timing: IssuanceTimingConfig }   // stub: the one field these statements read
/// the statement: what a usable pair (life time, margin) is, in weeks
pub open spec fn timing_ok(valid: u32, before: u32) -> bool { valid >= 2 && 1 <= before && before < valid }
impl ConfigError { #[verifier::external_body] pub fn other(s: &str) -> (r: ConfigError) { unimplemented!() } }
'''

LEMMA = r'''
/// the three statements of one kind, passed in sequence, give the statement-level condition
pub proof fn lemma_three_checks_make_the_timing_usable(valid: u32, before: u32)
    requires !(valid < 2), !(before < 1), !(before >= valid)
    ensures timing_ok(valid, before)
{}
'''


def build():
    U = Unit('c14_config_timing', 'C14', 'a verified configuration has, for ROAs, ASPA objects and router certificates, a life time >= 2 weeks and a margin >= 1 week below it')
    prelude.strings(U)
    U.opaque('ConfigError', '')
    U.struct(CFG, 'IssuanceTimingConfig', derive=['Clone', 'Copy'], structural=False)
    U.add(SPEC)
    fns = []
    for kind in ('roa', 'aspa', 'bgpsec'):
        v, b = f'timing_{kind}_valid_weeks', f'timing_{kind}_reissue_weeks_before'
        for nm, start, cond in ((f'{kind}_life_time', f'if self.issuance_timing.{v} < 2', f'self.issuance_timing.{v} >= 2'),
                                (f'{kind}_margin_positive', f'if self.issuance_timing.{b} < 1', f'self.issuance_timing.{b} >= 1'),
                                (f'{kind}_margin_below_life_time', f'if self.issuance_timing.{b} >= self.issuance_timing.{v}', f'self.issuance_timing.{b} < self.issuance_timing.{v}')):
            fns.append(U.stmt_fn(CFG, 'Config', 'verify', start, f'vx_check_{nm}', '(&self) -> (r: Result<(), ConfigError>)', tail='Ok(())',
                                 ensures=[('refused_unless', f'r is Ok ==> {cond}')]))
    U.impl('impl Config', fns)
    U.lemma('three_checks_make_the_timing_usable', LEMMA)
    return U
