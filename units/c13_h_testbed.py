from units.c13_handlers import build_file


def extra(U):
    U.outside('''
pub fn testbed_ca_handle() -> CaHandle { unimplemented!() }
impl Actor { pub fn anonymous() -> Actor { unimplemented!() } }
impl ParentResponse { pub fn to_xml_vec(&self) -> Vec<u8> { unimplemented!() } }
impl RepositoryResponse { pub fn to_xml_vec(&self) -> Vec<u8> { unimplemented!() } }
''')
    U.add('''
pub assume_specification [testbed_ca_handle] () -> (r: CaHandle) ensures r == testbed_ca_spec();
pub assume_specification [Actor::anonymous] () -> (r: Actor);
pub assume_specification [ParentResponse::to_xml_vec] (x: &ParentResponse) -> (r: Vec<u8>);
pub assume_specification [RepositoryResponse::to_xml_vec] (x: &RepositoryResponse) -> (r: Vec<u8>);
''')


def build():
    return build_file('testbed.rs', 'c13_h_testbed', 'testbed self-service endpoints reach the facade only when testbed mode is on, and only for the testbed CA',
                      skip=(), extra=extra,
                      handler_requires={'*': [('testbed_mode_on', 'testbed_on(request)')], '!': ['dispatch']})
