"""C11 (files, order of steps): RrdpServer::update_rrdp_files -- the notification file is switched only AFTER the snapshot and
delta files it names were written, and old files are cleaned up only AFTER the switch; so the notification that is being served
at any cut point of the sequence names files that are still there (the old ones until the switch, the new ones from then on).
The steps themselves touch the file system and are ASSUMED externals; the order is stated as capabilities: a step demands what
the previous step, and only it, establishes."""
from vxlib import Unit
from units import prelude

RR = 'src/server/pubd/rrdp.rs'

OUT = '''
use std::collections::VecDeque;
pub mod uri { pub struct Https(pub u8); }
pub type PathBuf = std::path::PathBuf;
pub type KrillResult<T> = Result<T, Error>;
pub struct Uuid(pub u8);
impl NotificationFile { pub fn serial(&self) -> u64 { unimplemented!() } pub fn session_id(&self) -> Uuid { unimplemented!() } }
impl RrdpSession { pub fn uuid(&self) -> Uuid { unimplemented!() } }
impl PartialEq for Uuid { fn eq(&self, _o: &Uuid) -> bool { unimplemented!() } }
'''

SPEC = r'''
#[verifier::external_type_specification] #[verifier::external_body] pub struct ExPathBuf(std::path::PathBuf);
#[verifier::external_type_specification] #[verifier::external_body] pub struct ExHttps(uri::Https);
#[verifier::external_type_specification] #[verifier::external_body] pub struct ExUuid(Uuid);
pub assume_specification [NotificationFile::serial] (n: &NotificationFile) -> (r: u64);
pub assume_specification [NotificationFile::session_id] (n: &NotificationFile) -> (r: Uuid);
pub assume_specification [RrdpSession::uuid] (n: &RrdpSession) -> (r: Uuid);
pub assume_specification [<Uuid as PartialEq>::eq] (a: &Uuid, b: &Uuid) -> (r: bool);

// ---- capabilities: each is ESTABLISHED only by the assumed contract of the step named ----
/// the delta files listed in `d` exist on disk (established by write_delta_files)
pub uninterp spec fn deltas_on_disk(s: RrdpServer, d: Seq<DeltaInfo>) -> bool;
/// the snapshot file described by `i` exists on disk (established by write_snapshot_file)
pub uninterp spec fn snapshot_on_disk(s: RrdpServer, i: SnapshotInfo) -> bool;
/// notification.xml is the one for the current session and serial (established by write_notification_file, or found so on disk)
pub uninterp spec fn notification_current(s: RrdpServer) -> bool;
impl RrdpServer {
    #[verifier::external_body] pub fn vx_read_notification(&self) -> (r: Option<NotificationFile>) { unimplemented!() }
    #[verifier::external_body] pub fn write_delta_files(&self, old_notification_opt: Option<NotificationFile>) -> (r: KrillResult<Vec<DeltaInfo>>)
        ensures r is Ok ==> deltas_on_disk(*self, r->Ok_0@) { unimplemented!() }
    #[verifier::external_body] pub fn write_snapshot_file(&self) -> (r: KrillResult<SnapshotInfo>)
        ensures r is Ok ==> snapshot_on_disk(*self, r->Ok_0) { unimplemented!() }
    #[verifier::external_body] pub fn write_notification_file(&self, snapshot: SnapshotInfo, deltas: Vec<DeltaInfo>) -> (r: KrillResult<()>)
        requires snapshot_on_disk(*self, snapshot), deltas_on_disk(*self, deltas@)
        ensures r is Ok ==> notification_current(*self) { unimplemented!() }
    #[verifier::external_body] pub fn cleanup_old_rrdp_files(&self, rrdp_updates_config: RrdpUpdatesConfig) -> (r: KrillResult<()>)
        requires notification_current(*self) { unimplemented!() }
}
'''


def build():
    U = Unit('c11_write_order', 'C11', 'RRDP file generation: files first, then the notification switch, then the clean-up')
    prelude.hashmap(U)
    prelude.strings(U)
    prelude.time(U)
    for t in ['RrdpSession', 'SnapshotData', 'DeltaData', 'StagedElements', 'NotificationFile', 'DeltaInfo', 'SnapshotInfo', 'RrdpUpdatesConfig', 'Error']:
        U.opaque(t, 'Clone' if t in ('RrdpSession',) else '')
    U.opaque('PublisherHandle', 'Clone, PartialEq, Eq, Hash')
    U.outside(OUT)
    U.struct(RR, 'RrdpServer', derive=[])
    U.add(SPEC)
    U.impl('impl RrdpServer', [
        U.fn(RR, 'RrdpServer', 'update_rrdp_files', subst=[
            ('''file::read(
            &self.notification_path()
        ).ok().and_then(|bytes| {
            rpki::rrdp::NotificationFile::parse(bytes.as_ref()).ok()
        })''', 'self.vx_read_notification()', 'R14')],
            requires=[('nothing_assumed', 'true')]),
    ])
    return U
