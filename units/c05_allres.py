"""C05 (what "held resources" means): CertAuth::all_resources -- the set every configuration change is validated against covers
the current resources of EVERY resource class (under every parent) and consists of nothing but such resources.  ChildDetails::issued
(C02/C03): the keys reported as issued to a child under a class are exactly the keys recorded as in use for that class."""
from vxlib import Unit
from units import prelude

CA = 'src/server/ca/certauth.rs'
CH = 'src/server/ca/child.rs'

SPEC = r'''
// ---- ASSUMED resource algebra (rpki-rs): union is an upper bound of both operands and the least one; contains is transitive ----
pub uninterp spec fn rs_contains(a: ResourceSet, b: ResourceSet) -> bool;
pub uninterp spec fn rs_union(a: ResourceSet, b: ResourceSet) -> ResourceSet;
pub uninterp spec fn rs_empty() -> ResourceSet;
pub assume_specification [ResourceSet::union] (a: &ResourceSet, b: &ResourceSet) -> (r: ResourceSet) ensures r == rs_union(*a, *b);
pub assume_specification [<ResourceSet as Default>::default] () -> (r: ResourceSet) ensures r == rs_empty();
#[verifier::external_body]
pub broadcast proof fn axiom_union(a: ResourceSet, b: ResourceSet)
    ensures rs_contains(#[trigger] rs_union(a, b), a), rs_contains(rs_union(a, b), b) {}
#[verifier::external_body]
pub broadcast proof fn axiom_union_least(a: ResourceSet, b: ResourceSet, c: ResourceSet)
    requires rs_contains(c, a), rs_contains(c, b) ensures #[trigger] rs_contains(c, rs_union(a, b)) {}
#[verifier::external_body]
pub broadcast proof fn axiom_contains_trans(a: ResourceSet, b: ResourceSet, c: ResourceSet)
    requires #[trigger] rs_contains(a, b), #[trigger] rs_contains(b, c) ensures rs_contains(a, c) {}
#[verifier::external_body]
pub broadcast proof fn axiom_contains_empty(a: ResourceSet) ensures #[trigger] rs_contains(a, rs_empty()) {}
/// the current resources of a class (ResourceClass::current_resources: those on the current key's certificate), uninterpreted
pub uninterp spec fn class_resources(rc: ResourceClass) -> Option<ResourceSet>;
pub assume_specification [ResourceClass::current_resources] (rc: &ResourceClass) -> (r: Option<&ResourceSet>)
    ensures match r { Some(x) => class_resources(*rc) == Some(*x), None => class_resources(*rc) is None };
'''


def build():
    U = Unit('c05_allres', 'C05', 'all_resources covers the current resources of every class and nothing else; ChildDetails::issued lists exactly the keys in use under the class')
    prelude.hashmap(U)
    prelude.strings(U)
    U.opaque('ResourceSet', 'Clone')
    U.opaque('ResourceClass', '')
    U.opaque('ResourceClassName', 'Clone, PartialEq, Eq, Hash', eq=True)
    U.opaque('KeyIdentifier', 'Clone, Copy, PartialEq, Eq, Hash')
    for t in ['IdCertInfo', 'ChildState']:
        U.opaque(t, 'Clone')
    U.outside('''
impl ResourceSet { pub fn union(&self, _o: &ResourceSet) -> ResourceSet { unimplemented!() } }
impl Default for ResourceSet { fn default() -> Self { unimplemented!() } }
impl ResourceClass { pub fn current_resources(&self) -> Option<&ResourceSet> { unimplemented!() } }
/// stand-in for CertAuth: the one field all_resources reads
pub struct CertAuth { pub resources: HashMap<ResourceClassName, ResourceClass> }
''')
    U.add('#[verifier::external_type_specification] pub struct ExCertAuth(CertAuth);')
    U.outside('pub type KrillResult<T> = Result<T, Error>;')
    U.enum('src/commons/error.rs', 'Error', keep=['KeyUseAttemptReuse'], derive=[])
    U.enum(CH, 'UsedKeyState', derive=[])
    U.struct(CH, 'ChildDetails', derive=[])
    U.add(SPEC)
    km = 'obeys_key_model::<ResourceClassName>() && obeys_key_model::<KeyIdentifier>()'
    U.impl('impl CertAuth', [
        U.fn(CA, 'CertAuth', 'all_resources', attrs=['#[verifier::loop_isolation(false)]'], requires=[('km', km)],
             ghost=[(('body_start',), 'broadcast use axiom_union, axiom_union_least, axiom_contains_trans, axiom_contains_empty;'),
                    (('loop_start', 0), 'let ghost g_r = resources; let ghost g_i = vx_it.index@ as int; proof { assert(*rc == vx_it.seq().unref()[g_i]); assert(vx_it.seq().unref().to_set().contains(*rc)); }'),
                    (('loop_end', 0), '''proof {
                        assert forall |c: ResourceClass| #[trigger] self.resources@.values().contains(c) && class_resources(c) is Some implies
                            rs_contains(resources, class_resources(c)->Some_0) || exists |j: int| g_i + 1 <= j < vx_it.seq().len() && *(#[trigger] vx_it.seq()[j]) == c by {
                            if c != *rc && !rs_contains(g_r, class_resources(c)->Some_0) { let j = choose |j: int| g_i <= j < vx_it.seq().len() && *(#[trigger] vx_it.seq()[j]) == c; assert(j != g_i); }
                        }
                    }''')],
             ensures=[
                 ('covers_every_class', 'forall |c: ResourceClass| #[trigger] self.resources@.values().contains(c) && class_resources(c) is Some ==> rs_contains(r, class_resources(c)->Some_0)'),
                 ('nothing_but_class_resources', '''forall |bound: ResourceSet| (forall |c: ResourceClass| #[trigger] self.resources@.values().contains(c) && class_resources(c) is Some
                        ==> rs_contains(bound, class_resources(c)->Some_0)) ==> rs_contains(bound, r)'''),
             ],
             loops={0: {'iter': 'vx_it', 'invariant': [
                 ('all', 'vx_it.seq().unref().to_set() == self.resources@.values()'),
                 ('covered_or_to_come', '''forall |c: ResourceClass| #[trigger] self.resources@.values().contains(c) && class_resources(c) is Some ==>
                        rs_contains(resources, class_resources(c)->Some_0) || exists |j: int| vx_it.index@ <= j < vx_it.seq().len() && *(#[trigger] vx_it.seq()[j]) == c'''),
                 ('least', '''forall |bound: ResourceSet| (forall |c: ResourceClass| #[trigger] self.resources@.values().contains(c) && class_resources(c) is Some
                        ==> rs_contains(bound, class_resources(c)->Some_0)) ==> rs_contains(bound, resources)'''),
             ]}}),
    ])
    U.impl('impl ChildDetails', [
        # a child key belongs to one class of the parent for good: a request for a revoked key, or for a key that is in use under
        # another class, is refused (otherwise one key would have certificates in two classes and F12-style revocations miss one)
        U.fn(CH, 'ChildDetails', 'verify_key_allowed', requires=[('km', km)], ensures=[
            ('allowed_iff_new_or_in_use_under_this_class', '''(r is Ok) <==> (!self.used_keys@.contains_key(*ki) || self.used_keys@[*ki] == UsedKeyState::InUse(*parent_rcn))''')]),
        U.fn(CH, 'ChildDetails', 'issued', hash_loops=(0,), attrs=['#[verifier::loop_isolation(false)]'], requires=[('km', km)],
             ensures=[
                 ('exactly_the_keys_in_use_under_the_class', '''forall |k: KeyIdentifier| r@.contains(k) <==>
                        (self.used_keys@.contains_key(k) && self.used_keys@[k] == UsedKeyState::InUse(*parent_rcn))'''),
             ],
             loops={0: {'iter': 'vx_it', 'invariant': [
                 ('pairs', '''vx_it.seq().len() == self.used_keys@.len() && (forall |i: int| 0 <= i < vx_it.seq().len() ==> self.used_keys@.contains_key(*(#[trigger] vx_it.seq()[i]).0)
                        && self.used_keys@[*vx_it.seq()[i].0] == *vx_it.seq()[i].1) && vx_it.seq().no_duplicates()'''),
                 ('all_listed', 'forall |k: KeyIdentifier| #[trigger] self.used_keys@.contains_key(k) ==> exists |j: int| 0 <= j < vx_it.seq().len() && *(#[trigger] vx_it.seq()[j]).0 == k'),
                 ('only_in_use', 'forall |i: int| 0 <= i < res@.len() ==> self.used_keys@.contains_key(#[trigger] res@[i]) && self.used_keys@[res@[i]] == UsedKeyState::InUse(*parent_rcn)'),
                 ('listed_or_to_come', '''forall |k: KeyIdentifier| #[trigger] self.used_keys@.contains_key(k) && self.used_keys@[k] == UsedKeyState::InUse(*parent_rcn) ==>
                        res@.contains(k) || exists |j: int| vx_it.index@ <= j < vx_it.seq().len() && *(#[trigger] vx_it.seq()[j]).0 == k'''),
             ]}},
             ghost=[
                 (('loop_start', 0), 'let ghost g_res = res@; let ghost g_i = vx_it.index@ as int; proof { assert((ki, used_key_state) == vx_it.seq()[g_i]); }'),
                 (('loop_end', 0), '''proof {
                    assert forall |k: KeyIdentifier| #[trigger] self.used_keys@.contains_key(k) && self.used_keys@[k] == UsedKeyState::InUse(*parent_rcn) implies
                        res@.contains(k) || exists |j: int| g_i + 1 <= j < vx_it.seq().len() && *(#[trigger] vx_it.seq()[j]).0 == k by {
                        if k == *ki { assert(res@[g_res.len() as int] == k); }
                        else if g_res.contains(k) { let i = choose |i: int| 0 <= i < g_res.len() && g_res[i] == k; assert(res@[i] == k); }
                        else { let j = choose |j: int| g_i <= j < vx_it.seq().len() && *(#[trigger] vx_it.seq()[j]).0 == k; assert(j != g_i); }
                    }
                 }'''),
             ]),
    ])
    return U
