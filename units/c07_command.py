"""C07 / C06 (single-task reading of the command path): the transaction body of AggregateStore::execute_opt_command (closure lifted
verbatim, R15) against a ghost model of the key-value transaction.  Decided, for one call running alone (no claim about
interleavings -- that is what C07's quantifier over schedules adds and what stays not applicable):
  * a command is recorded under exactly the next free version of the caught-up aggregate, at most one record per call;
  * a rejected command leaves exactly one audit record, carrying an error effect, and nothing else;
  * a command without effect, a failing pre-save step, and a plain read leave the log untouched;
  * the aggregate handed back (and cached) is the loaded one caught up with the stored commands and, for an accepted command,
    with exactly the recorded command applied (Aggregate::apply_command, unit c06_replay)."""
from vxlib import Unit
from units import prelude
from units import c06_replay as R

ST = 'src/commons/eventsourcing/store.rs'
AGG = 'src/commons/eventsourcing/agg.rs'

OUT = '''
use std::fmt;
use std::sync::Arc;
use std::borrow::Cow;
pub struct Mutex<T>(pub T);
pub mod storage { pub struct Error(pub u8); }
pub trait DeserializeOwned {}
impl<T> DeserializeOwned for T {}
pub trait Serialize {}
impl<T> Serialize for T {}
pub fn vx_exit() -> ! { std::process::exit(1) }
pub fn vx_delete_scope(_kv: &KeyValueStore, _scope: &Ident) -> Result<(), KeyValueError> { unimplemented!() }
impl From<KeyValueError> for AggregateStoreError { fn from(_e: KeyValueError) -> Self { unimplemented!() } }
pub fn vx_make_mut<T: Clone>(a: &mut Arc<T>) -> &mut T { Arc::make_mut(a) }
pub fn vx_arc_ref<T>(a: &Arc<T>) -> &T { a.as_ref() }
'''

SPEC = r'''
#[verifier::external_type_specification] #[verifier::external_body] #[verifier::reject_recursive_types(T)] pub struct ExMutex<T>(Mutex<T>);
#[verifier::external_type_specification] #[verifier::external_body] pub struct ExStorageError(storage::Error);
#[verifier::external_trait_specification] pub trait ExDeserializeOwned { type ExternalTraitSpecificationFor: DeserializeOwned; }
#[verifier::external_trait_specification] pub trait ExSerialize { type ExternalTraitSpecificationFor: Serialize; }
pub assume_specification [vx_exit] () -> ! ;
/// `self.kv.execute(Some(&scope), |kv| kv.delete_scope(&scope))`: the stored files of the instance are removed (ASSUMED, tagged substitution)
pub assume_specification [vx_delete_scope] (kv: &KeyValueStore, scope: &Ident) -> (r: Result<(), KeyValueError>);
pub assume_specification [<AggregateStoreError as From<KeyValueError>>::from] (e: KeyValueError) -> (r: AggregateStoreError);
/// the instances for which the history cache (a Mutex-protected map, outside the verifier) holds command records
pub uninterp spec fn hist_of(h: Option<Mutex<HashMap<MyHandle, Vec<CommandHistoryRecord>>>>) -> Set<MyHandle>;
pub open spec fn history_cached<A: Aggregate>(s: AggregateStore<A>) -> Set<MyHandle> { hist_of(s.history_cache) }
/// ASSUMED (std): Arc::make_mut gives exclusive access to the value (cloning it first when shared): the value seen through the
/// reference is the Arc's value, and the Arc holds whatever the reference is left with.  (Tagged substitution to a wrapper for
/// Sized T: the std signature is for ?Sized T, for which Verus cannot state equality.)
pub assume_specification<T: Clone> [vx_make_mut] (a: &mut Arc<T>) -> (r: &mut T) ensures *r == **old(a), **final(a) == *final(r);
pub assume_specification<T> [vx_arc_ref] (a: &Arc<T>) -> (r: &T) ensures *r == **a;
/// ASSUMED (std): cloning an Arc yields an Arc to the same value
pub assume_specification<T: ?Sized, A: std::alloc::Allocator + Clone> [<Arc<T, A> as Clone>::clone] (a: &Arc<T, A>) -> (r: Arc<T, A>) ensures r == *a;
pub assume_specification<'a, 'b, B: ?Sized + ToOwned> [<Cow<'a, B> as std::ops::Deref>::deref] (c: &'b Cow<'a, B>) -> (r: &'b B);
pub assume_specification<'a, T, A> [<std::boxed::Box<T, A> as std::ops::Deref>::deref] (b: &'a std::boxed::Box<T, A>) -> (r: &'a T)
           where A: std::alloc::Allocator, T: std::marker::MetaSized + ?Sized,
    ensures r == &**b;

// ---- ghost model of the key-value transaction, restricted to the scope of one aggregate (ASSUMED contracts on Transaction) ----
/// a stored value (the JSON text); `blob_of` / `parse` stand for serde: ASSUMED to round-trip
pub struct Blob(pub int);
pub uninterp spec fn blob_of<T>(v: T) -> Blob;
pub uninterp spec fn parse<T>(b: Blob) -> Option<T>;
#[verifier::external_body] pub broadcast proof fn axiom_serde_round_trip<T>(v: T) ensures #[trigger] parse::<T>(blob_of(v)) == Some(v) {}
pub uninterp spec fn kvmap(t: Transaction) -> Map<Ident, Blob>;
impl Transaction {
    #[verifier::external_body]
    pub fn has(&mut self, scope: Option<&Ident>, key: &Ident) -> (r: Result<bool, storage::Error>)
        ensures *final(self) == *old(self), r is Ok ==> r->Ok_0 == kvmap(*old(self)).contains_key(*key)
    { unimplemented!() }
    #[verifier::external_body]
    pub fn get<T: DeserializeOwned>(&mut self, scope: Option<&Ident>, key: &Ident) -> (r: Result<Option<T>, storage::Error>)
        ensures *final(self) == *old(self),
            r is Ok ==> (r->Ok_0 is Some <==> kvmap(*old(self)).contains_key(*key)),
            r is Ok && r->Ok_0 is Some ==> parse::<T>(kvmap(*old(self))[*key]) == r->Ok_0
    { unimplemented!() }
    #[verifier::external_body]
    pub fn store<T: Serialize>(&mut self, scope: Option<&Ident>, key: &Ident, value: &T) -> (r: Result<(), storage::Error>)
        ensures r is Ok ==> kvmap(*final(self)) == kvmap(*old(self)).insert(*key, blob_of(*value)),
            r is Err ==> kvmap(*final(self)) == kvmap(*old(self))
    { unimplemented!() }
}
/// the key of the command that takes an aggregate from version v on (command-<v>.json) and of the snapshot; ASSUMED distinct
pub uninterp spec fn cmd_key(v: u64) -> Ident;
pub uninterp spec fn snap_key() -> Ident;
#[verifier::external_body] pub broadcast proof fn axiom_keys_distinct(v: u64, w: u64)
    ensures #[trigger] cmd_key(v) == #[trigger] cmd_key(w) ==> v == w, cmd_key(v) != snap_key() {}

// ---- vocabulary of the statement ----
/// the command stored for version v, if any
pub open spec fn stored<A: Aggregate>(m: Map<Ident, Blob>, v: u64) -> Option<StoredCommand<A>> {
    if m.contains_key(cmd_key(v)) { parse::<StoredCommand<A>>(m[cmd_key(v)]) } else { None }
}
/// `b` is `a` caught up with n stored commands of the log (replay of the tail)
pub open spec fn catch_up<A: Aggregate>(a: A, m: Map<Ident, Blob>, n: nat) -> A decreases n {
    if n == 0 { a } else {
        match stored::<A>(m, a.ver()) { Some(c) => catch_up(command_applied(a, c), m, (n - 1) as nat), None => a }
    }
}
/// nothing more to replay
pub open spec fn caught_up<A: Aggregate>(a: A, m: Map<Ident, Blob>) -> bool { !m.contains_key(cmd_key(a.ver())) }
pub proof fn lemma_ver_apply_all<A: Aggregate>(a: A, evs: Seq<A::Event>)
    ensures apply_all(a, evs).ver() == a.ver()
    decreases evs.len()
{
    broadcast use axiom_ver_applied;
    if evs.len() > 0 { lemma_ver_apply_all(a, evs.drop_last()); }
}
pub proof fn lemma_ver_command_applied<A: Aggregate>(a: A, c: StoredCommand<A>)
    requires a.ver() < u64::MAX
    ensures command_applied(a, c).ver() == a.ver() + 1
{
    broadcast use axiom_ver_bumped;
    match c.effect { StoredEffect::Success { events } => { lemma_ver_apply_all(a.bumped(), events@); }, _ => {} }
}
/// REPLAY FROM SCRATCH: the state after the init command and the commands 1 .. v-1 of the log (v >= 1)
pub open spec fn replay<A: Aggregate>(m: Map<Ident, Blob>, h: MyHandle, v: nat) -> A decreases v {
    if v <= 1 {
        match stored::<A>(m, 0) { Some(c) => (match c.effect { StoredEffect::Init { init } => A::init_spec(h, init), _ => arbitrary() }), None => arbitrary() }
    } else {
        match stored::<A>(m, (v - 1) as u64) { Some(c) => command_applied(replay::<A>(m, h, (v - 1) as nat), c), None => arbitrary() }
    }
}
/// the aggregate IS the replay of the log up to its own version
pub open spec fn coherent<A: Aggregate>(a: A, m: Map<Ident, Blob>, h: MyHandle) -> bool { a.ver() >= 1 && a == replay::<A>(m, h, a.ver() as nat) }
/// every command below the aggregate's version is in the log
pub open spec fn covers<A: Aggregate>(a: A, m: Map<Ident, Blob>) -> bool { forall |w: u64| w < a.ver() ==> #[trigger] m.contains_key(cmd_key(w)) }
/// the log has no gaps and stays clear of the end of u64
pub open spec fn contiguous(m: Map<Ident, Blob>) -> bool {
    (forall |v: u64, w: u64| #![trigger m.contains_key(cmd_key(v)), m.contains_key(cmd_key(w))] m.contains_key(cmd_key(v)) && w < v ==> m.contains_key(cmd_key(w)))
    && (forall |v: u64| #[trigger] m.contains_key(cmd_key(v)) ==> v < 0xffff_ffff_ffff_0000)
}
/// a log extended by one record at or above version v replays to the same states up to v
pub proof fn lemma_replay_frame<A: Aggregate>(m: Map<Ident, Blob>, v: u64, b: Blob, h: MyHandle, n: nat)
    requires n <= v, n >= 1
    ensures replay::<A>(m.insert(cmd_key(v), b), h, n) == replay::<A>(m, h, n)
    decreases n
{
    broadcast use axiom_keys_distinct;
    let m1 = m.insert(cmd_key(v), b);
    if n <= 1 {
        assert(cmd_key(0) != cmd_key(v)) by { if cmd_key(0) == cmd_key(v) { assert(0 == v); } }
        assert(stored::<A>(m1, 0) == stored::<A>(m, 0));
    } else {
        lemma_replay_frame::<A>(m, v, b, h, (n - 1) as nat);
        assert(stored::<A>(m1, (n - 1) as u64) == stored::<A>(m, (n - 1) as u64));
    }
}
pub proof fn lemma_replay_frame_snap<A: Aggregate>(m: Map<Ident, Blob>, b: Blob, h: MyHandle, n: nat)
    ensures replay::<A>(m.insert(snap_key(), b), h, n) == replay::<A>(m, h, n)
    decreases n
{
    broadcast use axiom_keys_distinct;
    let m1 = m.insert(snap_key(), b);
    if n <= 1 {
        assert(cmd_key(0) != snap_key());
        assert(stored::<A>(m1, 0) == stored::<A>(m, 0));
    } else {
        lemma_replay_frame_snap::<A>(m, b, h, (n - 1) as nat);
        assert(cmd_key((n - 1) as u64) != snap_key());
        assert(stored::<A>(m1, (n - 1) as u64) == stored::<A>(m, (n - 1) as u64));
    }
}
/// an aggregate that is coherent with a log stays coherent when the log grows by a record at a free version, or by a snapshot
pub proof fn lemma_coherent_frame<A: Aggregate>(xr: &A, m: Map<Ident, Blob>, v: u64, b: Blob, h: MyHandle)
    requires coherent(*xr, m, h), covers(*xr, m), !m.contains_key(cmd_key(v))
    ensures coherent(*xr, m.insert(cmd_key(v), b), h), covers(*xr, m.insert(cmd_key(v), b))
{
    let x = *xr;
    if v < x.ver() { assert(m.contains_key(cmd_key(v))); }
    lemma_replay_frame::<A>(m, v, b, h, x.ver() as nat);
    assert forall |w: u64| w < x.ver() implies #[trigger] m.insert(cmd_key(v), b).contains_key(cmd_key(w)) by { assert(m.contains_key(cmd_key(w))); }
}
pub proof fn lemma_coherent_frame_snap<A: Aggregate>(xr: &A, m: Map<Ident, Blob>, b: Blob, h: MyHandle)
    requires coherent(*xr, m, h), covers(*xr, m)
    ensures coherent(*xr, m.insert(snap_key(), b), h), covers(*xr, m.insert(snap_key(), b))
{
    let x = *xr;
    lemma_replay_frame_snap::<A>(m, b, h, x.ver() as nat);
    assert forall |w: u64| w < x.ver() implies #[trigger] m.insert(snap_key(), b).contains_key(cmd_key(w)) by { assert(m.contains_key(cmd_key(w))); }
}
pub proof fn lemma_contiguous_insert(m: Map<Ident, Blob>, v: u64, b: Blob)
    requires contiguous(m), !m.contains_key(cmd_key(v)), v < 0xffff_ffff_ffff_0000, forall |w: u64| w < v ==> #[trigger] m.contains_key(cmd_key(w))
    ensures contiguous(m.insert(cmd_key(v), b))
{
    broadcast use axiom_keys_distinct;
    let m1 = m.insert(cmd_key(v), b);
    assert forall |x: u64, w: u64| #![trigger m1.contains_key(cmd_key(x)), m1.contains_key(cmd_key(w))] m1.contains_key(cmd_key(x)) && w < x implies m1.contains_key(cmd_key(w)) by {
        if x == v { assert(m.contains_key(cmd_key(w))); } else { assert(m.contains_key(cmd_key(x))); if w != v { assert(m.contains_key(cmd_key(w))); } }
    }
    assert forall |x: u64| #[trigger] m1.contains_key(cmd_key(x)) implies x < 0xffff_ffff_ffff_0000 by { if x != v { assert(m.contains_key(cmd_key(x))); } }
}
pub proof fn lemma_contiguous_snap(m: Map<Ident, Blob>, b: Blob)
    requires contiguous(m) ensures contiguous(m.insert(snap_key(), b))
{
    broadcast use axiom_keys_distinct;
    let m1 = m.insert(snap_key(), b);
    assert forall |x: u64, w: u64| #![trigger m1.contains_key(cmd_key(x)), m1.contains_key(cmd_key(w))] m1.contains_key(cmd_key(x)) && w < x implies m1.contains_key(cmd_key(w)) by {
        assert(m.contains_key(cmd_key(x))); assert(m.contains_key(cmd_key(w)));
    }
    assert forall |x: u64| #[trigger] m1.contains_key(cmd_key(x)) implies x < 0xffff_ffff_ffff_0000 by { assert(m.contains_key(cmd_key(x))); }
}
/// the snapshot (if any) and the cached instance (if any) are coherent with the log -- the representation invariant of the store
pub open spec fn store_inv<A: Aggregate>(cache: Map<MyHandle, Arc<A>>, m: Map<Ident, Blob>, h: MyHandle) -> bool {
    contiguous(m)
    && (cache.contains_key(h) ==> coherent(*cache[h], m, h) && covers(*cache[h], m))
    && (m.contains_key(snap_key()) && parse::<A>(m[snap_key()]) is Some ==> coherent(parse::<A>(m[snap_key()])->Some_0, m, h) && covers(parse::<A>(m[snap_key()])->Some_0, m))
}
'''


def build():
    U = Unit('c07_command', 'C07', 'command path of the aggregate store, one call alone: one record at the next free version; rejected = one error record; no-op / pre-save failure / read = no trace; result = caught-up aggregate (+ the recorded command)')
    U.feature('allocator_api', 'sized_hierarchy', 'clone_to_uninit')
    prelude.strings(U)
    prelude.time(U)
    prelude.hashmap(U)
    U.opaque('MyHandle', 'Clone, PartialEq, Eq, Hash')
    for t in ['KeyValueStore', 'CommandHistoryRecord', 'Transaction', 'KeyValueError']:
        U.opaque(t, '')
    U.opaque('Ident', 'Clone')
    U.outside(R.OUT)
    U.outside(OUT)
    U.add(R.SPEC)
    U.enum(ST, 'AggregateStoreError', keep=['UnknownAggregate'], derive=[])
    U.enum(AGG, 'StoredEffect', derive=['Clone'])
    U.struct(AGG, 'StoredCommand', derive=['Clone'])
    U.struct(AGG, 'StoredCommandBuilder', derive=[])
    U.trait(AGG, 'Aggregate', spec=R.TRAIT_SPEC + '''
    spec fn init_spec(handle: MyHandle, event: Self::InitEvent) -> Self;
    spec fn cmd_applied(self, c: StoredCommand<Self>) -> Self;
''', methods={
        'version': [('is_ver', 'r == self.ver()')],
        'init': [('is_init', 'r == Self::init_spec(*handle, event)')],
        'apply_command': [('as_verified_in_c06_replay', '*final(self) == old(self).cmd_applied(command)')],
    }, subst=[('std::error::Error + Send + Sync + From<AggregateStoreError>', 'std::fmt::Display + From<AggregateStoreError>', 'R4')],
        drop_bodies=['apply_command', 'pre_save_events', 'post_save_events'])
    U.add(R.LEMMAS)
    U.add('''/// ASSUMED laws of every Aggregate implementation: `increment_version` adds one, `apply` leaves the version alone, a freshly
/// initialised aggregate has version 1 (command-0.json is the init command, command-<v>.json takes version v to v + 1)
#[verifier::external_body] pub broadcast proof fn axiom_ver_bumped<A: Aggregate>(a: A) ensures a.ver() < u64::MAX ==> #[trigger] a.bumped().ver() == a.ver() + 1 {}
#[verifier::external_body] pub broadcast proof fn axiom_ver_applied<A: Aggregate>(a: A, e: A::Event) ensures #[trigger] a.applied(e).ver() == a.ver() {}
#[verifier::external_body] pub broadcast proof fn axiom_ver_init<A: Aggregate>(h: MyHandle, e: A::InitEvent) ensures #[trigger] A::init_spec(h, e).ver() == 1 {}
/// the provided body of Aggregate::apply_command does exactly `command_applied` (verified in unit c06_replay; ASSUMED here)
#[verifier::external_body] pub broadcast proof fn axiom_apply_command<A: Aggregate>(a: A, c: StoredCommand<A>)
    ensures #[trigger] a.cmd_applied(c) == command_applied(a, c) {}
''')
    U.struct(ST, 'AggregateStore', derive=[], unlock=['cache'])
    U.add(SPEC)
    U.impl('impl<A: Aggregate> StoredCommandBuilder<A>', [
        U.fn(AGG, 'StoredCommandBuilder', 'new', ensures=[('fields', 'r.actor == actor && r.time == time && r.handle == handle && r.version == version && r.details == details')]),
        U.fn(AGG, 'StoredCommandBuilder', 'finish_with_effect', ensures=[
            ('fields', 'r.actor == self.actor && r.time == self.time && r.handle == self.handle && r.version == self.version && r.details == self.details && r.effect == effect')]),
        U.fn(AGG, 'StoredCommandBuilder', 'finish_with_events', ensures=[
            ('record_of_an_accepted_command', 'r.actor == self.actor && r.handle == self.handle && r.version == self.version && r.details == self.details && r.effect == (StoredEffect::<A::Event, A::InitEvent>::Success { events })')]),
        # `error: impl fmt::Display`, `error.to_string()`: the text of the message is not part of any contract (assumed)
        U.fn(AGG, 'StoredCommandBuilder', 'finish_with_error', external_body=True, ensures=[
            ('record_of_a_rejected_command', 'r.actor == self.actor && r.handle == self.handle && r.version == self.version && r.details == self.details && r.effect is Error')]),
    ])
    U.impl('impl<A: Aggregate> StoredCommand<A>', [
        U.fn(AGG, 'StoredCommand', 'new', ensures=[('fields', 'r.actor == actor && r.time == time && r.handle == handle && r.version == version && r.details == details && r.effect == effect')]),
        U.fn(AGG, 'StoredCommand', 'builder', ensures=[('fields', 'r.actor == actor && r.time == time && r.handle == handle && r.version == version && r.details == details')]),
        U.fn(AGG, 'StoredCommand', 'events', ensures=[('events_of_an_accepted_command', 'match self.effect { StoredEffect::Success { events } => r == Some(&events), _ => r is None }')]),
        U.fn(AGG, 'StoredCommand', 'into_init', ensures=[('init_event_of_an_init_command', 'match self.effect { StoredEffect::Init { init } => r == Some(init), _ => r is None }')]),
    ])
    km = [('km', 'obeys_key_model::<MyHandle>()')]
    U.impl('impl<A: Aggregate> AggregateStore<A>', [
        U.fn(ST, 'AggregateStore', 'cache_get', unlock=['cache'], requires=km, ensures=[
            ('the_cached_instance', 'r == (if self.cache@.contains_key(*id) { Some(self.cache@[*id]) } else { None::<Arc<A>> })')]),
        U.fn(ST, 'AggregateStore', 'cache_update', mut_self=True, unlock=['cache'], requires=km, ensures=[
            ('only_this_instance_replaced', 'final(self).cache@ == old(self).cache@.insert(*id, arc)')]),
        U.fn(ST, 'AggregateStore', 'cache_remove', mut_self=True, unlock=['cache'], requires=km, ensures=[
            ('only_this_instance_forgotten', 'final(self).cache@ == old(self).cache@.remove(*id) && history_cached(*final(self)) == history_cached(*old(self))')]),
        # Mutex-protected map: body outside the verifier, contract ASSUMED (what is verified is that drop_aggregate calls it)
        U.fn(ST, 'AggregateStore', 'history_cache_remove', mut_self=True, external_body=True, ensures=[
            ('history_of_this_instance_forgotten', 'history_cached(*final(self)) == history_cached(*old(self)).remove(*id) && final(self).cache@ == old(self).cache@')]),
        U.fn(ST, 'AggregateStore', 'scope_for_agg', external_body=True),
        U.fn(ST, 'AggregateStore', 'drop_aggregate', mut_self=True, requires=km,
             subst=[('self.kv.execute(Some(&scope), |kv| kv.delete_scope(&scope))', 'vx_delete_scope(&self.kv, &scope)', 'R14')],
             ensures=[('nothing_of_the_dropped_instance_stays_in_memory', '''r is Ok ==> !final(self).cache@.contains_key(*id) && !history_cached(*final(self)).contains(*id)'''),
                      ('other_instances_untouched', '''forall |h: MyHandle| h != *id ==> (#[trigger] final(self).cache@.contains_key(h) == old(self).cache@.contains_key(h))
                            && (history_cached(*final(self)).contains(h) == history_cached(*old(self)).contains(h))''')]),
        U.fn(ST, 'AggregateStore', 'key_for_snapshot', external_body=True, ensures=[('names', '*r == snap_key()')]),
        U.fn(ST, 'AggregateStore', 'key_for_command', external_body=True, ensures=[('names', '*r == cmd_key(version)')]),
        U.closure_fn(ST, 'AggregateStore', 'execute_opt_command', 0, 'vx_command_tx',
                     "<'a>(&mut self, kv: &mut Transaction, handle: &MyHandle, scope: Cow<'_, Ident>, cmd_opt: Option<(&A::Command, A::Context<'a>)>, save_snapshot: bool) -> (r: Result<Result<Arc<A>, A::Error>, storage::Error>)",
                     attrs=['#[verifier::exec_allows_no_decreases_clause]'],
                     subst=[('std::process::exit(1);', 'vx_exit();', 'R14'), ('Arc::make_mut(', 'vx_make_mut(', 'R14', 'all'), ('agg.as_ref()', 'vx_arc_ref(&agg)', 'R14')],
                     requires=km + [('store_coherent_with_its_log', 'store_inv::<A>(old(self).cache@, kvmap(*old(kv)), *handle)'),
                                     ('snapshot_requests_carry_no_command', 'save_snapshot ==> cmd_opt is None'),
                                     ('log_not_full', '!kvmap(*old(kv)).contains_key(cmd_key(0xffff_ffff_fffe_ffff))')],
                     loops={0: {'invariant': [
                         ('log_untouched_while_catching_up', '''kvmap(*kv) == kvmap(*old(kv)) && contiguous(kvmap(*kv)) && self.cache@ == old(self).cache@
                            && store_inv::<A>(old(self).cache@, kvmap(*old(kv)), *handle)'''),
                         ('aggregate_is_the_replay_up_to_its_version', 'coherent(*aggregate, kvmap(*kv), *handle) && covers(*aggregate, kvmap(*kv))')],
                         'ensures': [('nothing_left_to_replay', 'caught_up(*aggregate, kvmap(*kv))')]}},
                     ghost=[(('loop_start', 0), 'let ghost vx_a0 = *aggregate; broadcast use axiom_keys_distinct, axiom_serde_round_trip, axiom_apply_command, axiom_ver_init, axiom_ver_bumped, axiom_ver_applied;'),
                            (('after', 'aggregate.apply_command(command);', 0), '''proof {
                                assert(kvmap(*kv).contains_key(cmd_key(vx_a0.ver())));
                                lemma_ver_command_applied(vx_a0, command);
                                assert(stored::<A>(kvmap(*kv), vx_a0.ver()) == Some(command));
                                assert(replay::<A>(kvmap(*kv), *handle, (vx_a0.ver() + 1) as nat) == command_applied(replay::<A>(kvmap(*kv), *handle, vx_a0.ver() as nat), command));
                            }'''),
                            (('after', 'let version = aggregate.version();', 1), 'let ghost vx_a1 = *aggregate; let ghost vx_m1 = kvmap(*kv);'),
                            (('after', 'kv.store(Some(&scope), &command_key, &processed)?;', 0), '''proof {
                                broadcast use axiom_keys_distinct, axiom_serde_round_trip, axiom_apply_command, axiom_ver_init, axiom_ver_bumped, axiom_ver_applied;
                                assert(vx_a1.ver() < 0xffff_ffff_ffff_0001) by { assert(vx_m1.contains_key(cmd_key((vx_a1.ver() - 1) as u64))); }
                                lemma_ver_command_applied(vx_a1, processed);
                                lemma_replay_frame::<A>(vx_m1, version, blob_of(processed), *handle, vx_a1.ver() as nat);
                                assert(stored::<A>(kvmap(*kv), version) == Some(processed));
                                assert(replay::<A>(kvmap(*kv), *handle, (version + 1) as nat) == command_applied(replay::<A>(kvmap(*kv), *handle, version as nat), processed));
                                assert(!kvmap(*kv).contains_key(cmd_key((version + 1) as u64))) by {
                                    if vx_m1.contains_key(cmd_key((version + 1) as u64)) { assert(vx_m1.contains_key(cmd_key(version))); }
                                }
                                assert(version < 0xffff_ffff_ffff_0000) by { if version >= 0xffff_ffff_ffff_0000 { assert(vx_m1.contains_key(cmd_key(0xffff_ffff_fffe_ffff))); } }
                                lemma_contiguous_insert(vx_m1, version, blob_of(processed));
                                if self.cache@.contains_key(*handle) { lemma_coherent_frame::<A>(&*self.cache@[*handle], vx_m1, version, blob_of(processed), *handle); }
                                if vx_m1.contains_key(snap_key()) && parse::<A>(vx_m1[snap_key()]) is Some {
                                    lemma_coherent_frame::<A>(&parse::<A>(vx_m1[snap_key()])->Some_0, vx_m1, version, blob_of(processed), *handle);
                                    assert(kvmap(*kv)[snap_key()] == vx_m1[snap_key()]);
                                }
                                assert(store_inv::<A>(self.cache@, kvmap(*kv), *handle));
                                assert(covers(*aggregate, kvmap(*kv)));
                            }'''),
                            (('before', 'if let Some(events) = processed.events() {', 0), '''proof {
                                broadcast use axiom_keys_distinct, axiom_serde_round_trip, axiom_apply_command, axiom_ver_init, axiom_ver_bumped, axiom_ver_applied;
                                assert(vx_a1.ver() < 0xffff_ffff_ffff_0001) by { assert(vx_m1.contains_key(cmd_key((vx_a1.ver() - 1) as u64))); }
                                lemma_ver_command_applied(vx_a1, processed);
                                lemma_replay_frame::<A>(vx_m1, version, blob_of(processed), *handle, vx_a1.ver() as nat);
                                assert(stored::<A>(kvmap(*kv), version) == Some(processed));
                                assert(replay::<A>(kvmap(*kv), *handle, (version + 1) as nat) == command_applied(replay::<A>(kvmap(*kv), *handle, version as nat), processed));
                                assert(!kvmap(*kv).contains_key(cmd_key((version + 1) as u64))) by {
                                    if vx_m1.contains_key(cmd_key((version + 1) as u64)) { assert(vx_m1.contains_key(cmd_key(version))); }
                                }
                                assert(version < 0xffff_ffff_ffff_0000) by { if version >= 0xffff_ffff_ffff_0000 { assert(vx_m1.contains_key(cmd_key(0xffff_ffff_fffe_ffff))); } }
                                lemma_contiguous_insert(vx_m1, version, blob_of(processed));
                                if self.cache@.contains_key(*handle) { lemma_coherent_frame::<A>(&*self.cache@[*handle], vx_m1, version, blob_of(processed), *handle); }
                                if vx_m1.contains_key(snap_key()) && parse::<A>(vx_m1[snap_key()]) is Some {
                                    lemma_coherent_frame::<A>(&parse::<A>(vx_m1[snap_key()])->Some_0, vx_m1, version, blob_of(processed), *handle);
                                    assert(kvmap(*kv)[snap_key()] == vx_m1[snap_key()]);
                                }
                                assert(store_inv::<A>(self.cache@, kvmap(*kv), *handle));
                                assert(covers(*aggregate, kvmap(*kv)));
                            }'''),
                            (('before', 'if changed_from_cached {', 0), '''proof { assert(store_inv::<A>(self.cache@, kvmap(*kv), *handle));
                                /*@only_an_instance_that_is_the_replay_of_the_log_goes_into_the_cache*/ assert(changed_from_cached ==> coherent(*agg, kvmap(*kv), *handle) && covers(*agg, kvmap(*kv))); }'''),
                            (('before', 'if save_snapshot {', 0), 'let ghost vx_m2 = kvmap(*kv); proof { assert(store_inv::<A>(self.cache@, vx_m2, *handle)); }'),
                            (('before', 'if let Err(e) = res {', 0), '''proof { if save_snapshot {
                                let b = kvmap(*kv)[snap_key()]; assert(kvmap(*kv) =~= vx_m2.insert(snap_key(), b));
                                lemma_contiguous_snap(vx_m2, b);
                                if self.cache@.contains_key(*handle) { lemma_coherent_frame_snap::<A>(&*self.cache@[*handle], vx_m2, b, *handle); }
                                assert(parse::<A>(b) == Some(*agg));
                                lemma_coherent_frame_snap::<A>(&*agg, vx_m2, b, *handle);
                                lemma_replay_frame_snap::<A>(vx_m2, b, *handle, agg.ver() as nat); assert(cmd_key(agg.ver()) != snap_key());
                            } }''')],
                     ghost_start='broadcast use axiom_keys_distinct, axiom_serde_round_trip, axiom_apply_command, axiom_ver_init, axiom_ver_bumped, axiom_ver_applied;\n',
                     ensures=[
                         ('the_instance_handed_back_is_the_replay_of_the_whole_log', '''r is Ok && r->Ok_0 is Ok ==> coherent(*r->Ok_0->Ok_0, kvmap(*final(kv)), *handle)
                            && caught_up(*r->Ok_0->Ok_0, kvmap(*final(kv)))'''),
                         ('store_stays_coherent_with_its_log', 'store_inv::<A>(final(self).cache@, kvmap(*final(kv)), *handle)'),
                         ('a_read_leaves_no_trace', 'cmd_opt is None && !save_snapshot ==> kvmap(*final(kv)) == kvmap(*old(kv))'),
                         ('at_most_one_record_at_a_free_version_for_this_command', '''!save_snapshot ==> kvmap(*final(kv)) == kvmap(*old(kv))
                            || (cmd_opt is Some && exists |v: u64, c: StoredCommand<A>| #![trigger kvmap(*old(kv)).insert(cmd_key(v), blob_of(c))]
                                    !kvmap(*old(kv)).contains_key(cmd_key(v)) && kvmap(*final(kv)) == kvmap(*old(kv)).insert(cmd_key(v), blob_of(c))
                                    && c.version == v && c.handle == cmd_handle(*cmd_opt->Some_0.0) && c.actor@ == cmd_actor(*cmd_opt->Some_0.0)
                                    && c.details == cmd_details::<A::Command, A::StorableCommandDetails>(*cmd_opt->Some_0.0)
                                    && (r is Ok && r->Ok_0 is Err ==> c.effect is Error)
                                    && (r is Ok && r->Ok_0 is Ok ==> c.effect is Success && c.effect->Success_events@.len() > 0))'''),
                     ]),
    ])
    return U
