"""C04: the CertAuth command functions that start and activate a key roll (process_keyroll_initiate, process_keyroll_activate),
on the real text: EVERY resource class is asked, each exactly once, and the events of the command are exactly the events the
classes appended, in the order the classes were visited -- nothing added, nothing dropped, no class skipped after the first that
had something to do.  What a class appends (only in the phase where the step is enabled, clock permitting) is verified in unit
c04_keystate; here it is a predicate on the block of events the call added."""
from vxlib import Unit
from units import prelude
from units.c05_child import common

CA = 'src/server/ca/certauth.rs'
EV = 'src/server/ca/events.rs'
ERR = 'src/commons/error.rs'

SPEC = r'''
/// `blk` is what ResourceClass::append_keyroll_initiate may add for this class (unit c04_keystate; the clock is an input, so this
/// is a predicate, not a function)
pub uninterp spec fn init_block(rc: ResourceClass, repo: RepoInfo, d: Duration, blk: Seq<CertAuthEvent>) -> bool;
pub uninterp spec fn act_block(rc: ResourceClass, d: Duration, t: IssuanceTimingConfig, blk: Seq<CertAuthEvent>) -> bool;
impl ResourceClass {
    #[verifier::external_body] pub fn append_keyroll_initiate(&self, base_repo: &RepoInfo, duration: Duration, signer: &KrillSigner, events: &mut Vec<CertAuthEvent>) -> (r: KrillResult<bool>)
        ensures r is Ok ==> final(events)@.len() >= old(events)@.len() && final(events)@.subrange(0, old(events)@.len() as int) == old(events)@
            && init_block(*self, *base_repo, duration, final(events)@.subrange(old(events)@.len() as int, final(events)@.len() as int)) { unimplemented!() }
    #[verifier::external_body] pub fn append_keyroll_activate(&self, staging_time: Duration, issuance_timing: &IssuanceTimingConfig, signer: &KrillSigner, events: &mut Vec<CertAuthEvent>) -> (r: KrillResult<bool>)
        ensures r is Ok ==> final(events)@.len() >= old(events)@.len() && final(events)@.subrange(0, old(events)@.len() as int) == old(events)@
            && act_block(*self, staging_time, *issuance_timing, final(events)@.subrange(old(events)@.len() as int, final(events)@.len() as int)) { unimplemented!() }
    #[verifier::external_body] pub fn parent_handle(&self) -> (r: &ParentHandle) { unimplemented!() }
}
#[verifier::external_type_specification] pub struct ExRepositoryContact(RepositoryContact);
/// ASSUMED: `==` on repository contacts is value equality (derived PartialEq in krill)
impl vstd::std_specs::cmp::PartialEqSpecImpl for RepositoryContact {
    open spec fn obeys_eq_spec() -> bool { true }
    open spec fn eq_spec(&self, other: &RepositoryContact) -> bool { *self == *other }
}
pub assume_specification [<RepositoryContact as PartialEq>::eq] (a: &RepositoryContact, b: &RepositoryContact) -> (r: bool);
pub uninterp spec fn roll_possible(rc: ResourceClass) -> bool;
impl ResourceClass { #[verifier::external_body] pub fn key_roll_possible(&self) -> (r: bool) ensures r == roll_possible(*self) { unimplemented!() } }
pub struct Config { pub issuance_timing: IssuanceTimingConfig }
pub uninterp spec fn repo_of(ca: CertAuth) -> Option<RepositoryContact>;
impl CertAuth {
    #[verifier::external_body] pub fn repository_contact(&self) -> (r: KrillResult<&RepositoryContact>)
        ensures match r { Ok(c) => repo_of(*self) == Some(*c), Err(_) => repo_of(*self) is None } { unimplemented!() }
}
/// s lists every resource class of the CA exactly once
pub open spec fn is_listing(ca: CertAuth, s: Seq<(ResourceClassName, ResourceClass)>) -> bool {
    s.len() == ca.resources@.len() && s.no_duplicates()
    && (forall |i: int| 0 <= i < s.len() ==> ca.resources@.contains_key((#[trigger] s[i]).0) && ca.resources@[s[i].0] == s[i].1)
}
pub open spec fn init_ok(ca: CertAuth, d: Duration, evs: Seq<CertAuthEvent>, s: Seq<(ResourceClassName, ResourceClass)>, cuts: Seq<int>) -> bool {
    is_listing(ca, s) && is_split(cuts, s.len() as int, evs)
    && (s.len() > 0 ==> repo_of(ca) is Some)
    && (forall |j: int| 0 <= j < s.len() ==> init_block((#[trigger] s[j]).1, repo_of(ca)->Some_0.repo_info, d, evs.subrange(cuts[j], cuts[j + 1])))
}
pub open spec fn act_ok(ca: CertAuth, d: Duration, t: IssuanceTimingConfig, evs: Seq<CertAuthEvent>, s: Seq<(ResourceClassName, ResourceClass)>, cuts: Seq<int>) -> bool {
    is_listing(ca, s) && is_split(cuts, s.len() as int, evs)
    && (forall |j: int| 0 <= j < s.len() ==> act_block((#[trigger] s[j]).1, d, t, evs.subrange(cuts[j], cuts[j + 1])))
}
/// `cuts` splits `evs` into one block per visited class: cuts[0] == 0, cuts is monotone, the last cut is the end
pub open spec fn is_split(cuts: Seq<int>, n: int, evs: Seq<CertAuthEvent>) -> bool {
    cuts.len() == n + 1 && cuts[0] == 0 && cuts[n] == evs.len() && forall |j: int| 0 <= j < n ==> 0 <= #[trigger] cuts[j] <= cuts[j + 1] <= evs.len()
}
'''


def build():
    U = Unit('c04_roll_wrappers', 'C04', 'starting / activating a roll asks every resource class exactly once; the events of the command are exactly the blocks the classes appended, in visiting order')
    common(U, skip=('ResourceClass', 'RepositoryContact'))
    prelude.time(U)
    for t in ['ResourceClass', 'ChildDetails', 'KrillSigner', 'IssuanceTimingConfig']:
        U.opaque(t, '')
    U.opaque('RepoInfo', 'PartialEq, Eq')
    U.outside('#[derive(PartialEq, Eq)] pub struct RepositoryContact { pub repo_info: RepoInfo }')
    U.struct(CA, 'CertAuth', derive=[])
    U.enum(EV, 'CertAuthEvent', keep=['RepoUpdated'], derive=[])
    U.enum(ERR, 'Error', keep=['CaRepoInUse', 'KeyRollInProgress'], derive=[])
    U.add(SPEC)
    km = 'obeys_key_model::<ResourceClassName>()'
    pairs = '''vx_it.seq().len() == self.resources@.len() && (forall |i: int| 0 <= i < vx_it.seq().len() ==> self.resources@.contains_key(*(#[trigger] vx_it.seq()[i]).0)
                        && self.resources@[*vx_it.seq()[i].0] == *vx_it.seq()[i].1) && vx_it.seq().no_duplicates()'''

    def wrapper(fn, blk, ok):
        return U.fn(CA, 'CertAuth', fn, requires=[('km', km)], hash_loops=(0,), attrs=['#[verifier::loop_isolation(false)]'],
                    ensures=[
                        ('every_class_asked_once_and_nothing_else_emitted', f'''r is Ok ==> exists |s: Seq<(ResourceClassName, ResourceClass)>, cuts: Seq<int>|
                            #[trigger] {ok('r->Ok_0@', 's', 'cuts')}'''),
                    ],
                    loops={0: {'iter': 'vx_it', 'invariant': [
                        ('km', km), ('pairs', pairs),
                        ('split_so_far', 'is_split(g_cuts, vx_it.index@ as int, res@)'),
                        ('listing', 'g_s.len() == vx_it.index@ && vx_it.index@ <= vx_it.seq().len() && forall |j: int| 0 <= j < g_s.len() ==> #[trigger] g_s[j] == (*vx_it.seq()[j].0, *vx_it.seq()[j].1)'),
                        ('listing_ok', 'g_s.no_duplicates() && forall |i: int| 0 <= i < g_s.len() ==> self.resources@.contains_key((#[trigger] g_s[i]).0) && self.resources@[g_s[i].0] == g_s[i].1'),
                        ('repo_known_once_a_class_was_visited', 'g_s.len() > 0 && is_init ==> repo_of(*self) is Some'),
                        ('all_visited_at_the_end', 'vx_it.index@ == vx_it.seq().len() ==> g_s.len() == self.resources@.len()'),
                        ('blocks_so_far', f'''forall |j: int| 0 <= j < g_s.len() ==> {blk('(#[trigger] g_s[j]).1', 'res@.subrange(g_cuts[j], g_cuts[j + 1])')}'''),
                    ]}},
                    ghost=[
                        (('before_loop', 0), f'let ghost is_init = {str(fn == "process_keyroll_initiate").lower()}; let ghost mut g_cuts: Seq<int> = seq![0int]; let ghost mut g_s: Seq<(ResourceClassName, ResourceClass)> = Seq::empty();'),
                        (('loop_start', 0), '''let ghost g_res = res@; let ghost g_i = vx_it.index@ as int;
            proof { assert(*rcn == *vx_it.seq()[g_i].0 && *rc == *vx_it.seq()[g_i].1); }'''),
                        (('loop_end', 0), f'''proof {{
                let ghost old_cuts = g_cuts; let ghost old_s = g_s;
                g_cuts = g_cuts.push(res@.len() as int);
                g_s = g_s.push((*rcn, *rc));
                assert forall |i: int, j: int| 0 <= i < g_s.len() && 0 <= j < g_s.len() && i != j implies g_s[i] != g_s[j] by {{
                    if g_s[i] == g_s[j] {{ let a = vx_it.seq()[i]; let b = vx_it.seq()[j]; assert(*a.0 == *b.0); assert(*a.1 == self.resources@[*a.0]); assert(*b.1 == self.resources@[*b.0]); assert(a == b); }}
                }}
                assert(res@.subrange(0, g_res.len() as int) == g_res);
                assert forall |j: int| 0 <= j < g_i + 1 implies {blk('(#[trigger] g_s[j]).1', 'res@.subrange(g_cuts[j], g_cuts[j + 1])')} by {{
                    if j < g_i {{
                        assert(g_s[j] == old_s[j]);
                        assert(g_cuts[j] == old_cuts[j] && g_cuts[j + 1] == old_cuts[j + 1]);
                        assert(res@.subrange(g_cuts[j], g_cuts[j + 1]) =~= g_res.subrange(old_cuts[j], old_cuts[j + 1]));
                    }} else {{
                        assert(g_cuts[j] == g_res.len() && g_cuts[j + 1] == res@.len());
                    }}
                }}
            }}'''),
                        (('before', 'Ok(res)'), f'''proof {{
            assert(g_s.len() == self.resources@.len()); assert(is_split(g_cuts, g_s.len() as int, res@));
            assert(is_listing(*self, g_s));
            /*@hint_blocks*/ assert(forall |j: int| 0 <= j < g_s.len() ==> {blk('(#[trigger] g_s[j]).1', 'res@.subrange(g_cuts[j], g_cuts[j + 1])')});
            /*@the_blocks_of_all_classes_make_up_the_result*/ assert({ok('res@', 'g_s', 'g_cuts')});
            let ghost rr = Ok::<Vec<CertAuthEvent>, Error>(res); assert({ok('rr->Ok_0@', 'g_s', 'g_cuts')});
        }}'''),
                    ])
    U.impl('impl CertAuth', [
        # a repository change is carried out as a key roll in EVERY class: it is refused while ANY class cannot start one (and for the
        # repository already in use), every class is asked to roll into the NEW repository, and RepoUpdated is recorded last
        U.fn(CA, 'CertAuth', 'process_update_repo', requires=[('km', km)], values_loops=(0,), attrs=['#[verifier::loop_isolation(false)]'],
             ensures=[
                 ('refused_for_the_repository_already_in_use', 'self.repository is Some && self.repository->Some_0 == contact ==> r is Err'),
                 ('refused_while_any_class_cannot_start_a_roll', '''r is Ok && self.repository is Some ==>
                        forall |n: ResourceClassName| #[trigger] self.resources@.contains_key(n) ==> roll_possible(self.resources@[n])'''),
                 ('repository_change_recorded_last', 'r is Ok ==> r->Ok_0@.len() >= 1 && r->Ok_0@.last() == (CertAuthEvent::RepoUpdated { contact })'),
             ],
             loops={0: {'iter': 'vx_it', 'invariant': [
                 ('km', km), ('pairs', pairs),
                 ('a_class_that_cannot_roll_is_still_to_come', '''forall |n: ResourceClassName| #[trigger] self.resources@.contains_key(n) && !roll_possible(self.resources@[n])
                        ==> exists |j: int| vx_it.index@ <= j < vx_it.seq().len() && *(#[trigger] vx_it.seq()[j]).0 == n'''),
             ]}},
             ghost=[(('loop_start', 0), 'let ghost g_i = vx_it.index@ as int; proof { assert(*rc == *vx_it.seq()[g_i].1); }'),
                    (('loop_end', 0), '''proof {
                assert forall |n: ResourceClassName| #[trigger] self.resources@.contains_key(n) && !roll_possible(self.resources@[n])
                        implies exists |j: int| g_i + 1 <= j < vx_it.seq().len() && *(#[trigger] vx_it.seq()[j]).0 == n by {
                    let j = choose |j: int| g_i <= j < vx_it.seq().len() && *(#[trigger] vx_it.seq()[j]).0 == n;
                    if j == g_i { assert(self.resources@[n] == *vx_it.seq()[g_i].1); }
                }
            }''')]),
        wrapper('process_keyroll_initiate', lambda rc, b: f'init_block({rc}, repo_of(*self)->Some_0.repo_info, duration, {b})',
                lambda e, s_, c: f'init_ok(*self, duration, {e}, {s_}, {c})'),
        wrapper('process_keyroll_activate', lambda rc, b: f'act_block({rc}, staging_time, config.issuance_timing, {b})',
                lambda e, s_, c: f'act_ok(*self, staging_time, config.issuance_timing, {e}, {s_}, {c})'),
    ])
    return U
