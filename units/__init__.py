"""Registry: which engine-V units and engine-K harness groups decide which property."""
REGISTRY = {
    'C03': {
        'v': ['c03_keyobjectset', 'c03_child_revoke', 'c03_child_remove', 'c03_ta', 'c04_objects', 'c01_roamode', 'c14_objectset'],
        'k': [],
        'level_text': 'Per-operation contracts on the key object set: every insert/remove records the superseded object\'s revocation and never drops one (unbounded, all inputs, loop invariants); a manifest/CRL re-issue keeps every unexpired revocation and the CRL is built from exactly that list (unit c14_objectset); removing or suspending a child puts every certificate issued to one of its keys, in every class, on the removed / suspended list of that class (unit c03_child_remove); the trust anchor revokes the certificate it replaces or revokes (unit c03_ta). "Gone from the repository after the next synchronisation" needs histories and is not decided.',
        'level_note': 'Opaque external types (rpki-rs, HashMap key model), Revocation identity = (serial, expires); callers above the contracted kernels are unverified (DESIGN A8).',
        'design_ref': 'DESIGN.md section 10.4 (as built) and section 5 / C03',
        'not_covered': [],
    },
    'C04': {
        'v': ['c04_keystate', 'c04_objects', 'c04_apply', 'c04_listener'],
        'k': [],
        'level_text': 'State-machine contracts on the real key-roll code: each apply_* requires exactly its non-panicking phase and ensures the target phase and which key moves where; each emit function produces a key event only in the phase where it is enabled (so the returned sequence can be applied without reaching a panic arm). Inductive per command; liveness and cross-command interleavings beyond per-command preservation are not decided.',
        'level_note': 'CertAuth::apply dispatch from a key event to apply_* is verified on the extracted match (unit c04_apply, non-key arms dropped, R6) against the same ev_enabled definition that the emit side is verified against; the apply_* contracts proved in c04_keystate are repeated there as assumptions; signer, renewals and child-certificate re-issue are opaque externals; time is an input.',
        'design_ref': 'DESIGN.md section 10.4 (as built) and section 5 / C04',
        'not_covered': ['the with_ca_objects / for-loop glue of the pre-save listener and its final re_issue call (one iteration of the loop is verified: matching CaObjects operation per event, re-issue forced by every publication change)', 'liveness: the roll always completes'],
    },
}
REGISTRY['C01'] = {
    'v': ['c01_roamode', 'c01_aggregate', 'c01_simple', 'c01_aspa', 'c01_bgpsec', 'c02_rcvd', 'c04_listener'],
    'k': [],
    'level_text': 'Object-derivation kernels only: the ROA publication-mode switch is the 4-way table of the statement (an empty relevant set never changes strategy, so aggregated ROAs are still withdrawn by the aggregate path). When a certificate with other resources is received, the ROA / ASPA / BGPsec update events of the same event set are derived from the configuration handed in under the NEW certificate (unit c02_rcvd). ASPA objects: every object whose definition is gone or whose customer AS is no longer held is withdrawn, and objects are only issued for held customer ASes (unit c01_aspa). Aggregated ROAs carry exactly the configured authorisations (unit c01_aggregate); outside aggregation mode every configured authorisation that has no ROA gets one and every ROA whose authorisation is gone is withdrawn, a mode switch withdraws every object of the other kind, and create_updates filters the configuration by the CURRENT certificate and dispatches on the mode (unit c01_simple). End-to-end relying-party validity, signatures and synchronisation with the publication server are not decided.',
    'level_note': 'is_currently_aggregating (keys().any(closure)) assumed; everything outside the listed kernels unverified.',
    'design_ref': 'DESIGN.md section 10.4 (as built) and section 5 / C01',
    'not_covered': ['end-to-end RP validation, signatures, sync with the publication server, histories', 'Routes::filter and Routes::to_aggregates (iterator chains; assumed), the issuing loop of AspaObjects::create_updates beyond its filter, the loops of BgpSecCertificates::create_updates / create_renewal around their (verified) selection predicates'],
}
REGISTRY['C05'] = {
    'v': ['c05_routes', 'c05_child', 'c05_aspa', 'c05_bgpsec'],
    'k': [],
    'k_thorough': ['k_aspa_def', 'k_roa_updates'],
    'level_text': 'BGPsec router-key definition deltas (whole of BgpSecDefinitions::process_updates): accepted only if every removed key is defined at that point, every added CSR is validly signed and its AS is held; applied entirely (returned definitions == replay of the returned events), every added definition present afterwards. Routes::process_updates on the real text: refused exactly when some entry is invalid at its turn (unknown removal; invalid max length, prefix not held, already present with the same comment) -- both directions, for deltas of any length including duplicates inside one delta; an accepted delta returns the specified state and its events replay to it; a refused delta returns only the error. max_length_valid equals the statement definition. AspaDefinitions::process_updates: accepted only if every entry is well-formed (non-empty, no duplicates, customer not a provider) and its customer AS is held and every removal names a customer present at its turn; every refusal has such a reason; an accepted delta is applied entirely (replaying the returned events gives the returned definitions, as provider sets). Child add/update: see c05_child.',
    'level_note': 'ResourceSet::contains_roa_address / contains_asn uninterpreted (held); ASPA: the two provider-diff iterator chains are replaced by an assumed set-difference function (R14) and AspaDefinition::{apply_update, customer_used_as_provider, contains_duplicate_providers} carry assumed set-level contracts; String equality axiom; HashMap key model for RoaPayloadJsonMapKey; derived Clone assumed value-preserving (R11); CertAuth command layer above is unverified (A8).',
    'design_ref': 'DESIGN.md section 10.4 (as built) and section 5 / C05',
    'not_covered': ['provider order inside an ASPA definition (contracts are over provider sets)', 'repository untouched on refusal (follows from no event, A8)'],
}
REGISTRY['C09'] = {
    'v': ['c09_taskqueue', 'c09_scheduler', 'c09_queue', 'c09_events', 'c09_taskname'],
    'k': [],
    'level_text': 'Against a ghost model of the (trusted) queue: a restart leaves no task in the running state and re-queues every task that was running, for any number of running tasks (unbounded loop invariant). The publish path schedules the RRDP update (unit c12_rfc8181). A committed CA event puts its follow-up on the queue in the same pre-save step (schedule_for_ca_event): repository sync after every object or key change, parent sync after a certificate request and after a key activation, the revocation task after a class is removed or an unexpected key is found. Queue transaction bodies (closure bodies lifted verbatim, R15) against a ghost model of the key-value transaction: schedule_task leaves the task pending exactly once at the time its mode prescribes, soonest modes keep the earlier of the two times, finish modes end the running entry, IfMissing never replaces, other tasks untouched; the claim fold step hands out the earliest due key; finish refuses only what is not running. Eventual execution, crash points and the scheduler loop are not decided.',
    'level_note': 'For the TaskQueue facade commons::queue::Queue is specified by assumed contracts (running/pending sets); in unit c09_queue the key-value Transaction (delete/store/has), task_storage_key/split_storage_key (format!/parse) and get_storage_key_and_time (find_map) carry assumed contracts and std::cmp::min::<u128> is assumed numeric; R7 (&self -> &mut self) lets the ghost model change.',
    'design_ref': 'DESIGN.md section 10.4 (as built) and section 5 / C09',
    'not_covered': ['claim_scheduled_pending_task outside its fold step (list_keys/into_iter/fold glue, move to running)', 'reschedule_long_running_tasks (assumed: moves a subset of the running entries to pending)', 'an ident is determined by the parts it was built from (assumed in c09_taskname)', 'crash while a task is running (file system)', 'eventual execution (liveness)'],
}
REGISTRY['C10'] = {
    'v': ['c10_current', 'c10_staged', 'c10_content', 'c11_snapshot', 'c12_rfc8181', 'c10_objkey'],
    'k': [],
    'level_text': 'Publication-server data-structure contracts on the real text: delta accepted exactly when every URI is in the jail, publishes are new and updates/withdraws match the stated hash (iff, any delta length); applying a delta equals the map-level spec (whole-map equality, so untouched objects are proved untouched); staged-on-staged merge follows the 12-case per-URI table; list content = current + staged. Cross-publisher isolation through HTTP and interleaving with RRDP writes are not decided.',
    'level_note': 'uri::Rsync / Base64 / Hash opaque (is_parent_of, to_hash uninterpreted); HashMap key model; HashMap::get_mut assumed spec; RepositoryManager/HTTP layers unverified (A8).',
    'design_ref': 'DESIGN.md section 10.4 (as built) and section 5 / C10',
    'not_covered': ['interleaving with RRDP file writes, session reset histories', 'publisher_rsync_base string construction'],
}
REGISTRY['C11'] = {
    'v': ['c11_rrdp', 'c11_update', 'c11_snapshot', 'c10_staged'],
    'k': [],
    'level_text': 'In-memory RRDP state only: the whole of apply_rrdp_updated (by-value HashMap loop under R19) and apply_session_reset against the representation invariant that the retained deltas form a contiguous run ending at the current serial: an update raises the serial by exactly one, puts a delta with the new serial and the time of the update in front of (a prefix of) the older deltas, keeps the session, empties the staging area; a reset restarts at serial 1 without deltas; the next delta is derived from the staged changes by the merge table of unit c10_staged (publish/update/withdraw on top of earlier staged changes, withdraw carrying the hash of the object visible in RRDP); a session reset restarts at serial 1 without deltas and takes session/snapshot from the reset; truncation by size keeps the longest prefix of the delta list that fits the snapshot size; truncation by age/number keeps a prefix and respects the configured maximum whenever the minimum-retention rules do not apply (the unconditional maximum is a recorded finding, F5). Files on disk, hashes and the rsync directory switch are not decided.',
    'level_note': 'DeltaElements/SnapshotData sizes uninterpreted; the clock is an input (is_younger / is_older uninterpreted); VecDeque length < usize::MAX and no usize overflow of the summed delta sizes are preconditions.',
    'design_ref': 'DESIGN.md section 10.4 (as built) and section 5 / C11',
    'not_covered': ['that the snapshot after an update is the fold of the per-publisher steps over ALL publishers (the per-publisher step is verified: the staged changes of a publisher go to the snapshot and, unchanged, to the next delta; the loop is verified for serial / delta chain / staging area only)', 'files on disk, hashes, notification switch, rsync tmp/current/old switch', 'apply_rrdp_staged frame (HashMap::entry)'],
}
REGISTRY['C12'] = {
    'v': ['c12_rfc6492', 'c12_rfc8181', 'c03_child_revoke', 'c12_publisher', 'c02_issue'],
    'k': [],
    'level_text': 'Control-flow contracts: a child key revocation acts only on a key that the SENDING child has in use (not on a sibling\'s key), under that child\'s class-name mapping. Validate-before-process capability contracts for the RFC 6492 / RFC 8181 endpoints are listed per unit. The CMS/crypto itself is assumed sound.',
    'level_note': 'ProvisioningCms/PublicationCms::validate assumed sound (rpki-rs + OpenSSL); decoder robustness against bit flips not decided.',
    'design_ref': 'DESIGN.md section 10.4 (as built) and section 5 / C12',
    'not_covered': ['bit-flip robustness of the CMS decoders', 'no change of state on refusal beyond the processing function not being called'],
}
REGISTRY['C13'] = {
    'v': ['c13_roles', 'c13_h_api', 'c13_h_cas', 'c13_h_pubd', 'c13_h_ta', 'c13_h_bulk', 'c13_h_testbed', 'c13_h_root', 'c13_h_stats'],
    'k': ['k_permissions'],
    'level_text': 'Evaluation core: Role::is_allowed is exactly "per-CA grant beats blanket grant, non-CA requests use the general grant"; AuthInfo::check_permission grants exactly when the authenticated role allows, and passes an authentication error on; Request::proceed_permitted turns a request into an AuthedRequest exactly after that check (same server, request and identity), proceed_unchecked hands the identity on unchanged; PermissionSet is a faithful set over all 22 permissions and the built-in sets contain what their names promise (Kani, full domain). Route table: every handler reaches a state-touching facade method only after proceed_permitted with the permission the operation requires for the addressed CA (capability preconditions on the facade; oracle table written from the statement).',
    'level_note': 'PermissionSet::has uninterpreted in the V units (its bit algebra is decided by the K group k_permissions); facade = KrillManager methods as assumed externals; listing handlers filtering inside closures not covered.',
    'technique': 'Verus contracts on extracted real text (handlers async-erased, R10) + Kani full-domain harnesses for the permission-set algebra',
    'design_ref': 'DESIGN.md section 10.4 (as built) and section 5 / C13',
    'not_covered': ['cas.rs::index_get outside its filter closure (ca_handles / collect glue; the closure that decides which CAs are listed is verified)', 'root.rs::ui / assets (static files from a build artefact)', 'metrics.rs and auth.rs (login) handlers', 'HTTP status mapping; effects of refused calls beyond the facade not being called'],
}
REGISTRY['C14'] = {
    'v': ['c14_objectset', 'c04_objects', 'c14_renewal', 'c14_aspa_renewal', 'c14_timing', 'c01_bgpsec'],
    'k': [],
    'level_text': 'Renewal: Roas::create_renewal re-issues every simple and aggregated ROA that expires before the renewal threshold (all when forced) with the same authorisations, AspaObjects::create_renewal every due ASPA object for its own definition, and neither touches anything else. Per-key contracts on the real text: a re-issue raises the revision number by exactly one, builds CRL and manifest from the same revision (numbers and validity windows agree), leaves the payload set unchanged, builds the CRL from the key\'s own (pruned) revocations and the manifest from CRL + exactly the published objects; a class is due iff any of its key sets (current, staging, old) is due and a re-issue covers all of them. Timing derivation: every re-issue threshold and validity period of IssuanceTimingConfig is computed from its own configured number of weeks (child certificates, ROAs, ASPAs, BGPsec), the manifest/CRL margin is the configured number of hours. Whether the maintenance tasks run and whether windows contain the present (wall clock) is not decided.',
    'level_note': 'PublishedCrl::build, ManifestBuilder::build_new_mft / with_objects, Revocations::remove_expired are assumed externals (rpki-rs builders, signer); time is an input.',
    'design_ref': 'DESIGN.md section 10.4 (as built) and section 5 / C14',
    'not_covered': ['CaObjects::re_issue outside one iteration of its loop (the values_mut() iteration itself; the per-class decision and the sticky `required` flag are verified on the lifted loop body)', 'the loop of BgpSecCertificates::create_renewal around its (verified) due-predicate', 'validity windows contain the present'],
}
REGISTRY['C15'] = {
    'v': ['c15_taproxy', 'c15_signer', 'c15_proxy_apply', 'c15_ta_republish', 'c03_ta'],
    'k': [],
    'level_text': 'Proxy side on the real text: a signer response is accepted exactly when a request is open, the nonce equals it, a signer is associated and the response is genuine under that signer\'s ID key (iff); one open request at a time; validate of signed request/response = CMS valid AND clear text equals signed content (iff); apply sets/replaces the associated signer as a whole and removes a delivered child response. TA objects: republish gives manifest and CRL one number (the next one, or the operator override), the same window, the CRL from the TA revocation list and a manifest of the CRL plus exactly the issued certificates, and refuses a certificate of another key; add_issued / revoke_issued revoke what they replace. Signer side, the whole of process_signer_request verbatim: only a validated request is processed; every child request in it is answered under that child\'s handle with exactly one response per requested key, of the requested kind (a later request of the same child replaces an earlier one), and with nothing that belongs to another child; the exchange records the request and carries its nonce. Delivery: the SignerResponseReceived apply arm files every response under the child it is addressed to and under no other, closes the request it answers, keeps everything else, keeps the signer identity and closes the open signer request (both by-value HashMap loops under R19, nested loop invariants, unbounded).',
    'level_note': 'CMS validation, JSON decoding and PartialEq of payload types are assumed externals; mft_number_override assumed increasing (A7).',
    'design_ref': 'DESIGN.md section 10.4 (as built) and section 5 / C15',
    'not_covered': ['content of an issued certificate / issuance response (make_issued_cert, IssuanceResponse::new are assumed externals)', 'manifest/CRL numbers only increase across re-initialisation histories and operator overrides (republish takes the override as given)'],
}
REGISTRY['C17'] = {
    'v': ['c17_validate', 'c17_categorise'],
    'k': ['k_bgp_prefix', 'k_bgp_analyser'],
    'level_text': 'Validation core: validate agrees with RFC 6811 for covering lists of any length and both families (Verus, unbounded, generic over RoutePrefix); the classification predicates inside categorise_roa (closure bodies lifted verbatim, R15): a ROA is called redundant exactly when the other ROA validates everything it validates, authorizes exactly the covered origins it matches, disallows exactly the invalid ones (Verus, unbounded; the prefix algebra it assumes is proved by Kani); the RoutePrefix implementations equal their bit-level meaning and are reflexive/transitive/length-monotone with sub-prefixes of every length, over the full domain (Kani, complete). validate_set end to end is a bounded stand-in (2 ROAs x 1 origin over a 4-prefix universe).',
    'level_note': 'Harness inputs satisfy the prefix type invariant; suggestion post-processing over large sets not decided.',
    'technique': 'Verus contracts on extracted real text + Kani full-domain harnesses on the real crate',
    'design_ref': 'DESIGN.md section 10.4 (as built) and section 5 / C17',
    'not_covered': ['the iterator chains of categorise_roa around the verified predicates, the too-permissive heuristic, AS0 handling', 'prefix-tree lookup (RisWhois) vs brute force', 'suggestion post-processing over large sets'],
}
REGISTRY['C16'] = {
    'v': ['c16_parsers', 'c10_staged'],
    'k': ['k_api_roa', 'k_history'],
    'level_text': 'Absence of arithmetic overflow, bad shifts, slice/index out of bounds and unwrap-None in the client-reachable pure helpers (api::roa prefix/payload algebra; more groups below), decided by CBMC over the full input domain of loop-free code (complete), string parsers bounded and labelled so. On the extracted text, for inputs of any length (Verus): the IPv4 / IPv6 prefix parsers never underflow and only produce prefixes that satisfy the type invariant the Kani harnesses assume (length within the width of the family, host bits zero), and BgpSecAsnKey::from_str never indexes out of bounds or unwraps None for any number of parts (std splitting / number parsing are unconstrained externals). The merge of a publication delta into the staging area (StagedElements::merge_new_elements, all arms, unit c10_staged) has no reachable panic; the paging of the command history never panics for any rows / offset from the request path (Kani, bounded to an empty record list; finding F11, fixed). The CMS/XML/JSON decoders that take the raw bytes are not decided.',
    'level_note': 'Harness inputs are built by constructors encoding the type invariants; overflow judged as in a debug build; rpki-rs/bcder/serde_json/hyper decoders are outside.',
    'technique': 'Kani function contracts and full-domain loop-free harnesses (CBMC) on the real crate + Verus safety obligations on the extracted parser text',
    'design_ref': 'DESIGN.md section 10.4 (as built) and section 5 / C16',
    'not_covered': ['rpki-rs CMS and XML decoders, serde_json, hyper (the larger half of the statement)', 'the iterator-style parsers (RoaPayload / RoaConfiguration / AspaDefinition / KrillVersion FromStr: str::Split iterators; CBMC gave no verdict in 15 min at 11 GB for 3 symbolic bytes, design-probes/k_api_bgpsec_NO_VERDICT.rs; Verus has no model of str::Split)'],
}

REGISTRY['C20'] = {
    'v': ['c20_auth', 'c20_chain', 'c20_unix', 'c20_login'],
    'k': [],
    'k_thorough': ['k_admin_token'],
    'level_text': 'Credential kernels on the real text: the provider chain (Authorizer::authenticate_request) yields an authenticated identity only if the legacy token provider, else the primary provider, else the Unix-socket provider accepted the request, and otherwise the anonymous actor or an authentication error, never a role; the Unix-socket provider accepts exactly a peer whose user name is in the configured map and then acts as that name under the mapped role (unmapped peer: error, no peer: nobody); the admin token authenticates exactly when the bearer token is byte-equal to the configured one (wrong token is an error, no token is nobody) and then acts as the configured identity; decrypt rejects short payloads without slicing out of bounds, passes nonce/tag/ciphertext to AEAD-open in the right positions and returns only what it returned (rejected iff the tag fails). Login (config-file provider, the whole function verbatim): it succeeds only for a user name that is, as presented, a configured user, whose normalised password hashes (double scrypt, weak salt of the normalised name, that user\'s salt) to that user\'s stored hash, whose role exists and permits login, and the session issued carries that user\'s role (finding F9, fixed). scrypt, hex, Unicode normalisation are uninterpreted functions; the decoding of a presented session token (base64, session cache) is not decided.',
    'level_note': 'ChaCha20-Poly1305 open, bearer-token extraction, Token equality (derived PartialEq over String) are assumed externals.',
    'design_ref': 'DESIGN.md section 10.4 (as built) and section 5 / C20',
    'not_covered': ['config_file provider authenticate / LoginSessionCache::decode (function-pointer field, base64 engine, serde; Verus has no function pointer types)', 'session cache hits (tokio RwLock)', 'extraction of Basic credentials from the request (get_auth)', 'OpenID Connect provider'],
}

NOT_APPLICABLE = [
    {'property_id': 'C06', 'reason': 'whole-history equality between three evaluation paths of a generic AggregateStore closure (replay = snapshot+tail = cache) plus serde round trips; no per-call contract expresses it (DESIGN.md section 6)'},
    {'property_id': 'C07', 'reason': 'quantifies over thread schedules and lock discipline; Kani has no threads, Verus would need permission types the code does not use (DESIGN.md section 6)'},
    {'property_id': 'C08', 'reason': 'quantifies over crash points in sequences of std::fs / key-value mutations; there is no ghost state for the file system to attach contracts to (DESIGN.md section 6)'},
    {'property_id': 'C18', 'reason': 'deadlock freedom / linearizability over OS threads, file locks and tokio; outside both verifiers (DESIGN.md section 6)'},
    {'property_id': 'C19', 'reason': 'status store is a cache written through storage under an RwLock from network paths; the only pure kernel is Vec::retain over URI values, nothing proof-level can be offered (DESIGN.md section 6)'},
]
REGISTRY['C02'] = {
    'v': ['c02_childcerts', 'c02_issue', 'c02_rcvd', 'c02_unsuspend', 'c02_entitle', 'c02_wants', 'c04_keystate'],
    'k': [],
    'level_text': 'Per-operation contracts on the issuing side only: (1) issue_cert/make_issued_cert issue limit(issuer-certificate ∩ entitlement), refuse anything outside the issuing certificate, and the signed certificate carries exactly the recorded set; (2) the per-class certificate store keeps one record per child key (issued XOR suspended) under every mutator, whatever the suspension history; (3) shrink_overclaiming handles every over-claiming certificate (issued and suspended) by re-issuing exactly limit(new ∩ old) inside the new certificate, or revoking when nothing is left, and touches nothing else; activate_key re-issues every certificate in its own category; (4) process_rcvd_cert_current puts that update in the same event set as CertificateReceived (unbounded, all stores, loop invariants); (5) append_child_certify may only be called with resources inside the current entitlement of that child; process_child_certify and process_child_unsuspend (re-issue after a suspension) discharge that precondition; (6) the entitlement answer for a class (entitlement_class) carries exactly current-certificate ∩ child entitlement under the class name the child knows, and is absent when that is empty, the class has no current key or the child is unknown; (7) idempotence kernel: a received certificate clears the open request (set_incoming_cert / apply_received_cert, unit c04_keystate) and wants_update asks for nothing when the certificate already carries the entitled resources and not-after time, and always asks when the resources differ. Convergence and idempotence of parent-child synchronisation over histories are not decided.',
    'level_note': 'ResourceSet algebra (contains/intersection/is_empty/difference), RequestResourceLimit::apply_to, make_tbs_cert, CertInfo::create and the signer are assumed contracts on externals; HashMap key model assumed for KeyIdentifier; Config is a one-field stub in c02_rcvd; c02_wants: chrono timestamps assumed within +-2^60, IEEE division assumed total, Rsync::ends_with uninterpreted.',
    'design_ref': 'DESIGN.md section 10.4 (as built) and section 5 / C02',
    'not_covered': ['the 10% / one-week re-request thresholds of wants_update (f64 quotient left uninterpreted)', 'KeyState::append_entitlement_events (iterator adapter loop), in particular which key id is requested in RollOld', 'the not-after time offered in the entitlement answer (clock comparisons)', 'sync driver (manager.rs), taproxy/tasigner issuance', 'convergence in a bounded number of syncs; idempotence of a further sync (history properties)', 'publication of the ChildCertificatesUpdated event (covered per operation under C03/C04 units)'],
}
