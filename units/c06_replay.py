"""C06 / C07 (the replay step): Aggregate::apply_command -- applying a stored command raises the version by exactly one and applies the
events of the command in the order in which they are stored, nothing else (a command stored with an error, or an init command, only
raises the version).  This is the step function of "replay"; unit c07_command verifies the store's load / command path against it."""
from vxlib import Unit
from units import prelude

AGG = 'src/commons/eventsourcing/agg.rs'

OUT = '''
pub trait Storable: Clone {}
pub trait InitCommand: Clone { type StorableDetails; }
pub trait Command: Clone {
    type StorableDetails: WithStorableDetails;
    fn handle(&self) -> &MyHandle;
    fn version(&self) -> Option<u64>;
    fn actor(&self) -> &str;
    fn store(&self) -> Self::StorableDetails;
}
pub trait WithStorableDetails: Clone {}
pub trait InitEvent: Clone {}
pub trait Event: Clone {}
'''

TRAIT_SPEC = '''
    /// ghost view of the aggregate operations (what `version`, `increment_version` and `apply` of an implementation do)
    spec fn ver(&self) -> u64;
    spec fn bumped(self) -> Self;
    spec fn applied(self, ev: Self::Event) -> Self;
'''

SPEC = r'''
#[verifier::external_trait_specification] pub trait ExStorable: Clone { type ExternalTraitSpecificationFor: Storable; }
#[verifier::external_trait_specification] pub trait ExInitCommand: Clone { type ExternalTraitSpecificationFor: InitCommand; type StorableDetails; }
#[verifier::external_trait_specification] pub trait ExWithStorableDetails: Clone { type ExternalTraitSpecificationFor: WithStorableDetails; }
#[verifier::external_trait_specification] pub trait ExInitEvent: Clone { type ExternalTraitSpecificationFor: InitEvent; }
#[verifier::external_trait_specification] pub trait ExEvent: Clone { type ExternalTraitSpecificationFor: Event; }
#[verifier::external_trait_specification] pub trait ExCommand: Clone {
    type ExternalTraitSpecificationFor: Command;
    type StorableDetails: WithStorableDetails;
    fn handle(&self) -> (r: &MyHandle) ensures *r == cmd_handle(*self);
    fn version(&self) -> Option<u64>;
    fn actor(&self) -> (r: &str) ensures r@ == cmd_actor(*self);
    fn store(&self) -> (r: Self::StorableDetails) ensures r == cmd_details::<Self, Self::StorableDetails>(*self);
}
/// what a command says about itself (Command::handle / actor / store): named by uninterpreted functions
pub uninterp spec fn cmd_handle<C>(c: C) -> MyHandle;
pub uninterp spec fn cmd_actor<C>(c: C) -> Seq<char>;
pub uninterp spec fn cmd_details<C, D>(c: C) -> D;
'''

LEMMAS = r'''
/// the events of a stored command applied in order
pub open spec fn apply_all<A: Aggregate>(a: A, evs: Seq<A::Event>) -> A decreases evs.len() {
    if evs.len() == 0 { a } else { apply_all(a, evs.drop_last()).applied(evs.last()) }
}
/// what a stored command does to the aggregate: version + 1, then its events (if it has any) in order
pub open spec fn command_applied<A: Aggregate>(a: A, c: StoredCommand<A>) -> A {
    match c.effect { StoredEffect::Success { events } => apply_all(a.bumped(), events@), _ => a.bumped() }
}
'''


def build():
    U = Unit('c06_replay', 'C06', 'Aggregate::apply_command: version + 1, then the stored events in stored order, nothing else')
    prelude.strings(U)
    prelude.time(U)
    U.opaque('MyHandle', 'Clone')
    U.opaque('AggregateStoreError', '')
    U.outside(OUT)
    U.add(SPEC)
    U.enum(AGG, 'StoredEffect', derive=[])
    U.struct(AGG, 'StoredCommand', derive=[])
    U.impl('impl<A: Aggregate> StoredCommand<A>', [
        U.fn(AGG, 'StoredCommand', 'into_events', ensures=[('events_of_a_successful_command', 'r == (match self.effect { StoredEffect::Success { events } => Some(events), _ => None::<Vec<A::Event>> })')]),
    ])
    U.trait(AGG, 'Aggregate', spec=TRAIT_SPEC, methods={
        'version': [('is_ver', 'r == self.ver()')],
        'increment_version': [('is_bumped', '*final(self) == old(self).bumped()')],
        'apply': [('is_applied', '*final(self) == old(self).applied(event)')],
    }, subst=[('std::error::Error + Send + Sync + From<AggregateStoreError>', 'From<AggregateStoreError>', 'R4')],
    drop_bodies=['apply_command', 'pre_save_events', 'post_save_events'])
    U.add(LEMMAS)
    # the provided body of Aggregate::apply_command (no implementor in krill overrides it), lifted out of the trait (R24)
    U.free(U.fn(AGG, None, 'apply_command', trait='Aggregate', lift_default=('A', 'A: Aggregate'),
                ensures=[('version_plus_one_then_the_stored_events_in_order', '*final(vx_self) == command_applied(*old(vx_self), command)')],
                loops={0: {'iter': 'vx_it', 'invariant': [
                    ('seq', 'vx_it.seq() == events@'),
                    ('applied_so_far', '*vx_self == apply_all(old(vx_self).bumped(), events@.take(vx_it.index@ as int))')]}},
                ghost=[(('loop_start', 0), 'proof { assert(events@.take(vx_it.index@ as int + 1).drop_last() == events@.take(vx_it.index@ as int)); }'),
                       (('body_end',), 'proof { if command.effect is Success { assert(command.effect->Success_events@.take(command.effect->Success_events@.len() as int) == command.effect->Success_events@); } }')]))
    return U
