"""C10: CurrentObjects::verify_delta_applies (iff), contains, apply_delta (whole-map equality with the spec)."""
from vxlib import Unit
from units import prelude

RR = 'src/server/pubd/rrdp.rs'

SPEC = r'''
pub uninterp spec fn key_of(u: uri::Rsync) -> CurrentObjectUri;
pub uninterp spec fn hash_of(b: Base64) -> Hash;
pub uninterp spec fn parent_of(j: uri::Rsync, u: uri::Rsync) -> bool;
pub assume_specification [uri::Rsync::is_parent_of] (j: &uri::Rsync, u: &uri::Rsync) -> (r: bool) ensures r == parent_of(*j, *u);
pub assume_specification [Base64::to_hash] (b: &Base64) -> (r: Hash) ensures r == hash_of(*b);
impl vstd::std_specs::convert::FromSpecImpl<&uri::Rsync> for CurrentObjectUri {
    open spec fn obeys_from_spec() -> bool { true }
    open spec fn from_spec(v: &uri::Rsync) -> CurrentObjectUri { key_of(*v) }
}
impl vstd::std_specs::convert::FromSpecImpl<uri::Rsync> for CurrentObjectUri {
    open spec fn obeys_from_spec() -> bool { true }
    open spec fn from_spec(v: uri::Rsync) -> CurrentObjectUri { key_of(v) }
}
impl From<&uri::Rsync> for CurrentObjectUri { #[verifier::external_body] fn from(value: &uri::Rsync) -> (r: Self) ensures r == key_of(*value) { unimplemented!() } }
pub assume_specification [PublicationDeltaError::outside] (j: &uri::Rsync, u: &uri::Rsync) -> (r: PublicationDeltaError);
pub assume_specification [PublicationDeltaError::present] (u: &uri::Rsync) -> (r: PublicationDeltaError);
pub assume_specification [PublicationDeltaError::no_match] (u: &uri::Rsync) -> (r: PublicationDeltaError);

pub type OView = Map<CurrentObjectUri, Base64>;
/// "currently holds content with the stated hash"
pub open spec fn has_hash(m: OView, u: uri::Rsync, h: Hash) -> bool { m.contains_key(key_of(u)) && hash_of(m[key_of(u)]) == h }
/// the statement: every URI under the publisher's base, every published URI new, every updated/withdrawn URI holds the stated hash
pub open spec fn delta_ok(m: OView, d: DeltaElements, jail: uri::Rsync) -> bool {
    &&& forall |i: int| 0 <= i < d.publishes@.len() ==> parent_of(jail, #[trigger] d.publishes@[i].uri) && !m.contains_key(key_of(d.publishes@[i].uri))
    &&& forall |i: int| 0 <= i < d.updates@.len() ==> parent_of(jail, #[trigger] d.updates@[i].uri) && has_hash(m, d.updates@[i].uri, d.updates@[i].hash)
    &&& forall |i: int| 0 <= i < d.withdraws@.len() ==> parent_of(jail, #[trigger] d.withdraws@[i].uri) && has_hash(m, d.withdraws@[i].uri, d.withdraws@[i].hash)
}
pub open spec fn ins_p(m: OView, ps: Seq<PublishElement>, n: int) -> OView decreases n {
    if n <= 0 { m } else { ins_p(m, ps, n - 1).insert(key_of(ps[n - 1].uri), ps[n - 1].base64) }
}
pub open spec fn ins_u(m: OView, us: Seq<UpdateElement>, n: int) -> OView decreases n {
    if n <= 0 { m } else { ins_u(m, us, n - 1).insert(key_of(us[n - 1].uri), us[n - 1].base64) }
}
pub open spec fn rm_w(m: OView, ws: Seq<WithdrawElement>, n: int) -> OView decreases n {
    if n <= 0 { m } else { rm_w(m, ws, n - 1).remove(key_of(ws[n - 1].uri)) }
}
/// map-level meaning of applying a delta: publishes and updates set the content, withdraws remove; nothing else changes
pub open spec fn apply_delta_spec(m: OView, d: DeltaElements) -> OView {
    rm_w(ins_u(ins_p(m, d.publishes@, d.publishes@.len() as int), d.updates@, d.updates@.len() as int), d.withdraws@, d.withdraws@.len() as int)
}
'''


def prelude_c10(U):
    prelude.hashmap(U)
    prelude.strings(U)
    U.opaque('Rsync', 'Clone, PartialEq, Eq, Hash', module='uri')
    U.opaque('Base64', 'Clone, PartialEq, Eq', clone_spec=True)
    U.opaque('Hash', 'Clone, Copy, PartialEq, Eq', eq=True)
    U.opaque('CurrentObjectUri', 'Clone, PartialEq, Eq, Hash')
    U.opaque('PublicationDeltaError', '')
    U.outside('''
impl uri::Rsync { pub fn is_parent_of(&self, _o: &uri::Rsync) -> bool { unimplemented!() } }
impl Base64 { pub fn to_hash(&self) -> Hash { unimplemented!() } }
impl PublicationDeltaError {
    pub fn outside(_j: &uri::Rsync, _u: &uri::Rsync) -> Self { unimplemented!() }
    pub fn present(_u: &uri::Rsync) -> Self { unimplemented!() }
    pub fn no_match(_u: &uri::Rsync) -> Self { unimplemented!() }
}
''')


def build():
    U = Unit('c10_current', 'C10', 'delta accepted iff jail + publish-new + update/withdraw hash match; apply_delta == map-level spec')
    prelude_c10(U)
    for st in ['PublishElement', 'UpdateElement', 'WithdrawElement', 'DeltaElements', 'CurrentObjects']:
        U.struct(RR, st, derive=[])
    U.add(SPEC)
    km = 'obeys_key_model::<CurrentObjectUri>()'
    U.impl('impl From<uri::Rsync> for CurrentObjectUri', [
        U.fn(RR, 'CurrentObjectUri', 'from', trait_full='From<uri::Rsync>', ensures=[('same_key', 'r == key_of(value)')]),
    ])
    U.impl('impl DeltaElements', [
        U.fn(RR, 'DeltaElements', 'publishes', ensures=[('is_field', 'r@ == self.publishes@')]),
        U.fn(RR, 'DeltaElements', 'updates', ensures=[('is_field', 'r@ == self.updates@')]),
        U.fn(RR, 'DeltaElements', 'withdraws', ensures=[('is_field', 'r@ == self.withdraws@')]),
        U.fn(RR, 'DeltaElements', 'unpack', ensures=[('parts', 'r.0 == self.publishes, r.1 == self.updates, r.2 == self.withdraws')]),
    ])
    pub_ok = 'forall |i: int| 0 <= i < {n} ==> parent_of(*jail, #[trigger] delta.publishes@[i].uri) && !self.0@.contains_key(key_of(delta.publishes@[i].uri))'
    upd_ok = 'forall |i: int| 0 <= i < {n} ==> parent_of(*jail, #[trigger] delta.updates@[i].uri) && has_hash(self.0@, delta.updates@[i].uri, delta.updates@[i].hash)'
    wdr_ok = 'forall |i: int| 0 <= i < {n} ==> parent_of(*jail, #[trigger] delta.withdraws@[i].uri) && has_hash(self.0@, delta.withdraws@[i].uri, delta.withdraws@[i].hash)'
    U.impl('impl CurrentObjects', [
        U.fn(RR, 'CurrentObjects', 'contains', requires=[('key_model', km)], ensures=[('is_has_hash', 'r == has_hash(self.0@, *uri, hash)')]),
        U.fn(RR, 'CurrentObjects', 'verify_delta_applies', requires=[('key_model', km)],
             ensures=[('accepted_exactly_when', 'r is Ok <==> delta_ok(self.0@, *delta, *jail)')],
             loops={
                 0: {'iter': 'vx_it', 'invariant': [('km', km), ('publishes_ok', pub_ok.format(n='vx_it.index@'))]},
                 1: {'iter': 'vx_it', 'invariant': [('km', km), ('publishes_ok', pub_ok.format(n='delta.publishes@.len()')),
                                                     ('updates_ok', upd_ok.format(n='vx_it.index@'))]},
                 2: {'iter': 'vx_it', 'invariant': [('km', km), ('publishes_ok', pub_ok.format(n='delta.publishes@.len()')),
                                                     ('updates_ok', upd_ok.format(n='delta.updates@.len()')),
                                                     ('withdraws_ok', wdr_ok.format(n='vx_it.index@'))]},
             }),
        U.fn(RR, 'CurrentObjects', 'apply_delta', requires=[('key_model', km)],
             ensures=[('is_map_level_spec', 'final(self).0@ == apply_delta_spec(old(self).0@, delta)')],
             loops={
                 0: {'iter': 'vx_it', 'invariant': [('km', km), ('parts', 'publishes@ == delta.publishes@, updates@ == delta.updates@, withdraws@ == delta.withdraws@'),
                                                     ('view', 'self.0@ == ins_p(old(self).0@, delta.publishes@, vx_it.index@ as int)')]},
                 1: {'iter': 'vx_it', 'invariant': [('km', km), ('parts', 'updates@ == delta.updates@, withdraws@ == delta.withdraws@'),
                                                     ('view', 'self.0@ == ins_u(ins_p(old(self).0@, delta.publishes@, delta.publishes@.len() as int), delta.updates@, vx_it.index@ as int)')]},
                 2: {'iter': 'vx_it', 'invariant': [('km', km), ('parts', 'withdraws@ == delta.withdraws@'),
                                                     ('view', '''self.0@ == rm_w(ins_u(ins_p(old(self).0@, delta.publishes@, delta.publishes@.len() as int), delta.updates@, delta.updates@.len() as int),
                                                            delta.withdraws@, vx_it.index@ as int)''')]},
             },
             ghost=[(('loop_start', 0), 'proof { assert(p == delta.publishes@[vx_it.index@ as int]); reveal_with_fuel(ins_p, 2); }'),
                    (('loop_start', 1), 'proof { assert(u == delta.updates@[vx_it.index@ as int]); reveal_with_fuel(ins_u, 2); }'),
                    (('loop_start', 2), 'proof { assert(w == delta.withdraws@[vx_it.index@ as int]); reveal_with_fuel(rm_w, 2); }')]),
    ])
    return U
