"""C02: CertAuth::entitlement_class -- what a child is told it is entitled to in a class is exactly the intersection of the
current certificate of that class with the child's entitlement, under the class name the child knows, and nothing when that
intersection is empty or the class has no current key."""
from vxlib import Unit
from units import prelude
from units.c05_child import common

CA = 'src/server/ca/certauth.rs'
CH = 'src/server/ca/child.rs'
API = 'src/api/ca.rs'
ERR = 'src/commons/error.rs'

SPEC = r'''
pub uninterp spec fn rs_intersection(a: ResourceSet, b: ResourceSet) -> ResourceSet;
pub assume_specification [ResourceSet::intersection] (a: &ResourceSet, b: &ResourceSet) -> (r: ResourceSet) ensures r == rs_intersection(*a, *b);
pub uninterp spec fn rc_current(rc: ResourceClass) -> Option<CertifiedKey>;
pub uninterp spec fn key_cert(k: CertifiedKey) -> ReceivedCert;
/// the name the child knows a class of the parent by (identity unless mapped)
pub open spec fn child_name(c: ChildDetails, parent_rcn: ResourceClassName) -> ResourceClassName {
    if c.rcn_map@.contains_key(parent_rcn) { c.rcn_map@[parent_rcn] } else { parent_rcn }
}
pub uninterp spec fn rc_issued(rc: ResourceClass, ki: KeyIdentifier) -> Option<IssuedCertificate>;
impl ResourceClass {
    #[verifier::external_body] pub fn current_key(&self) -> (r: Option<&CertifiedKey>)
        ensures match r { Some(k) => rc_current(*self) == Some(*k), None => rc_current(*self) is None } { unimplemented!() }
    #[verifier::external_body] pub fn issued(&self, ki: &KeyIdentifier) -> (r: Option<&IssuedCertificate>)
        ensures match r { Some(c) => rc_issued(*self, *ki) == Some(*c), None => rc_issued(*self, *ki) is None } { unimplemented!() }
}
impl CertifiedKey {
    #[verifier::external_body] pub fn incoming_cert(&self) -> (r: &ReceivedCert) ensures *r == key_cert(*self) { unimplemented!() }
}
// ---- what the entitlement answer carries (ResourceClassEntitlements is an rpki-rs type; its constructor is assumed to file its arguments) ----
pub uninterp spec fn ent_class(e: ResourceClassEntitlements) -> ResourceClassName;
pub uninterp spec fn ent_resources(e: ResourceClassEntitlements) -> ResourceSet;
pub uninterp spec fn ent_not_after(e: ResourceClassEntitlements) -> Time;
pub assume_specification [ResourceClassEntitlements::new] (c: ResourceClassName, r: ResourceSet, t: Time, i: Vec<IssuedCert>, s: SigningCert) -> (e: ResourceClassEntitlements)
    ensures ent_class(e) == c && ent_resources(e) == r && ent_not_after(e) == t;
pub assume_specification [SigningCert::new] (u: uri::Rsync, c: Cert) -> (r: SigningCert);
pub assume_specification [Validity::not_after] (v: Validity) -> (r: Time);
pub assume_specification [IssuanceTimingConfig::new_child_cert_not_after] (t: &IssuanceTimingConfig) -> (r: Time);
pub assume_specification [IssuanceTimingConfig::new_child_cert_issuance_threshold] (t: &IssuanceTimingConfig) -> (r: Time);
'''


def build():
    U = Unit('c02_entitle', 'C02', 'entitlement answer per class: exactly (current certificate of the class) ∩ (child entitlement), nothing when empty / no current key / unknown child')
    common(U)
    prelude.time(U)
    U.opaque('Hash', 'Clone, Copy')
    for t in ['ObjectName', 'RequestResourceLimit', 'Name', 'CsrInfo', 'Base64', 'Issued', 'Received']:
        U.opaque(t, 'Clone')
    U.opaque('Rsync', 'Clone', module='uri')
    U.opaque('Validity', 'Clone, Copy')
    U.opaque('Serial', 'Clone, Copy')
    for t in ['IssuanceTimingConfig', 'CertifiedKey', 'ResourceClassEntitlements', 'SigningCert', 'IssuedCert', 'Cert', 'CertInfoDecodeError']:
        U.opaque(t, '')
    U.outside('''
pub type IssuedCertificate = CertInfo<Issued>;
pub type ReceivedCert = CertInfo<Received>;
impl ResourceSet { pub fn intersection(&self, _o: &ResourceSet) -> ResourceSet { unimplemented!() } }
impl ResourceClassEntitlements { pub fn new(_c: ResourceClassName, _r: ResourceSet, _t: Time, _i: Vec<IssuedCert>, _s: SigningCert) -> Self { unimplemented!() } }
impl SigningCert { pub fn new(_u: uri::Rsync, _c: Cert) -> Self { unimplemented!() } }
impl Validity { pub fn not_after(self) -> Time { unimplemented!() } }
impl IssuanceTimingConfig {
    pub fn new_child_cert_not_after(&self) -> Time { unimplemented!() }
    pub fn new_child_cert_issuance_threshold(&self) -> Time { unimplemented!() }
}
''')
    U.struct(API, 'CertInfo', derive=[])
    U.struct(CA, 'CertAuth', derive=[])
    U.struct(CH, 'ChildDetails', derive=[])
    U.enum(ERR, 'Error', keep=['CaChildUnknown', 'Custom'], derive=[])
    U.add(SPEC)
    km = 'obeys_key_model::<ChildHandle>() && obeys_key_model::<ResourceClassName>() && obeys_key_model::<KeyIdentifier>()'
    U.impl('impl<T> CertInfo<T>', [
        U.fn(API, 'CertInfo', 'to_cert', external_body=True),
        U.fn(API, 'CertInfo', 'to_rfc6492_issued_cert', external_body=True),
    ])
    U.impl('impl ChildDetails', [
        U.fn(CH, 'ChildDetails', 'name_for_parent_rcn', requires=[('km', 'obeys_key_model::<ResourceClassName>()')], ensures=[('is_mapping', 'r == child_name(*self, *name_in_parent)')]),
        U.fn(CH, 'ChildDetails', 'issued', external_body=True),
    ])
    U.impl('impl CertAuth', [
        U.fn(CA, 'CertAuth', 'handle', external_body=True),
        U.fn(CA, 'CertAuth', 'get_child', requires=[('km', km)], ensures=[
            ('known', 'r is Ok <==> self.children@.contains_key(*child)'), ('details', 'r is Ok ==> *r->Ok_0 == self.children@[*child]')]),
        U.fn(CA, 'CertAuth', 'entitlement_class', requires=[('km', km)],
             ensures=[
                 ('entitled_to_exactly_the_intersection', '''r is Ok && r->Ok_0 is Some ==> self.resources@.contains_key(*my_rcn) && rc_current(self.resources@[*my_rcn]) is Some
                        && self.children@.contains_key(*child_handle)
                        && ent_resources(r->Ok_0->Some_0) == rs_intersection(key_cert(rc_current(self.resources@[*my_rcn])->Some_0).resources, self.children@[*child_handle].resources)
                        && !rs_is_empty(ent_resources(r->Ok_0->Some_0))'''),
                 ('under_the_name_the_child_knows', 'r is Ok && r->Ok_0 is Some ==> ent_class(r->Ok_0->Some_0) == child_name(self.children@[*child_handle], *my_rcn)'),
                 ('nothing_iff_no_class_key_child_or_overlap', '''r is Ok && r->Ok_0 is None ==> (!self.resources@.contains_key(*my_rcn) || rc_current(self.resources@[*my_rcn]) is None
                        || !self.children@.contains_key(*child_handle)
                        || rs_is_empty(rs_intersection(key_cert(rc_current(self.resources@[*my_rcn])->Some_0).resources, self.children@[*child_handle].resources)))'''),
             ],
             loops={0: {'invariant': [('km', km)]}}),
    ])
    return U
