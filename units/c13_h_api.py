from units.c13_handlers import build_file


def extra(U):
    U.outside('impl HttpResponse { pub fn with_benign(self, _b: bool) -> Self { unimplemented!() } }')
    U.add('pub assume_specification [HttpResponse::with_benign] (s: HttpResponse, b: bool) -> (r: HttpResponse);')


def build():
    return build_file('api.rs', 'c13_h_api', 'everything under /api/v1 except "authorized" is dispatched only after a successful Login check', skip=(), extra=extra)
