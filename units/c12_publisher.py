"""C12 (which identity a publisher is checked against): RepositoryAccessProxy::get_publisher returns the publisher that is registered
under the handle in the LATEST state of the access aggregate (no copy kept elsewhere), or fails -- the contract unit c12_rfc8181
assumes of it (`registered`)."""
from vxlib import Unit
from units import prelude

ACC = 'src/server/pubd/access.rs'
ERR = 'src/commons/error.rs'

SPEC = r'''
/// ASSUMED: what the aggregate store holds as the latest state of the access aggregate (AggregateStore::get_latest)
pub uninterp spec fn latest_state(p: RepositoryAccessProxy) -> Option<RepositoryAccess>;
/// the publisher registered under a handle right now
/// ASSUMED (std): Result::cloned clones the Ok value (Publisher: clone == identity, as for every opaque Clone type)
pub assume_specification<'a, T: Clone, E> [std::result::Result::<&'a T, E>::cloned] (r: Result<&'a T, E>) -> (o: Result<T, E>)
    ensures match r { Ok(x) => o is Ok && cloned(*x, o->Ok_0), Err(e) => o == Err::<T, E>(e) };
pub open spec fn registered(p: RepositoryAccessProxy, h: PublisherHandle) -> Option<Publisher> {
    if latest_state(p) is Some && latest_state(p)->Some_0.publishers@.contains_key(h) { Some(latest_state(p)->Some_0.publishers@[h]) } else { None }
}
'''


def build():
    U = Unit('c12_publisher', 'C12', 'get_publisher answers from the latest state of the access aggregate: exactly the publisher registered under the handle')
    prelude.hashmap(U)
    prelude.strings(U)
    prelude.option_helpers(U)
    for t in ['MyHandle', 'IdCertInfo', 'Publisher']:
        U.opaque(t, 'Clone')
    U.opaque('PublisherHandle', 'Clone, PartialEq, Eq, Hash')
    U.outside('use std::sync::Arc;\npub type KrillResult<T> = Result<T, Error>;\npub mod uri { pub struct Rsync(pub u8); pub struct Https(pub u8); }\npub struct AggregateStore<T>(pub std::marker::PhantomData<T>);')
    U.add('#[verifier::external_type_specification] #[verifier::external_body] pub struct ExRsync(uri::Rsync);\n#[verifier::external_type_specification] #[verifier::external_body] pub struct ExHttps(uri::Https);\n#[verifier::external_type_specification] #[verifier::external_body] #[verifier::reject_recursive_types(T)] pub struct ExAggregateStore<T>(AggregateStore<T>);')
    U.enum(ERR, 'Error', keep=['PublisherUnknown', 'RepositoryServerNotInitialized'], derive=[])
    U.struct(ACC, 'RepositoryAccess', derive=[])
    U.struct(ACC, 'RepositoryAccessProxy', derive=[])
    U.add(SPEC)
    km = 'obeys_key_model::<PublisherHandle>()'
    U.impl('impl RepositoryAccess', [
        U.fn(ACC, 'RepositoryAccess', 'get_publisher', requires=[('km', km)],
             closures={0: {'header': '|| -> (o: Error)', 'ensures': 'true'}},
             ensures=[('the_registered_publisher_or_an_error', '''match r { Ok(p) => self.publishers@.contains_key(*publisher_handle) && *p == self.publishers@[*publisher_handle],
                        Err(_) => !self.publishers@.contains_key(*publisher_handle) }''')]),
        U.fn(ACC, 'RepositoryAccess', 'has_publisher', requires=[('km', km)], ensures=[('lookup', 'r == self.publishers@.contains_key(*name)')]),
    ])
    U.impl('impl RepositoryAccessProxy', [
        U.fn(ACC, 'RepositoryAccessProxy', 'read', external_body=True, ensures=[
            ('assumed_latest_state', 'r is Ok ==> latest_state(*self) == Some(*r->Ok_0)')]),
        U.fn(ACC, 'RepositoryAccessProxy', 'get_publisher', requires=[('km', km)], ensures=[
            ('is_the_currently_registered_publisher', 'r is Ok ==> registered(*self, *name) == Some(r->Ok_0)'),
            ('unknown_publisher_is_refused', 'latest_state(*self) is Some && !latest_state(*self)->Some_0.publishers@.contains_key(*name) ==> r is Err')]),
    ])
    return U
