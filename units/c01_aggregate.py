"""C01: Roas::update_aggregate -- after an update in aggregation mode every per-AS aggregated ROA carries exactly the configured
authorisations of that AS (re-issued when they differ in ANY way, kept only when identical), and every aggregated ROA whose AS
has no configured authorisation left is removed."""
from vxlib import Unit
from units import prelude

ROA = 'src/server/ca/roa.rs'
API = 'src/api/roa.rs'

SPEC = r'''
pub uninterp spec fn sorted_of<T>(s: Seq<T>) -> Seq<T>;
/// ASSUMED: slice::sort produces the sorted permutation (a function of the elements)
pub assume_specification<T: Ord> [<[T]>::sort] (v: &mut [T]) ensures final(v)@ == sorted_of(old(v)@);
pub open spec fn cond(upd: Map<RoaAggregateKey, RoaInfo>, agg: Map<RoaAggregateKey, RoaInfo>, d: Map<RoaAggregateKey, Vec<RoaPayloadJsonMapKey>>, k: RoaAggregateKey) -> bool {
    (upd.contains_key(k) && upd[k].authorizations@ == d[k]@)
    || (!upd.contains_key(k) && agg.contains_key(k) && sorted_of(agg[k].authorizations@) == d[k]@)
}
/// the desired per-AS aggregates of a route set (Routes::to_aggregates: every value is sorted; assumed)
pub uninterp spec fn desired_aggs(r: Routes) -> Map<RoaAggregateKey, Vec<RoaPayloadJsonMapKey>>;
pub assume_specification [Routes::to_aggregates] (r: &Routes) -> (m: HashMap<RoaAggregateKey, Vec<RoaPayloadJsonMapKey>>) ensures m@ == desired_aggs(*r);
pub assume_specification [Roas::make_aggregate_roa] (key: &RoaAggregateKey, authorizations: Vec<RoaPayloadJsonMapKey>, certified_key: &CertifiedKey,
        issuance_timing: &IssuanceTimingConfig, signer: &KrillSigner) -> (r: KrillResult<RoaInfo>)
    ensures r is Ok ==> r->Ok_0.authorizations@ == authorizations@;
'''


def build():
    U = Unit('c01_aggregate', 'C01', 'aggregation mode: each per-AS ROA carries exactly the configured authorisations; ROAs of ASes without authorisations are removed')
    prelude.hashmap(U)
    prelude.strings(U)
    U.opaque('AsNumber', 'Clone, Copy, PartialEq, Eq, Hash')
    U.opaque('RoaPayloadJsonMapKey', 'Clone, Copy, PartialEq, Eq, Hash', eq=True, clone_spec=True)
    for t in ['Validity', 'Serial', 'Base64', 'Hash']:
        U.opaque(t, 'Clone')
    U.opaque('Rsync', 'Clone', module='uri')
    for t in ['Routes', 'CertifiedKey', 'IssuanceTimingConfig', 'KrillSigner', 'Error']:
        U.opaque(t, '')
    U.outside('''
pub type KrillResult<T> = Result<T, Error>;
impl Routes { pub fn to_aggregates(&self) -> HashMap<RoaAggregateKey, Vec<RoaPayloadJsonMapKey>> { unimplemented!() } }
impl Roas { pub fn make_aggregate_roa(_key: &RoaAggregateKey, _a: Vec<RoaPayloadJsonMapKey>, _k: &CertifiedKey, _t: &IssuanceTimingConfig, _s: &KrillSigner) -> KrillResult<RoaInfo> { unimplemented!() } }
impl PartialOrd for RoaPayloadJsonMapKey { fn partial_cmp(&self, _o: &Self) -> Option<std::cmp::Ordering> { unimplemented!() } }
impl Ord for RoaPayloadJsonMapKey { fn cmp(&self, _o: &Self) -> std::cmp::Ordering { unimplemented!() } }
''')
    U.struct(ROA, 'RoaAggregateKey', derive=['Clone', 'Copy', 'PartialEq', 'Eq', 'Hash'], structural=False)
    U.struct(API, 'RoaInfo', derive=['Clone'])
    U.struct(ROA, 'Roas', derive=[])
    U.struct(ROA, 'RoaUpdates', derive=[], default_ensures=[
        ('empty', 'r.updated@.len() == 0 && r.removed@.len() == 0 && r.aggregate_updated@.len() == 0 && r.aggregate_removed@.len() == 0')])
    U.add(SPEC)
    km = 'obeys_key_model::<RoaAggregateKey>() && obeys_key_model::<RoaPayloadJsonMapKey>()'
    U.impl('impl Roas', [
        U.fn(ROA, 'Roas', 'update_aggregate',
             requires=[('km', km)],
             ensures=[
                 ('each_aggregate_carries_exactly_the_configuration', '''r is Ok ==> forall |k: RoaAggregateKey| #[trigger] desired_aggs(*relevant_routes).contains_key(k) ==>
                    (r->Ok_0.aggregate_updated@.contains_key(k) && r->Ok_0.aggregate_updated@[k].authorizations@ == desired_aggs(*relevant_routes)[k]@)
                    || (!r->Ok_0.aggregate_updated@.contains_key(k) && self.aggregate@.contains_key(k)
                        && sorted_of(self.aggregate@[k].authorizations@) == desired_aggs(*relevant_routes)[k]@)'''),
                 ('nothing_else_issued', 'r is Ok ==> forall |k: RoaAggregateKey| r->Ok_0.aggregate_updated@.contains_key(k) ==> #[trigger] desired_aggs(*relevant_routes).contains_key(k)'),
                 ('surplus_removed', '''r is Ok ==> forall |k: RoaAggregateKey| self.aggregate@.contains_key(k) && !desired_aggs(*relevant_routes).contains_key(k)
                    ==> #[trigger] r->Ok_0.aggregate_removed@.contains(k)'''),
                 ('only_surplus_removed', '''r is Ok ==> forall |i: int| 0 <= i < r->Ok_0.aggregate_removed@.len() ==>
                    self.aggregate@.contains_key(#[trigger] r->Ok_0.aggregate_removed@[i]) && !desired_aggs(*relevant_routes).contains_key(r->Ok_0.aggregate_removed@[i])'''),
                 ('simple_roas_untouched', 'r is Ok ==> r->Ok_0.updated@.len() == 0 && r->Ok_0.removed@.len() == 0'),
             ],
             loops={
                 0: {'iter': 'vx_it', 'invariant': [
                     ('km', km),
                     ('d', 'desired_aggregates@ == desired_aggs(*relevant_routes)'),
                     ('pairs', '''vx_it.seq().len() == desired_aggregates@.len() && (forall |i: int| 0 <= i < vx_it.seq().len() ==> desired_aggregates@.contains_key(*(#[trigger] vx_it.seq()[i]).0)
                            && desired_aggregates@[*vx_it.seq()[i].0] == *vx_it.seq()[i].1)
                        && vx_it.seq().no_duplicates()'''),
                     ('issued_only_for_visited', '''forall |k: RoaAggregateKey| roa_updates.aggregate_updated@.contains_key(k) ==>
                            exists |i: int| 0 <= i < vx_it.index@ && *(#[trigger] vx_it.seq()[i]).0 == k'''),
                     ('handled_or_to_come', '''forall |k: RoaAggregateKey| #[trigger] desired_aggregates@.contains_key(k) ==>
                            cond(roa_updates.aggregate_updated@, self.aggregate@, desired_aggregates@, k)
                            || exists |j: int| vx_it.index@ <= j < vx_it.seq().len() && *(#[trigger] vx_it.seq()[j]).0 == k'''),
                     ('rest_empty', 'roa_updates.updated@.len() == 0 && roa_updates.removed@.len() == 0 && roa_updates.aggregate_removed@.len() == 0'),
                 ]},
                 1: {'iter': 'vx_it', 'invariant': [
                     ('km', km),
                     ('d', 'desired_aggregates@ == desired_aggs(*relevant_routes)'),
                     ('keys', 'vx_it.seq().unref().to_set() == self.aggregate@.dom()'),
                     ('removed_so_far', '''forall |i: int| 0 <= i < vx_it.index@ && !desired_aggregates@.contains_key(*(#[trigger] vx_it.seq()[i])) ==> roa_updates.aggregate_removed@.contains(*vx_it.seq()[i])'''),
                     ('only_surplus', '''forall |i: int| 0 <= i < roa_updates.aggregate_removed@.len() ==>
                            self.aggregate@.contains_key(#[trigger] roa_updates.aggregate_removed@[i]) && !desired_aggregates@.contains_key(roa_updates.aggregate_removed@[i])'''),
                     ('frame', '''roa_updates.updated@.len() == 0 && roa_updates.removed@.len() == 0
                        && (forall |k: RoaAggregateKey| #[trigger] desired_aggregates@.contains_key(k) ==> cond(roa_updates.aggregate_updated@, self.aggregate@, desired_aggregates@, k))
                        && (forall |k: RoaAggregateKey| roa_updates.aggregate_updated@.contains_key(k) ==> #[trigger] desired_aggregates@.contains_key(k))'''),
                 ]},
             },
             ghost=[
                 (('loop_start', 0), '''let ghost g_upd = roa_updates.aggregate_updated@; let ghost g_i = vx_it.index@ as int;
            proof {
                assert(*key == *vx_it.seq()[g_i].0 && *authorizations == *vx_it.seq()[g_i].1);
                assert forall |i: int| 0 <= i < vx_it.seq().len() && i != g_i implies *(#[trigger] vx_it.seq()[i]).0 != *key by {
                    let a = vx_it.seq()[i]; let b = vx_it.seq()[g_i];
                    if *a.0 == *b.0 { assert(*a.1 == *b.1); assert(a == b); }
                }
                assert(!g_upd.contains_key(*key));
            }'''),
                 (('after', 'existing.authorizations.clone();'), '''proof {
                    assert forall |i: int| 0 <= i < existing_authorizations@.len() implies existing_authorizations@[i] == existing.authorizations@[i] by {
                        assert(cloned(existing.authorizations@[i], existing_authorizations@[i])); }
                    assert(existing_authorizations@ =~= existing.authorizations@);
                }'''),
                 (('before', 'roa_updates.aggregate_updated.insert(*key, aggregate);', 0), '''proof {
                    assert forall |i: int| 0 <= i < authorizations@.len() implies aggregate.authorizations@[i] == authorizations@[i] by {
                        assert(cloned(authorizations@[i], aggregate.authorizations@[i])); }
                    assert(aggregate.authorizations@ =~= authorizations@);
                }'''),
                 (('before', 'roa_updates.aggregate_updated.insert(*key, aggregate);', 1), '''proof {
                    assert forall |i: int| 0 <= i < authorizations@.len() implies aggregate.authorizations@[i] == authorizations@[i] by {
                        assert(cloned(authorizations@[i], aggregate.authorizations@[i])); }
                    assert(aggregate.authorizations@ =~= authorizations@);
                }'''),
                 (('loop_end', 0), '''proof {
                /*@case_new_roa*/ assert(!self.aggregate@.contains_key(*key) ==> roa_updates.aggregate_updated@.contains_key(*key) && roa_updates.aggregate_updated@[*key].authorizations@ == authorizations@);
                /*@case_replaced*/ assert(self.aggregate@.contains_key(*key) && roa_updates.aggregate_updated@.contains_key(*key) ==> roa_updates.aggregate_updated@[*key].authorizations@ == authorizations@);
                /*@case_kept_identical*/ assert(self.aggregate@.contains_key(*key) && !roa_updates.aggregate_updated@.contains_key(*key) ==> authorizations@ == sorted_of(self.aggregate@[*key].authorizations@));
                /*@desired_is_current_pair*/ assert(desired_aggregates@[*key]@ == authorizations@);
                /*@this_key_handled*/ assert(cond(roa_updates.aggregate_updated@, self.aggregate@, desired_aggregates@, *key));
                assert forall |k: RoaAggregateKey| #[trigger] desired_aggregates@.contains_key(k) implies
                    cond(roa_updates.aggregate_updated@, self.aggregate@, desired_aggregates@, k)
                    || exists |j: int| g_i + 1 <= j < vx_it.seq().len() && *(#[trigger] vx_it.seq()[j]).0 == k by {
                    if k != *key {
                        if !cond(g_upd, self.aggregate@, desired_aggregates@, k) {
                            let j = choose |j: int| g_i <= j < vx_it.seq().len() && *(#[trigger] vx_it.seq()[j]).0 == k;
                            assert(j != g_i);
                        }
                    }
                }
            }'''),
                 (('loop_start', 1), '''let ghost g_rem = roa_updates.aggregate_removed@; let ghost g_i = vx_it.index@ as int;
            proof { assert(*key == vx_it.seq().unref()[g_i]); assert(vx_it.seq().unref().to_set().contains(*key)); }'''),
                 (('loop_end', 1), '''proof {
                assert forall |i: int| 0 <= i < g_i + 1 && !desired_aggregates@.contains_key(*(#[trigger] vx_it.seq()[i])) implies roa_updates.aggregate_removed@.contains(*vx_it.seq()[i]) by {
                    if i < g_i { let j = choose |j: int| 0 <= j < g_rem.len() && g_rem[j] == *vx_it.seq()[i]; assert(roa_updates.aggregate_removed@[j] == *vx_it.seq()[i]); }
                    else { assert(roa_updates.aggregate_removed@[g_rem.len() as int] == *key); }
                }
            }'''),
                 (('after_loop', 1), '''proof {
                assert forall |k: RoaAggregateKey| self.aggregate@.contains_key(k) && !desired_aggregates@.contains_key(k) implies #[trigger] roa_updates.aggregate_removed@.contains(k) by {
                    assert(self.aggregate@.dom().contains(k));
                }
            }'''),
             ]),
    ])
    return U
