"""C02 (idempotence kernel): CertifiedKey::wants_update -- a key whose certificate already carries the entitled resources
and the entitled not-after time does not ask for a new certificate; changed resources always do."""
from vxlib import Unit
from units import prelude

CA = 'src/api/ca.rs'
KEYS = 'src/server/ca/keys.rs'

SPEC = r'''
pub uninterp spec fn rs_same(a: ResourceSet, b: ResourceSet) -> bool;
pub uninterp spec fn diff_empty(d: ResourceDiff) -> bool;
pub uninterp spec fn is_all(a: ResourceSet) -> bool;
pub uninterp spec fn has_slash(u: uri::Rsync) -> bool;
pub uninterp spec fn ts(t: Time) -> i64;
pub uninterp spec fn not_after_of(v: Validity) -> Time;
pub uninterp spec fn csr_repo(c: CsrInfo) -> uri::Rsync;
/// superset test of the resource algebra (uninterpreted; equal sets contain each other)
pub uninterp spec fn rs_contains(a: ResourceSet, b: ResourceSet) -> bool;
pub assume_specification [ResourceSet::contains] (a: &ResourceSet, b: &ResourceSet) -> (r: bool) ensures r == rs_contains(*a, *b), rs_same(*b, *a) ==> r;
pub assume_specification [ResourceSet::difference] (a: &ResourceSet, b: &ResourceSet) -> (r: ResourceDiff) ensures diff_empty(r) == rs_same(*a, *b);
pub assume_specification [ResourceDiff::is_empty] (d: &ResourceDiff) -> (r: bool) ensures r == diff_empty(*d);
pub assume_specification [ResourceSet::all] () -> (r: ResourceSet) ensures is_all(r);
pub assume_specification [uri::Rsync::ends_with] (u: &uri::Rsync, s: &str) -> (r: bool) ensures r == has_slash(*u);
pub assume_specification [CsrInfo::ca_repository] (c: &CsrInfo) -> (r: &uri::Rsync) ensures *r == csr_repo(*c);
pub assume_specification [Validity::not_after] (v: Validity) -> (r: Time) ensures r == not_after_of(v);
pub assume_specification [Time::now] () -> (r: Time);
/// ASSUMED: chrono timestamps are far inside i64 (|t| < 2^60), so differences do not overflow
pub assume_specification [Time::timestamp] (t: &Time) -> (r: i64) ensures r == ts(*t), -0x1000_0000_0000_0000 < r < 0x1000_0000_0000_0000;
impl vstd::std_specs::cmp::PartialEqSpecImpl for ResourceSet {
    open spec fn obeys_eq_spec() -> bool { true }
    open spec fn eq_spec(&self, other: &ResourceSet) -> bool { *self == *other }
}
pub assume_specification [<ResourceSet as PartialEq>::eq] (a: &ResourceSet, b: &ResourceSet) -> (r: bool);
/// ASSUMED: IEEE-754 division is total (never traps); the quotient itself is left uninterpreted (machine floats are not modelled)
pub broadcast axiom fn axiom_f64_div_total(a: f64, b: f64) ensures #[trigger] a.div_req(b);
'''


def build():
    U = Unit('c02_wants', 'C02', 'wants_update: entitlement already met => no new request (idempotence kernel); changed resources => request')
    prelude.strings(U)
    U.opaque('KeyIdentifier', 'Clone, Copy, PartialEq, Eq, Hash')
    U.opaque('Hash', 'Clone, Copy')
    for t in ['ObjectName', 'RequestResourceLimit', 'Name', 'CsrInfo', 'Base64', 'Received', 'IssuanceRequest', 'RepoInfo']:
        U.opaque(t, 'Clone')
    U.opaque('ResourceSet', 'Clone, PartialEq')
    U.opaque('Rsync', 'Clone', module='uri')
    U.opaque('Validity', 'Clone, Copy')
    U.opaque('Serial', 'Clone, Copy')
    U.opaque('Time', 'Clone, Copy')
    for t in ['CaHandle', 'ResourceClassName', 'ResourceDiff']:
        U.opaque(t, '')
    U.outside('use vstd::std_specs::ops::*;')
    U.outside('''
pub type ReceivedCert = CertInfo<Received>;
impl ResourceSet { pub fn contains(&self, _o: &ResourceSet) -> bool { unimplemented!() } pub fn difference(&self, _o: &ResourceSet) -> ResourceDiff { unimplemented!() } pub fn all() -> ResourceSet { unimplemented!() } }
impl ResourceDiff { pub fn is_empty(&self) -> bool { unimplemented!() } }
impl uri::Rsync { pub fn ends_with(&self, _s: &str) -> bool { unimplemented!() } }
impl CsrInfo { pub fn ca_repository(&self) -> &uri::Rsync { unimplemented!() } }
impl Validity { pub fn not_after(self) -> Time { unimplemented!() } }
impl Time { pub fn now() -> Time { unimplemented!() } pub fn timestamp(&self) -> i64 { unimplemented!() } pub fn to_rfc3339(&self) -> String { unimplemented!() } }
''')
    U.struct(CA, 'CertInfo', derive=[])
    U.struct(KEYS, 'CertifiedKey', derive=[])
    U.add(SPEC)
    U.impl('impl<T> CertInfo<T>', [
        U.fn(CA, 'CertInfo', 'ca_repository', ensures=[('is_csr_repo', '*r == csr_repo(self.csr_info)')]),
    ])
    U.impl('impl CertifiedKey', [
        U.fn(KEYS, 'CertifiedKey', 'incoming_cert', ensures=[('is_field', '*r == self.incoming_cert')]),
        U.fn(KEYS, 'CertifiedKey', 'wants_update', ghost=[(('body_start',), 'broadcast use axiom_f64_div_total;')],
             ensures=[
                 ('entitlement_already_met_no_new_request', '''has_slash(csr_repo(self.incoming_cert.csr_info)) && rs_same(*new_resources, self.incoming_cert.resources)
                        && ts(new_not_after) == ts(not_after_of(self.incoming_cert.validity)) ==> !r'''),
                 ('changed_resources_always_request', '!rs_same(*new_resources, self.incoming_cert.resources) ==> r'),
                 ('missing_trailing_slash_requests', '!has_slash(csr_repo(self.incoming_cert.csr_info)) ==> r'),
             ]),
    ])
    return U
