"""C11 (in-memory RRDP state): a session reset restarts at serial 1 without deltas; truncation by age/number and by size keeps
a PREFIX of the delta list (so a contiguous run ending at the current serial stays contiguous) within the configured bounds."""
from vxlib import Unit
from units import prelude

RR = 'src/server/pubd/rrdp.rs'
CFG = 'src/config.rs'

SPEC = r'''
#[verifier::external_type_specification] #[verifier::external_body] pub struct ExPathBuf(std::path::PathBuf);
#[verifier::external_type_specification] #[verifier::external_body] #[verifier::reject_recursive_types(K)] #[verifier::reject_recursive_types(V)]
pub struct ExHM<K, V>(StagedMap<K, V>);
pub uninterp spec fn de_size(e: DeltaElements) -> usize;
pub uninterp spec fn snap_size(s: SnapshotData) -> usize;
pub assume_specification [DeltaElements::size_approx] (e: &DeltaElements) -> (r: usize) ensures r == de_size(*e);
#[verifier::external_type_specification] #[verifier::external_body] pub struct ExCurrentObjects(CurrentObjects);
/// lookup of a publisher's objects in the snapshot (result unconstrained here; verified in unit c11_snapshot)
pub assume_specification<'a> [SnapshotData::get_publisher_objects] (s: &'a SnapshotData, p: &PublisherHandle) -> (r: Option<&'a CurrentObjects>);
pub assume_specification [SnapshotData::size_approx] (s: &SnapshotData) -> (r: usize) ensures r == snap_size(*s);
/// the clock is an input: whether a delta is younger / older than N seconds when the update is computed
pub uninterp spec fn is_younger(d: DeltaData, secs: i64) -> bool;
pub uninterp spec fn is_older(d: DeltaData, secs: i64) -> bool;
// ---- one iteration of apply_rrdp_updated: ASSUMED contracts of the callees (SnapshotData::apply_delta is verified in unit c11_snapshot) ----
pub uninterp spec fn staged_as_delta(s: StagedElements) -> DeltaElements;
pub uninterp spec fn snap_apply(s: SnapshotData, p: PublisherHandle, d: DeltaElements) -> SnapshotData;
pub uninterp spec fn de_append(a: DeltaElements, b: DeltaElements) -> DeltaElements;
pub assume_specification [SnapshotData::apply_delta] (s: &mut SnapshotData, p: &PublisherHandle, d: DeltaElements) ensures *final(s) == snap_apply(*old(s), *p, d);
pub assume_specification [DeltaElements::append] (a: &mut DeltaElements, o: DeltaElements) ensures *final(a) == de_append(*old(a), o);
impl vstd::std_specs::convert::FromSpecImpl<StagedElements> for DeltaElements {
    open spec fn obeys_from_spec() -> bool { true }
    open spec fn from_spec(v: StagedElements) -> DeltaElements { staged_as_delta(v) }
}
pub assume_specification [<DeltaElements as From<StagedElements>>::from] (s: StagedElements) -> (r: DeltaElements) ensures r == staged_as_delta(s);
pub open spec fn sum_sizes(ds: Seq<DeltaData>, n: int) -> int decreases n {
    if n <= 0 { 0 } else { sum_sizes(ds, n - 1) + de_size(ds[n - 1].elements) as int }
}
pub proof fn lemma_sum_mono(ds: Seq<DeltaData>, a: int, b: int)
    requires 0 <= a <= b ensures sum_sizes(ds, a) <= sum_sizes(ds, b) decreases b - a
{ if a < b { lemma_sum_mono(ds, a, b - 1); } }
'''


def build():
    U = Unit('c11_rrdp', 'C11', 'session reset => serial 1, no deltas; delta truncation keeps a prefix within the configured bounds')
    prelude.strings(U)
    prelude.time(U)
    prelude.int_conversions(U)
    for t in ['RrdpSession', 'SnapshotData', 'RrdpFileRandom', 'DeltaElements', 'PublisherHandle', 'StagedElements']:
        U.opaque(t, 'Clone')
    U.outside('''
use std::collections::VecDeque;
pub mod uri { pub struct Https(pub u8); }
pub type PathBuf = std::path::PathBuf;
pub struct StagedMap<K, V>(pub Vec<(K, V)>);
pub type HashMap<K, V> = StagedMap<K, V>;
impl DeltaElements { pub fn size_approx(&self) -> usize { unimplemented!() } }
impl SnapshotData { pub fn size_approx(&self) -> usize { unimplemented!() } pub fn apply_delta(&mut self, _p: &PublisherHandle, _d: DeltaElements) { unimplemented!() }
    pub fn get_publisher_objects<'a>(&'a self, _p: &PublisherHandle) -> Option<&'a CurrentObjects> { unimplemented!() } }
pub struct CurrentObjects(pub u8);
impl DeltaElements { pub fn append(&mut self, _o: DeltaElements) { unimplemented!() } }
impl From<StagedElements> for DeltaElements { fn from(_s: StagedElements) -> Self { unimplemented!() } }
''')
    U.add('#[verifier::external_type_specification] #[verifier::external_body] pub struct ExHttps(uri::Https);')
    U.struct(RR, 'DeltaData', derive=['Clone'])
    U.struct(RR, 'RrdpSessionReset', derive=[])
    U.struct(RR, 'RrdpServer', derive=[])
    U.struct(CFG, 'RrdpUpdatesConfig', derive=['Clone', 'Copy'], structural=False)
    U.add(SPEC)
    U.free(U.const('src/constants.rs', None, 'RRDP_FIRST_SERIAL'))
    U.impl('impl DeltaData', [
        U.fn(RR, 'DeltaData', 'elements', ensures=[('is_field', '*r == self.elements')]),
        U.fn(RR, 'DeltaData', 'younger_than_seconds', external_body=True, ensures=[('clock', 'r == is_younger(*self, seconds)')]),
        U.fn(RR, 'DeltaData', 'older_than_seconds', external_body=True, ensures=[('clock', 'r == is_older(*self, seconds)')]),
    ])
    U.impl('impl RrdpServer', [
        # apply_rrdp_updated iterates the staged map by value (outside the verifier); one iteration (loop body lifted, R17):
        # the staged changes of a publisher go into the snapshot AND into the next RRDP delta, the same elements to both
        U.loop_fn(RR, 'RrdpServer', 'apply_rrdp_updated', 0, 'vx_apply_one_publisher',
                  '(&mut self, publisher: PublisherHandle, staged_elements: StagedElements, rrdp_delta_elements: &mut DeltaElements)',
                  body_only=True, pat_names=('publisher', 'staged_elements'),
                  ensures=[
                      ('snapshot_gets_the_staged_changes', 'final(self).snapshot == snap_apply(old(self).snapshot, publisher, staged_as_delta(staged_elements))'),
                      ('delta_gets_the_same_changes', '*final(rrdp_delta_elements) == de_append(*old(rrdp_delta_elements), staged_as_delta(staged_elements))'),
                      ('nothing_else_touched', 'final(self).serial == old(self).serial && final(self).deltas == old(self).deltas && final(self).session == old(self).session'),
                  ]),
        U.fn(RR, 'RrdpServer', 'snapshot', ensures=[('is_field', '*r == self.snapshot')]),
        U.fn(RR, 'RrdpServer', 'apply_session_reset', ensures=[
            ('restarts_at_serial_one_without_deltas', 'final(self).serial == 1 && final(self).deltas@.len() == 0'),
            ('takes_reset_data', 'final(self).session == reset.session && final(self).snapshot == reset.snapshot && final(self).last_update == reset.last_update'),
            ('staged_untouched', 'final(self).staged_elements == old(self).staged_elements')]),
        U.fn(RR, 'RrdpServer', 'deltas_truncate_size', hash_loops=(0,),
             requires=[('sizes_fit', 'sum_sizes(old(self).deltas@, old(self).deltas@.len() as int) <= usize::MAX'), ('deque_len', 'old(self).deltas@.len() < usize::MAX')],
             ensures=[
                 ('keeps_a_prefix', 'final(self).deltas@.len() <= old(self).deltas@.len() && final(self).deltas@ == old(self).deltas@.subrange(0, final(self).deltas@.len() as int)'),
                 ('within_snapshot_size', 'sum_sizes(old(self).deltas@, final(self).deltas@.len() as int) <= snap_size(old(self).snapshot)'),
                 ('maximal', '''final(self).deltas@.len() == old(self).deltas@.len()
                    || sum_sizes(old(self).deltas@, final(self).deltas@.len() as int + 1) > snap_size(old(self).snapshot)'''),
                 ('rest_untouched', 'final(self).serial == old(self).serial && final(self).snapshot == old(self).snapshot'),
             ],
             loops={0: {'iter': 'vx_it', 'invariant_except_break': True, 'invariant': [
                 ('seq', 'vx_it.seq().unref() == self.deltas@ && self.deltas@ == old(self).deltas@ && snapshot_size == snap_size(self.snapshot)'),
                 ('sum', 'total_deltas_size as int == sum_sizes(self.deltas@, vx_it.index@ as int) && keep == vx_it.index@'),
                 ('fits', 'total_deltas_size <= snapshot_size'),
                 ('bound', 'sum_sizes(self.deltas@, self.deltas@.len() as int) <= usize::MAX && self.deltas@.len() < usize::MAX'),
             ], 'ensures': [
                 ('exit', '''keep <= self.deltas@.len() && sum_sizes(self.deltas@, keep as int) <= snapshot_size
                    && (keep == self.deltas@.len() || sum_sizes(self.deltas@, keep as int + 1) > snapshot_size)'''),
             ]}},
             ghost=[(('loop_start', 0), 'proof { assert(vx_it.index@ < vx_it.seq().len()); assert(*delta == self.deltas@[vx_it.index@ as int]); lemma_sum_mono(self.deltas@, vx_it.index@ as int + 1, self.deltas@.len() as int); reveal_with_fuel(sum_sizes, 2); }')]),
        U.fn(RR, 'RrdpServer', 'find_deltas_truncate_age', hash_loops=(0,),
             requires=[('deque_len', 'self.deltas@.len() < usize::MAX')],
             ensures=[
                 ('keep_in_bounds', 'r <= self.deltas@.len()'),
                 ('max_nr_within', '''rrdp_updates_config.rrdp_delta_files_min_nr <= rrdp_updates_config.rrdp_delta_files_max_nr - 1
                    && (forall |i: int| rrdp_updates_config.rrdp_delta_files_max_nr - 1 <= i < self.deltas@.len()
                            ==> !is_younger(#[trigger] self.deltas@[i], rrdp_updates_config.rrdp_delta_files_min_seconds as i64))
                    ==> r + 1 <= rrdp_updates_config.rrdp_delta_files_max_nr'''),
                 # F17: whatever is retained beyond the maximum is retained BECAUSE of a minimum rule (the documented precedence), never
                 # merely because the counter had already passed the maximum when the first unprotected delta was reached
                 ('beyond_max_nr_only_what_the_minimum_rules_protect', '''forall |i: int| 0 <= i < r && i + 2 > rrdp_updates_config.rrdp_delta_files_max_nr ==>
                        i < rrdp_updates_config.rrdp_delta_files_min_nr || is_younger(#[trigger] self.deltas@[i], rrdp_updates_config.rrdp_delta_files_min_seconds as i64)'''),
                 ('retained_never_exceed_max_nr', 'r + 1 <= rrdp_updates_config.rrdp_delta_files_max_nr'),
             ],
             loops={0: {'iter': 'vx_it', 'invariant_except_break': True, 'invariant': [
                 ('seq', 'vx_it.seq().unref() == self.deltas@'),
                 ('cfg', '''min_nr == rrdp_updates_config.rrdp_delta_files_min_nr && max_nr == rrdp_updates_config.rrdp_delta_files_max_nr
                    && min_secs == rrdp_updates_config.rrdp_delta_files_min_seconds'''),
                 ('count', 'keep == vx_it.index@ && self.deltas@.len() < usize::MAX'),
                 ('within', '''min_nr <= max_nr - 1 && (forall |i: int| max_nr - 1 <= i < self.deltas@.len() ==> !is_younger(#[trigger] self.deltas@[i], min_secs as i64))
                    ==> keep <= max_nr - 1'''),
                 ('protected', 'forall |i: int| 0 <= i < keep && i + 2 > max_nr ==> i < min_nr || is_younger(#[trigger] self.deltas@[i], min_secs as i64)'),
             ], 'ensures': [
                 ('exit', '''keep <= self.deltas@.len() && (min_nr <= max_nr - 1
                    && (forall |i: int| max_nr - 1 <= i < self.deltas@.len() ==> !is_younger(#[trigger] self.deltas@[i], min_secs as i64)) ==> keep <= max_nr - 1)
                    && (forall |i: int| 0 <= i < keep && i + 2 > max_nr ==> i < min_nr || is_younger(#[trigger] self.deltas@[i], min_secs as i64))'''),
             ]}},
             ghost=[(('loop_start', 0), 'broadcast use axiom_i64_from_u32; proof { axiom_i64_from_u32_obeys(); assert(vx_it.index@ < vx_it.seq().len()); assert(*delta == self.deltas@[vx_it.index@ as int]); }'),
                    (('after', 'delta.younger_than_seconds(min_secs.into()) {'), 'proof { /*@into_is_cast*/ assert(keep < min_nr || is_younger(*delta, min_secs as i64)); }')]),
    ])
    return U
