"""C11/C10: SnapshotData::apply_delta -- the snapshot of a publisher after an RRDP update is its previous content with the
delta applied, also when the publisher currently has no entry (an entry exists exactly while the publisher has objects);
other publishers are untouched."""
from vxlib import Unit
from units import prelude
from units.c10_current import SPEC, prelude_c10

RR = 'src/server/pubd/rrdp.rs'

SPEC2 = r'''
/// content of a publisher in the snapshot: "no entry" means "no objects"
pub open spec fn pview(s: SnapshotData, p: PublisherHandle) -> OView {
    if s.publishers_current_objects@.contains_key(p) { s.publishers_current_objects@[p].0@ } else { Map::empty() }
}
'''


def build():
    U = Unit('c11_snapshot', 'C11', 'snapshot content of a publisher after an update = previous content with the delta applied (entry absent <=> empty); other publishers untouched')
    prelude_c10(U)
    U.feature('allocator_api', 'sized_hierarchy')
    U.add(prelude.GET_MUT)
    U.opaque('PublisherHandle', 'Clone, PartialEq, Eq, Hash')
    U.opaque('RrdpFileRandom', 'Clone, Default')
    U.add('pub assume_specification [<RrdpFileRandom as Default>::default] () -> (r: RrdpFileRandom);')
    for st in ['PublishElement', 'UpdateElement', 'WithdrawElement', 'DeltaElements']:
        U.struct(RR, st, derive=[])
    U.struct(RR, 'CurrentObjects', derive=['Clone'], default_ensures=[('empty', 'r.0@ == Map::<CurrentObjectUri, Base64>::empty()')])
    U.struct(RR, 'SnapshotData', derive=[])
    U.add(SPEC)
    U.add(SPEC2)
    U.add('''
/// ASSUMED (std): HashMap::entry(k).or_default() inserts V::default() under k if k is absent and changes nothing otherwise
#[verifier::external_body]
pub fn vx_entry_or_default(m: &mut HashMap<PublisherHandle, CurrentObjects>, k: PublisherHandle)
    ensures final(m)@.contains_key(k),
        old(m)@.contains_key(k) ==> final(m)@ == old(m)@,
        !old(m)@.contains_key(k) ==> final(m)@.dom() == old(m)@.dom().insert(k) && final(m)@[k].0@ == Map::<CurrentObjectUri, Base64>::empty()
            && (forall |q: PublisherHandle| q != k && old(m)@.contains_key(q) ==> final(m)@[q] == old(m)@[q]),
{ m.entry(k).or_default(); }
''')
    km = 'obeys_key_model::<CurrentObjectUri>() && obeys_key_model::<PublisherHandle>()'
    U.impl('impl From<uri::Rsync> for CurrentObjectUri', [
        U.fn(RR, 'CurrentObjectUri', 'from', trait_full='From<uri::Rsync>', ensures=[('same_key', 'r == key_of(value)')]),
    ])
    U.impl('impl CurrentObjects', [
        U.fn(RR, 'CurrentObjects', 'is_empty', requires=[('key_model', 'obeys_key_model::<CurrentObjectUri>()')], ensures=[('iff_empty', 'r == (self.0@.len() == 0)')]),
        # proved in unit c10_current; assumed here (same clause text)
        U.fn(RR, 'CurrentObjects', 'apply_delta', external_body=True, requires=[('key_model', 'obeys_key_model::<CurrentObjectUri>()')],
             ensures=[('is_map_level_spec', 'final(self).0@ == apply_delta_spec(old(self).0@, delta)')]),
    ])
    U.impl('impl SnapshotData', [
        U.fn(RR, 'SnapshotData', 'apply_delta', requires=[('km', km)],
             ensures=[
                 ('content_is_delta_applied', 'pview(*final(self), *publisher) == apply_delta_spec(pview(*old(self), *publisher), delta)'),
                 ('others_untouched', 'forall |q: PublisherHandle| q != *publisher ==> pview(*final(self), q) == pview(*old(self), q)'),
             ]),
        # the publisher's entry is created if it is missing and LEFT ALONE if it is there (`entry().or_default()`, read as the declared
        # function below; optional: any other way of writing it is verified as written)
        U.fn(RR, 'SnapshotData', 'apply_publisher_added', requires=[('km', km)],
             subst=[('self.publishers_current_objects.entry(publisher).or_default();', 'vx_entry_or_default(&mut self.publishers_current_objects, publisher);', 'R14', 'optional')],
             ensures=[('adding_a_publisher_changes_no_content', 'forall |p: PublisherHandle| pview(*final(self), p) == pview(*old(self), p)'),
                      ('publisher_has_an_entry', 'final(self).publishers_current_objects@.contains_key(publisher)')]),
        U.fn(RR, 'SnapshotData', 'new', ensures=[('fields', 'r.random == random && r.publishers_current_objects == publishers_current_objects')]),
        U.fn(RR, 'SnapshotData', 'clone_with_new_random', requires=[('km', km)], ensures=[
            ('same_content_for_every_publisher', 'forall |p: PublisherHandle| pview(r, p) == pview(*self, p)')]),
        U.fn(RR, 'SnapshotData', 'get_publisher_objects', requires=[('km', km)], ensures=[
            ('lookup', 'match r { Some(c) => self.publishers_current_objects@.contains_key(*publisher) && *c == self.publishers_current_objects@[*publisher], None => !self.publishers_current_objects@.contains_key(*publisher) }')]),
    ])
    return U
