"""C12: an RFC 6492 request is acted upon only after its CMS validated under the ID key registered for the child named as
sender, and list / issue / revoke act for exactly that CA and that sender."""
from vxlib import Unit
from units import prelude

MGR = 'src/server/ca/manager.rs'
CA = 'src/server/ca/certauth.rs'
CH = 'src/server/ca/child.rs'
ERR = 'src/commons/error.rs'

OUT = '''
use std::sync::Arc;
pub type KrillResult<T> = Result<T, Error>;
pub struct AggregateStore<T>(pub Vec<T>);
pub mod provisioning {
    use super::*;
    pub struct Message(pub u8);
    pub enum Payload { List, Issue(IssuanceRequest), Revoke(RevocationRequest), ListResponse(u8), IssueResponse(u8), RevokeResponse(u8), ErrorResponse(u8) }
    impl Message {
        pub fn unpack(self) -> (Sender, Recipient, Payload) { unimplemented!() }
        pub fn is_list_response(&self) -> bool { unimplemented!() }
    }
}
impl Sender { pub fn convert(&self) -> ChildHandle { unimplemented!() } }
impl Recipient { pub fn convert(&self) -> CaHandle { unimplemented!() } }
impl ProvisioningCms {
    pub fn decode(_b: &[u8]) -> Result<ProvisioningCms, DecodeError> { unimplemented!() }
    pub fn validate(&self, _k: &PublicKey) -> Result<(), ValidationError> { unimplemented!() }
    pub fn into_message(self) -> provisioning::Message { unimplemented!() }
}
impl Error { pub fn custom<T>(_s: T) -> Error { unimplemented!() } }
pub struct Config { pub rfc6492_log_dir: Option<LogDir> }
impl CmsLogger {
    pub fn for_rfc6492_rcvd(_d: Option<&LogDir>, _r: &Recipient, _s: &Sender) -> Self { unimplemented!() }
    pub fn received(&self, _b: &Bytes) -> KrillResult<()> { unimplemented!() }
    pub fn reply(&self, _b: &Bytes) -> KrillResult<()> { unimplemented!() }
    pub fn err(&self, _e: &Error) -> KrillResult<()> { unimplemented!() }
}
impl CaStatusStore {
    pub fn set_child_success(&self, _ca: &CaHandle, _c: &ChildHandle, _ua: Option<String>) -> KrillResult<()> { unimplemented!() }
    pub fn set_child_failure(&self, _ca: &CaHandle, _c: &ChildHandle, _ua: Option<String>, _e: &Error) -> KrillResult<()> { unimplemented!() }
}
impl UpdateChildRequest { pub fn unsuspend() -> Self { unimplemented!() } }
impl ChildState { pub fn is_suspended(&self) -> bool { unimplemented!() } }
'''

SPEC = r'''
#[verifier::external_type_specification] #[verifier::external_body] #[verifier::reject_recursive_types(T)] pub struct ExAggregateStore<T>(AggregateStore<T>);
#[verifier::external_type_specification] #[verifier::external_body] pub struct ExMessage(provisioning::Message);
#[verifier::external_type_specification] pub struct ExPayload(provisioning::Payload);

// ---- assumed externals (rpki-rs CMS) ----
/// the CMS signature validates under the given key (rpki-rs + OpenSSL), assumed sound
pub uninterp spec fn cms_valid(c: ProvisioningCms, k: PublicKey) -> bool;
pub uninterp spec fn cms_message(c: ProvisioningCms) -> provisioning::Message;
pub uninterp spec fn cms_decode(b: Seq<u8>) -> Option<ProvisioningCms>;
pub uninterp spec fn msg_sender(m: provisioning::Message) -> ChildHandle;
pub uninterp spec fn msg_payload(m: provisioning::Message) -> provisioning::Payload;
pub uninterp spec fn bytes_of(b: Bytes) -> Seq<u8>;
pub assume_specification [ProvisioningCms::decode] (b: &[u8]) -> (r: Result<ProvisioningCms, DecodeError>)
    ensures r is Ok <==> cms_decode(b@) is Some, r is Ok ==> r->Ok_0 == cms_decode(b@)->Some_0;
pub assume_specification [ProvisioningCms::validate] (c: &ProvisioningCms, k: &PublicKey) -> (r: Result<(), ValidationError>) ensures r is Ok <==> cms_valid(*c, *k);
impl ProvisioningCms {
    #[verifier::external_body] pub fn message(&self) -> (m: &provisioning::Message) ensures *m == cms_message(*self) { unimplemented!() }
}
pub assume_specification [ProvisioningCms::into_message] (c: ProvisioningCms) -> (m: provisioning::Message) ensures m == cms_message(c);
impl provisioning::Message {
    #[verifier::external_body] pub fn sender(&self) -> (s: &Sender) ensures sender_child(*s) == msg_sender(*self) { unimplemented!() }
    #[verifier::external_body] pub fn recipient(&self) -> (s: &Recipient) { unimplemented!() }
}
pub uninterp spec fn sender_child(s: Sender) -> ChildHandle;
pub assume_specification [provisioning::Message::unpack] (m: provisioning::Message) -> (r: (Sender, Recipient, provisioning::Payload))
    ensures sender_child(r.0) == msg_sender(m), r.2 == msg_payload(m);
pub assume_specification [provisioning::Message::is_list_response] (m: &provisioning::Message) -> (r: bool);
pub uninterp spec fn recipient_ca(s: Recipient) -> CaHandle;
pub assume_specification [Recipient::convert] (s: &Recipient) -> (c: CaHandle) ensures c == recipient_ca(*s);
pub assume_specification [Sender::convert] (s: &Sender) -> (c: ChildHandle) ensures c == sender_child(*s);
impl CaHandle { #[verifier::external_body] pub fn as_str(&self) -> (r: &str) { unimplemented!() } }
impl Bytes { #[verifier::external_body] pub fn as_ref(&self) -> (r: &[u8]) ensures r@ == bytes_of(*self) { unimplemented!() } }
pub assume_specification<T> [Error::custom::<T>] (s: T) -> (e: Error);
#[verifier::external_type_specification] pub struct ExConfig(Config);
impl KrillRuntime {
    #[verifier::external_body] pub fn config(&self) -> (c: &Config) { unimplemented!() }
    #[verifier::external_body] pub fn signer(&self) -> (c: &KrillSigner) { unimplemented!() }
}
pub assume_specification [CmsLogger::for_rfc6492_rcvd] (d: Option<&LogDir>, r: &Recipient, s: &Sender) -> (l: CmsLogger);
pub assume_specification [CmsLogger::received] (l: &CmsLogger, b: &Bytes) -> (r: KrillResult<()>);
pub assume_specification [CmsLogger::reply] (l: &CmsLogger, b: &Bytes) -> (r: KrillResult<()>);
pub assume_specification [CmsLogger::err] (l: &CmsLogger, e: &Error) -> (r: KrillResult<()>);
pub assume_specification [CaStatusStore::set_child_success] (s: &CaStatusStore, ca: &CaHandle, c: &ChildHandle, ua: Option<String>) -> (r: KrillResult<()>);
pub assume_specification [CaStatusStore::set_child_failure] (s: &CaStatusStore, ca: &CaHandle, c: &ChildHandle, ua: Option<String>, e: &Error) -> (r: KrillResult<()>);
pub assume_specification [UpdateChildRequest::unsuspend] () -> (r: UpdateChildRequest);
pub assume_specification [ChildState::is_suspended] (s: &ChildState) -> (r: bool);

// ---- the capability: this message was validated for this CA under the ID key registered for its sender ----
pub open spec fn validated_for(ca: CertAuth, m: provisioning::Message) -> bool {
    exists |cms: ProvisioningCms| cms_message(cms) == m && ca.children@.contains_key(msg_sender(m))
        && cms_valid(cms, ca.children@[msg_sender(m)].id_cert.public_key)
}
/// the CA aggregate stored under a handle (the store is an assumed external)
pub uninterp spec fn stored_ca(mgr: CaManager, h: CaHandle) -> Option<CertAuth>;
pub open spec fn validated6492(mgr: CaManager, h: CaHandle, m: provisioning::Message) -> bool {
    stored_ca(mgr, h) is Some && validated_for(stored_ca(mgr, h)->Some_0, m)
}
'''


def build():
    U = Unit('c12_rfc6492', 'C12', 'RFC 6492: processing requires a message validated under the sender\'s registered ID key; list/issue/revoke act for that CA and that sender')
    prelude.hashmap(U)
    prelude.strings(U)
    for t in ['CaHandle', 'ChildHandle', 'IdCertInfoRest', 'Base64', 'Hash', 'PublicKey']:
        U.opaque(t, 'Clone' if t != 'ChildHandle' else 'Clone, PartialEq, Eq, Hash')
    for t in ['Sender', 'Recipient', 'ProvisioningCms', 'DecodeError', 'ValidationError', 'Bytes', 'KrillRuntime', 'KrillSigner', 'CmsLogger', 'LogDir',
              'CaStatusStore', 'CaObjectsStore', 'TrustAnchorProxy', 'TrustAnchorSigner', 'Actor', 'UpdateChildRequest', 'ChildState', 'IssuanceRequest', 'RevocationRequest',
              'Rfc8183Id', 'RepositoryContact', 'ParentCaContact', 'ResourceClass', 'Routes', 'Rtas', 'AspaDefinitions', 'BgpSecDefinitions', 'UsedKeyState', 'ResourceSet']:
        U.opaque(t, '')
    U.opaque('ParentHandle', 'Clone, PartialEq, Eq, Hash')
    U.opaque('ResourceClassName', 'Clone, PartialEq, Eq, Hash')
    U.opaque('KeyIdentifier', 'Clone, Copy, PartialEq, Eq, Hash')
    U.outside(OUT)
    U.struct('src/api/ca.rs', 'IdCertInfo', derive=[])
    U.struct(CH, 'ChildDetails', derive=[])
    U.struct(CA, 'CertAuth', derive=[])
    U.struct(MGR, 'CaManager', derive=[])
    U.enum(ERR, 'Error', keep=['CaChildUnknown', 'CaUnknown', 'Custom'], derive=[])
    U.add(SPEC)
    U.free(U.const('src/constants.rs', None, 'TA_NAME'))
    km = 'obeys_key_model::<ChildHandle>()'
    U.impl('impl CertAuth', [
        U.fn(CA, 'CertAuth', 'handle', ensures=[('is_field', '*r == self.handle')]),
        U.fn(CA, 'CertAuth', 'get_child', requires=[('km', km)], ensures=[
            ('known', 'r is Ok <==> self.children@.contains_key(*child)'), ('details', 'r is Ok ==> *r->Ok_0 == self.children@[*child]')]),
        U.fn(CA, 'CertAuth', 'verify_rfc6492', requires=[('km', km)], ensures=[
            ('only_registered_identity_key', '''r is Ok ==> self.children@.contains_key(msg_sender(cms_message(cms)))
                && cms_valid(cms, self.children@[msg_sender(cms_message(cms))].id_cert.public_key)'''),
            ('returns_the_signed_message', 'r is Ok ==> r->Ok_0 == cms_message(cms) && validated_for(*self, r->Ok_0)'),
            ('unknown_child_or_bad_signature_refused', '''(!self.children@.contains_key(msg_sender(cms_message(cms)))
                || !cms_valid(cms, self.children@[msg_sender(cms_message(cms))].id_cert.public_key)) ==> r is Err'''),
        ]),
        U.fn(CA, 'CertAuth', 'sign_rfc6492_response', external_body=True),
    ])
    U.impl('impl CaManager', [
        U.fn(MGR, 'CaManager', 'get_ca', external_body=True, ensures=[
            ('is_stored', 'r is Ok ==> stored_ca(*self, *handle) == Some(*r->Ok_0)')]),
        U.fn(MGR, 'CaManager', 'ca_child_update', external_body=True),
        U.fn(MGR, 'CaManager', 'rfc6492_validate_request', requires=[('km', km)], ensures=[
            ('validated_under_registered_key', 'r is Ok ==> validated_for(*ca, r->Ok_0)'),
            ('undecodable_refused', 'cms_decode(bytes_of(*msg_bytes)) is None ==> r is Err')]),
        # the three protocol actions: bodies assumed; they REQUIRE that a message validated for THIS CA names THIS child as sender
        U.fn(MGR, 'CaManager', 'rfc6492_revoke', external_body=True, requires=[
            ('acts_for_validated_sender', 'exists |m: provisioning::Message| validated6492(*self, *ca_handle, m) && child == msg_sender(m)')]),
        U.fn(MGR, 'CaManager', 'rfc6492_list', external_body=True, requires=[
            ('acts_for_validated_sender', 'exists |m: provisioning::Message| validated6492(*self, *ca_handle, m) && *child == msg_sender(m)')]),
        U.fn(MGR, 'CaManager', 'rfc6492_issue', external_body=True, requires=[
            ('acts_for_validated_sender', 'exists |m: provisioning::Message| validated6492(*self, *ca_handle, m) && child_handle == msg_sender(m)')]),
        U.fn(MGR, 'CaManager', 'rfc6492_process_request', requires=[('km', km),
             ('message_validated_for_this_ca', 'validated6492(*self, *ca_handle, req_msg)')]),
        U.fn(MGR, 'CaManager', 'rfc6492', requires=[('km', km)]),
    ])
    return U
