"""C10: RepositoryContent::{objects_for_publisher, process_publish, process_remove_publisher}: list/verification view is
current + staged; a delta is staged exactly when it verifies against that view; removal withdraws exactly that view."""
from vxlib import Unit
from units import prelude
from units.c10_current import SPEC, prelude_c10

RR = 'src/server/pubd/rrdp.rs'
CT = 'src/server/pubd/content.rs'

SPEC2 = r'''
pub uninterp spec fn snap_objs(r: RrdpServer, p: PublisherHandle) -> Option<CurrentObjects>;
pub uninterp spec fn staged_of(r: RrdpServer, p: PublisherHandle) -> Option<StagedElements>;
pub uninterp spec fn into_delta(s: StagedElements) -> DeltaElements;
pub uninterp spec fn withdraws_of(m: OView) -> Seq<WithdrawElement>;
pub uninterp spec fn snapshot_of(r: RrdpServer) -> SnapshotData;
impl RrdpServer {
    #[verifier::external_body]
    pub fn snapshot(&self) -> (s: &SnapshotData) ensures *s == snapshot_of(*self) { unimplemented!() }
    #[verifier::external_body]
    pub fn get_publisher_staged(&self, p: &PublisherHandle) -> (o: Option<&StagedElements>)
        ensures match o { Some(c) => staged_of(*self, *p) == Some(*c), None => staged_of(*self, *p) is None } { unimplemented!() }
}
impl SnapshotData {
    #[verifier::external_body]
    pub fn get_publisher_objects(&self, p: &PublisherHandle) -> (o: Option<&CurrentObjects>)
        ensures forall |r: RrdpServer| *self == snapshot_of(r) ==> (match o { Some(c) => #[trigger] snap_objs(r, *p) == Some(*c), None => snap_objs(r, *p) is None }) { unimplemented!() }
}
impl vstd::std_specs::convert::FromSpecImpl<StagedElements> for DeltaElements {
    open spec fn obeys_from_spec() -> bool { true }
    open spec fn from_spec(v: StagedElements) -> DeltaElements { into_delta(v) }
}
// `into_delta` is only a NAME for the conversion here; the conversion itself is verified in unit c10_into_delta (R19)
impl From<StagedElements> for DeltaElements { #[verifier::external_body] fn from(staged: StagedElements) -> (r: Self) ensures r == into_delta(staged) { unimplemented!() } }
pub assume_specification<T> [<T as std::borrow::ToOwned>::to_owned] (x: &T) -> (r: T) where T: std::clone::Clone, ensures r == *x;
pub assume_specification [RepositoryContentError::from_delta] (e: PublicationDeltaError) -> (r: Error);

/// what the publisher currently holds, including changes not yet visible in RRDP
pub open spec fn visible(c: RepositoryContent, p: PublisherHandle) -> OView {
    match (snap_objs(c.rrdp, p), staged_of(c.rrdp, p)) {
        (None, None) => Map::empty(),
        (None, Some(s)) => apply_delta_spec(Map::empty(), into_delta(s)),
        (Some(cur), None) => cur.0@,
        (Some(cur), Some(s)) => apply_delta_spec(cur.0@, into_delta(s)),
    }
}
pub open spec fn cow_val(c: Cow<'_, CurrentObjects>) -> CurrentObjects { match c { Cow::Borrowed(b) => *b, Cow::Owned(o) => o } }
pub uninterp spec fn cow_ref<'a, T: ?Sized + std::marker::MetaSized + ToOwned>(c: Cow<'a, T>) -> &'a T;
pub assume_specification<'a, 'b, T: ?Sized + std::marker::MetaSized + ToOwned> [<Cow<'a, T> as std::ops::Deref>::deref] (c: &'b Cow<'a, T>) -> (r: &'b T)
    ensures r == cow_ref(*c);
/// ASSUMED: dereferencing a Cow yields the borrowed or owned value
pub broadcast proof fn axiom_cow_ref(c: Cow<'_, CurrentObjects>)
    ensures *(#[trigger] cow_ref(c)) == cow_val(c) { admit(); }
pub open spec fn delta_len(d: DeltaElements) -> int { (d.publishes@.len() + d.updates@.len() + d.withdraws@.len()) as int }
'''


def build():
    U = Unit('c10_content', 'C10', 'publisher view = current (+) staged; publish staged exactly when it verifies against that view; removal withdraws that view')
    prelude_c10(U)
    U.feature('sized_hierarchy')
    U.outside('use std::borrow::Cow;')
    U.opaque('PublisherHandle', 'Clone, PartialEq, Eq, Hash')
    U.opaque('RrdpServer', '')
    U.opaque('RsyncdStore', '')
    U.opaque('SnapshotData', '')
    U.opaque('StagedElements', 'Clone')
    U.opaque('ListReply', '')
    U.opaque('RrdpSessionReset', '')
    U.opaque('RrdpUpdated', '')
    U.opaque('Error', '')
    U.opaque('RepositoryContentError', '')
    U.outside('''
pub type KrillResult<T> = Result<T, Error>;
impl RepositoryContentError { pub fn from_delta(_e: PublicationDeltaError) -> Error { unimplemented!() } }
impl From<PublicationDeltaError> for Error { fn from(e: PublicationDeltaError) -> Self { RepositoryContentError::from_delta(e) } }
''')
    for st in ['PublishElement', 'UpdateElement', 'WithdrawElement', 'DeltaElements']:
        U.struct(RR, st, derive=[])
    U.struct(RR, 'CurrentObjects', derive=['Clone'], default_ensures=[('empty', 'r.0@ == Map::<CurrentObjectUri, Base64>::empty()')])
    U.struct(CT, 'RepositoryContent', derive=[])
    U.enum(CT, 'RepositoryContentChange', derive=[])
    U.add(SPEC)
    U.add(SPEC2)
    km = 'obeys_key_model::<CurrentObjectUri>()'
    U.impl('impl From<uri::Rsync> for CurrentObjectUri', [
        U.fn(RR, 'CurrentObjectUri', 'from', trait_full='From<uri::Rsync>', ensures=[('same_key', 'r == key_of(value)')]),
    ])
    U.impl('impl DeltaElements', [
        U.fn(RR, 'DeltaElements', 'new', ensures=[('fields', 'r.publishes == publishes, r.updates == updates, r.withdraws == withdraws')]),
        U.fn(RR, 'DeltaElements', 'len', requires=[('no_overflow', 'delta_len(*self) <= usize::MAX')], ensures=[('sum', 'r == delta_len(*self)')]),
        U.fn(RR, 'DeltaElements', 'is_empty', requires=[('no_overflow', 'delta_len(*self) <= usize::MAX')], ensures=[('iff_no_elements', 'r == (delta_len(*self) == 0)')]),
    ])
    U.impl('impl CurrentObjects', [
        U.fn(RR, 'CurrentObjects', 'is_empty', requires=[('key_model', km)], ensures=[('iff_empty', 'r == (self.0@.len() == 0)')]),
        # contracts proved in unit c10_current; assumed here (same clause text)
        U.fn(RR, 'CurrentObjects', 'apply_delta', external_body=True, requires=[('key_model', km)],
             ensures=[('is_map_level_spec', 'final(self).0@ == apply_delta_spec(old(self).0@, delta)')]),
        U.fn(RR, 'CurrentObjects', 'verify_delta_applies', external_body=True, requires=[('key_model', km)],
             ensures=[('accepted_exactly_when', 'r is Ok <==> delta_ok(self.0@, *delta, *jail)')]),
        U.fn(RR, 'CurrentObjects', 'try_to_withdraw_elements', external_body=True,
             ensures=[('all_objects', 'r is Ok ==> r->Ok_0@ == withdraws_of(self.0@)')]),
    ])
    U.impl('impl RepositoryContent', [
        U.fn(CT, 'RepositoryContent', 'objects_for_publisher', requires=[('key_model', km)],
             ensures=[('current_plus_staged', 'cow_val(r).0@ == visible(*self, *publisher)')]),
        U.fn(CT, 'RepositoryContent', 'process_publish', requires=[('key_model', km), ('no_overflow', 'delta_len(delta) <= usize::MAX')],
             ghost=[(('body_start',), 'broadcast use axiom_cow_ref;')],
             ensures=[
                 ('applied_exactly_when', '(r is Ok) <==> (delta_len(delta) == 0 || delta_ok(visible(*self, publisher), delta, jail))'),
                 ('completely_or_not_at_all', '''r is Ok ==> (if delta_len(delta) == 0 { r->Ok_0@.len() == 0 }
                    else { r->Ok_0@ == seq![RepositoryContentChange::RrdpDeltaStaged { publisher, delta }] })''')]),
        U.fn(CT, 'RepositoryContent', 'process_remove_publisher', requires=[('key_model', km)],
             ghost=[(('body_start',), 'broadcast use axiom_cow_ref;')],
             ensures=[('withdraws_exactly_its_objects', '''r is Ok ==> (if visible(*self, publisher).len() == 0 { r->Ok_0@.len() == 0 }
                    else { r->Ok_0@.len() == 1 && r->Ok_0@[0] is RrdpDeltaStaged && r->Ok_0@[0]->RrdpDeltaStaged_publisher == publisher
                        && r->Ok_0@[0]->RrdpDeltaStaged_delta.publishes@.len() == 0 && r->Ok_0@[0]->RrdpDeltaStaged_delta.updates@.len() == 0
                        && r->Ok_0@[0]->RrdpDeltaStaged_delta.withdraws@ == withdraws_of(visible(*self, publisher)) })''')]),
    ])
    return U
