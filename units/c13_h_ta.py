from units.c13_handlers import build_file


def extra(U):
    U.enum('src/commons/error.rs', 'Error', keep=['NotImplemented'], derive=[])
    U.outside('''
pub fn ta_handle() -> CaHandle { unimplemented!() }
impl ParentResponse { pub fn to_xml_vec(&self) -> Vec<u8> { unimplemented!() } }
impl PublisherRequest { pub fn to_xml_vec(&self) -> Vec<u8> { unimplemented!() } }
''')
    U.add('''
pub assume_specification [ta_handle] () -> (r: CaHandle) ensures r == ta_handle_spec();
pub assume_specification [ParentResponse::to_xml_vec] (x: &ParentResponse) -> (r: Vec<u8>);
pub assume_specification [PublisherRequest::to_xml_vec] (x: &PublisherRequest) -> (r: Vec<u8>);
''')
    # helper of cas.rs used by the TA repository update: receives no request/server value (cannot reach the facade)
    U.inside_cas_helper = True


def build():
    U = build_file('ta.rs', 'c13_h_ta', 'route table /api/v1/ta/**: every facade call needs ca-admin (trust anchor module)', skip=(), extra=extra)
    return U
