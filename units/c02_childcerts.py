"""C02: ChildCertificates -- a key has at most one certificate record (issued XOR suspended), whatever the child's suspension
history; when the issuer's resources shrink every over-claiming certificate (issued or suspended) is re-issued with exactly the
part both still hold, or revoked when nothing is left; certificates that are still contained are left alone."""
from vxlib import Unit
from units import prelude

CH = 'src/server/ca/child.rs'
CA = 'src/api/ca.rs'

SPEC = r'''
pub uninterp spec fn rs_contains(a: ResourceSet, b: ResourceSet) -> bool;
pub uninterp spec fn rs_intersection(a: ResourceSet, b: ResourceSet) -> ResourceSet;
pub uninterp spec fn rs_is_empty(a: ResourceSet) -> bool;
pub assume_specification [ResourceSet::contains] (a: &ResourceSet, b: &ResourceSet) -> (r: bool) ensures r == rs_contains(*a, *b);
pub assume_specification [ResourceSet::intersection] (a: &ResourceSet, b: &ResourceSet) -> (r: ResourceSet) ensures r == rs_intersection(*a, *b);
pub assume_specification [ResourceSet::is_empty] (a: &ResourceSet) -> (r: bool) ensures r == rs_is_empty(*a);
pub uninterp spec fn csr_key(c: CsrInfo) -> KeyIdentifier;
pub assume_specification [CsrInfo::key_id] (c: &CsrInfo) -> (r: KeyIdentifier) ensures r == csr_key(*c);
/// the representation invariant of the per-class certificate store: records are filed under their own key, and a key is
/// either issued or suspended, never both
pub uninterp spec fn limit_apply(l: RequestResourceLimit, r: ResourceSet) -> ResourceSet;
pub open spec fn is_key(k: KeyIdentifier, c: CsrInfo) -> bool { csr_key(c) == k }
/// what the property demands of the update set for one certificate `c` of the store when the issuer's certificate becomes `new`
pub open spec fn shrunk_issued(u: ChildCertificateUpdates, res: ResourceSet, lim: RequestResourceLimit, k: KeyIdentifier, new: ResourceSet) -> bool {
    if rs_contains(new, res) { true }
    else if rs_is_empty(rs_intersection(new, res)) { u.removed@.contains(k) }
    else { exists |i: int| 0 <= i < u.issued@.len() && is_key(k, (#[trigger] u.issued@[i]).csr_info)
            && u.issued@[i].resources == limit_apply(lim, rs_intersection(new, res)) && rs_contains(new, u.issued@[i].resources) }
}
pub open spec fn shrunk_suspended(u: ChildCertificateUpdates, res: ResourceSet, lim: RequestResourceLimit, k: KeyIdentifier, new: ResourceSet) -> bool {
    if rs_contains(new, res) { true }
    else if rs_is_empty(rs_intersection(new, res)) { u.removed@.contains(k) }
    else { exists |i: int| 0 <= i < u.suspended@.len() && is_key(k, (#[trigger] u.suspended@[i]).csr_info)
            && u.suspended@[i].resources == limit_apply(lim, rs_intersection(new, res)) && rs_contains(new, u.suspended@[i].resources) }
}
pub open spec fn wf(c: ChildCertificates) -> bool {
    &&& forall |k: KeyIdentifier| c.issued@.contains_key(k) ==> csr_key(#[trigger] c.issued@[k].csr_info) == k
    &&& forall |k: KeyIdentifier| c.suspended@.contains_key(k) ==> csr_key(#[trigger] c.suspended@[k].csr_info) == k
    &&& forall |k: KeyIdentifier| !(#[trigger] c.issued@.contains_key(k) && c.suspended@.contains_key(k))
}
'''


def build():
    U = Unit('c02_childcerts', 'C02', 'per-class child certificate store: one record per key (issued XOR suspended) is preserved by every operation')
    prelude.hashmap(U)
    prelude.strings(U)
    U.opaque('KeyIdentifier', 'Clone, Copy, PartialEq, Eq, Hash')
    U.opaque('Hash', 'Clone, Copy')
    for t in ['ObjectName', 'ResourceSet', 'RequestResourceLimit', 'Name', 'CsrInfo', 'Base64', 'Issued', 'Suspended', 'Unsuspended']:
        U.opaque(t, 'Clone')
    U.opaque('Rsync', 'Clone', module='uri')
    U.opaque('Validity', 'Clone, Copy')
    U.opaque('Serial', 'Clone, Copy')
    U.outside('''
pub type IssuedCertificate = CertInfo<Issued>;
pub type SuspendedCert = CertInfo<Suspended>;
pub type UnsuspendedCert = CertInfo<Unsuspended>;
impl ResourceSet {
    pub fn contains(&self, _o: &ResourceSet) -> bool { unimplemented!() }
    pub fn intersection(&self, _o: &ResourceSet) -> ResourceSet { unimplemented!() }
    pub fn is_empty(&self) -> bool { unimplemented!() }
}
impl CsrInfo { pub fn key_id(&self) -> KeyIdentifier { unimplemented!() } }
''')
    U.struct(CA, 'CertInfo', derive=['Clone'])
    U.struct(CH, 'ChildCertificates', derive=[])
    U.add(SPEC)
    km = 'obeys_key_model::<KeyIdentifier>()'
    U.impl('impl<T> CertInfo<T>', [
        U.fn(CA, 'CertInfo', 'key_identifier', ensures=[('is_csr_key', 'r == csr_key(self.csr_info)')]),
        U.fn(CA, 'CertInfo', 'into_converted', ensures=[('same_content', 'r.csr_info == self.csr_info && r.resources == self.resources && r.limit == self.limit && r.serial == self.serial && r.name == self.name')]),
        U.fn(CA, 'CertInfo', 'to_converted', ensures=[('same_content', 'r.csr_info == self.csr_info && r.resources == self.resources && r.limit == self.limit && r.serial == self.serial && r.name == self.name')]),
        U.fn(CA, 'CertInfo', 'reduced_applicable_resources', ensures=[
            ('none_iff_contained', 'r is None <==> rs_contains(*encompassing, self.resources)'),
            ('some_is_intersection', 'r is Some ==> r->Some_0 == rs_intersection(*encompassing, self.resources)')]),
    ])
    U.impl('impl ChildCertificates', [
        U.fn(CH, 'ChildCertificates', 'add_issued_certificate', requires=[('km', km), ('wf', 'wf(*old(self))')], ensures=[
            ('one_record_per_key', 'wf(*final(self))'),
            ('issued', 'final(self).issued@.contains_key(csr_key(issued.csr_info)) && final(self).issued@[csr_key(issued.csr_info)] == issued')]),
        U.fn(CH, 'ChildCertificates', 'unsuspend_certificate', requires=[('km', km), ('wf', 'wf(*old(self))')], ensures=[('one_record_per_key', 'wf(*final(self))')]),
        U.fn(CH, 'ChildCertificates', 'suspend_certificate', requires=[('km', km), ('wf', 'wf(*old(self))')], ensures=[
            ('one_record_per_key', 'wf(*final(self))'),
            ('suspended', 'final(self).suspended@.contains_key(csr_key(suspended.csr_info)) && !final(self).issued@.contains_key(csr_key(suspended.csr_info))')]),
        U.fn(CH, 'ChildCertificates', 'remove_revoked_key', requires=[('km', km), ('wf', 'wf(*old(self))')], ensures=[
            ('one_record_per_key', 'wf(*final(self))'),
            ('gone', '!final(self).issued@.contains_key(*key) && !final(self).suspended@.contains_key(*key)')]),
    ])
    MISC = 'src/commons/crypto/signing/misc.rs'
    for t in ['ReceivedCertMarker', 'IssuanceTimingConfig', 'KrillSigner']:
        U.opaque(t, '')
    U.opaque('Error', '')
    U.outside("""
pub type KrillResult<T> = Result<T, Error>;
pub type ReceivedCert = CertInfo<ReceivedCertMarker>;
impl IssuanceTimingConfig { pub fn new_child_cert_validity(&self) -> Validity { unimplemented!() } }
pub struct SignSupport;
""")
    U.add("pub assume_specification [IssuanceTimingConfig::new_child_cert_validity] (a: &IssuanceTimingConfig) -> (r: Validity);")
    U.struct(CH, 'ChildCertificateUpdates', derive=['Default'], default_ensures=[('empty', 'r.issued@.len() == 0 && r.removed@.len() == 0 && r.suspended@.len() == 0 && r.unsuspended@.len() == 0')])
    U.impl('impl SignSupport', [
        # assumed here, verified against the same contract in unit c02_issue
        U.fn(MISC, 'SignSupport', 'make_issued_cert', external_body=True, ensures=[
            ('ok', """r is Ok ==> csr_key(r->Ok_0.csr_info) == csr_key(csr) && r->Ok_0.limit == limit
                && r->Ok_0.resources == limit_apply(limit, *resources) && rs_contains(signing_cert.resources, r->Ok_0.resources)""")]),
    ])
    reissue_post = [('same_key_narrowed_contained', """r is Ok ==> csr_key(r->Ok_0.csr_info) == csr_key(previous.csr_info) && r->Ok_0.limit == previous.limit
            && r->Ok_0.resources == limit_apply(previous.limit, match updated_resources { Some(x) => x, None => previous.resources })
            && rs_contains(signing_cert.resources, r->Ok_0.resources)""")]
    new = 'received_cert.resources'
    U.impl('impl ChildCertificates', [
        U.fn(CH, 'ChildCertificates', 're_issue', ensures=reissue_post,
             closures={0: {'header': '|| -> (o: ResourceSet)', 'ensures': 'o == previous.resources'}}),
        U.fn(CH, 'ChildCertificates', 'shrink_overclaiming', requires=[('km', km), ('wf', 'wf(*self)')], ensures=[
            ('every_overclaiming_issued_cert_shrunk_or_revoked', f"""r is Ok ==> forall |k: KeyIdentifier| #[trigger] self.issued@.contains_key(k) ==>
                    shrunk_issued(r->Ok_0, self.issued@[k].resources, self.issued@[k].limit, k, {new})"""),
            ('every_overclaiming_suspended_cert_shrunk_or_revoked', f"""r is Ok ==> forall |k: KeyIdentifier| #[trigger] self.suspended@.contains_key(k) ==>
                    shrunk_suspended(r->Ok_0, self.suspended@[k].resources, self.suspended@[k].limit, k, {new})"""),
            ('reissued_only_overclaiming_issued', f"""r is Ok ==> forall |i: int| 0 <= i < r->Ok_0.issued@.len() ==> self.issued@.contains_key(csr_key((#[trigger] r->Ok_0.issued@[i]).csr_info))
                    && !rs_contains({new}, self.issued@[csr_key(r->Ok_0.issued@[i].csr_info)].resources) && rs_contains({new}, r->Ok_0.issued@[i].resources)"""),
            ('suspended_only_overclaiming_suspended', f"""r is Ok ==> forall |i: int| 0 <= i < r->Ok_0.suspended@.len() ==> self.suspended@.contains_key(csr_key((#[trigger] r->Ok_0.suspended@[i]).csr_info))
                    && !rs_contains({new}, self.suspended@[csr_key(r->Ok_0.suspended@[i].csr_info)].resources)"""),
            ('removed_only_with_nothing_left', f"""r is Ok ==> forall |i: int| 0 <= i < r->Ok_0.removed@.len() ==> {{ let k = #[trigger] r->Ok_0.removed@[i];
                    (self.issued@.contains_key(k) && rs_is_empty(rs_intersection({new}, self.issued@[k].resources)))
                    || (self.suspended@.contains_key(k) && rs_is_empty(rs_intersection({new}, self.suspended@[k].resources))) }}"""),
            ('nothing_unsuspended', 'r is Ok ==> r->Ok_0.unsuspended@.len() == 0'),
        ], loops={
            0: {'iter': 'vx_it', 'invariant': [
                ('pre', f'{km} && wf(*self) && updated_resources == &{new}'),
                ('all', 'vx_it.seq().unref().to_set() == self.issued@.values()'),
                ('done_or_to_come', f"""forall |v: IssuedCertificate| #[trigger] self.issued@.values().contains(v) ==>
                    shrunk_issued(updates, v.resources, v.limit, csr_key(v.csr_info), {new})
                    || (exists |j: int| vx_it.index@ <= j < vx_it.seq().len() && #[trigger] vx_it.seq().unref()[j] == v)"""),
                ('only_issued', f"""forall |i: int| 0 <= i < updates.issued@.len() ==> self.issued@.contains_key(csr_key((#[trigger] updates.issued@[i]).csr_info))
                    && !rs_contains({new}, self.issued@[csr_key(updates.issued@[i].csr_info)].resources) && rs_contains({new}, updates.issued@[i].resources)"""),
                ('only_removed', f"""forall |i: int| 0 <= i < updates.removed@.len() ==> {{ let k = #[trigger] updates.removed@[i];
                    self.issued@.contains_key(k) && rs_is_empty(rs_intersection({new}, self.issued@[k].resources)) }}"""),
                ('rest', 'updates.suspended@.len() == 0 && updates.unsuspended@.len() == 0'),
            ]},
            1: {'iter': 'vx_it', 'invariant': [
                ('pre', f'{km} && wf(*self) && updated_resources == &{new}'),
                ('all', 'vx_it.seq().unref().to_set() == self.suspended@.values()'),
                ('issued_done', f"""forall |k: KeyIdentifier| #[trigger] self.issued@.contains_key(k) ==>
                    shrunk_issued(updates, self.issued@[k].resources, self.issued@[k].limit, k, {new})"""),
                ('done_or_to_come', f"""forall |v: SuspendedCert| #[trigger] self.suspended@.values().contains(v) ==>
                    shrunk_suspended(updates, v.resources, v.limit, csr_key(v.csr_info), {new})
                    || (exists |j: int| vx_it.index@ <= j < vx_it.seq().len() && #[trigger] vx_it.seq().unref()[j] == v)"""),
                ('only_issued', f"""forall |i: int| 0 <= i < updates.issued@.len() ==> self.issued@.contains_key(csr_key((#[trigger] updates.issued@[i]).csr_info))
                    && !rs_contains({new}, self.issued@[csr_key(updates.issued@[i].csr_info)].resources) && rs_contains({new}, updates.issued@[i].resources)"""),
                ('only_suspended', f"""forall |i: int| 0 <= i < updates.suspended@.len() ==> self.suspended@.contains_key(csr_key((#[trigger] updates.suspended@[i]).csr_info))
                    && !rs_contains({new}, self.suspended@[csr_key(updates.suspended@[i].csr_info)].resources)"""),
                ('only_removed', f"""forall |i: int| 0 <= i < updates.removed@.len() ==> {{ let k = #[trigger] updates.removed@[i];
                    (self.issued@.contains_key(k) && rs_is_empty(rs_intersection({new}, self.issued@[k].resources)))
                    || (self.suspended@.contains_key(k) && rs_is_empty(rs_intersection({new}, self.suspended@[k].resources))) }}"""),
                ('rest', 'updates.unsuspended@.len() == 0'),
            ]},
        },
        ghost=[
            (('loop_start', 0), f"""let ghost g_u = updates; let ghost g_i = vx_it.index@ as int;
            proof {{
                assert(*issued == vx_it.seq().unref()[g_i]);
                assert(vx_it.seq().unref().to_set().contains(*issued));
                assert(self.issued@.values().contains(*issued));
            }}
            let ghost g_k = choose |k: KeyIdentifier| self.issued@.contains_key(k) && self.issued@[k] == *issued;
            proof {{ assert(self.issued@.contains_key(g_k)); assert(csr_key(self.issued@[g_k].csr_info) == g_k); }}"""),
            (('loop_end', 0), f"""proof {{
                if !rs_contains({new}, issued.resources) {{
                    if rs_is_empty(rs_intersection({new}, issued.resources)) {{
                        assert(updates.removed@[updates.removed@.len() - 1] == g_k);
                    }} else {{
                        assert(is_key(g_k, updates.issued@[updates.issued@.len() - 1].csr_info));
                    }}
                }}
                /*@this_certificate_handled*/ assert(shrunk_issued(updates, issued.resources, issued.limit, g_k, {new}));
                assert forall |v: IssuedCertificate| #[trigger] self.issued@.values().contains(v) implies
                    shrunk_issued(updates, v.resources, v.limit, csr_key(v.csr_info), {new})
                    || (exists |j: int| g_i + 1 <= j < vx_it.seq().len() && #[trigger] vx_it.seq().unref()[j] == v) by {{
                    if v == *issued {{
                    }} else if shrunk_issued(g_u, v.resources, v.limit, csr_key(v.csr_info), {new}) {{
                        lemma_shrunk_issued_mono(g_u, updates, v.resources, v.limit, csr_key(v.csr_info), {new});
                    }} else {{
                        let j = choose |j: int| g_i <= j < vx_it.seq().len() && #[trigger] vx_it.seq().unref()[j] == v;
                        assert(j != g_i);
                    }}
                }}
                assert forall |i: int| 0 <= i < updates.issued@.len() implies self.issued@.contains_key(csr_key((#[trigger] updates.issued@[i]).csr_info))
                    && !rs_contains({new}, self.issued@[csr_key(updates.issued@[i].csr_info)].resources) && rs_contains({new}, updates.issued@[i].resources) by {{
                    if i < g_u.issued@.len() {{ assert(updates.issued@[i] == g_u.issued@[i]); }}
                }}
                assert forall |i: int| 0 <= i < updates.removed@.len() implies {{ let k = #[trigger] updates.removed@[i];
                    self.issued@.contains_key(k) && rs_is_empty(rs_intersection({new}, self.issued@[k].resources)) }} by {{
                    if i < g_u.removed@.len() {{ assert(updates.removed@[i] == g_u.removed@[i]); }}
                }}
            }}"""),
            (('after_loop', 0), f"""proof {{
                assert forall |k: KeyIdentifier| #[trigger] self.issued@.contains_key(k) implies
                    shrunk_issued(updates, self.issued@[k].resources, self.issued@[k].limit, k, {new}) by {{
                    assert(self.issued@.values().contains(self.issued@[k])); assert(csr_key(self.issued@[k].csr_info) == k);
                }}
            }}"""),
            (('after_loop', 1), f"""proof {{
                assert forall |k: KeyIdentifier| #[trigger] self.suspended@.contains_key(k) implies
                    shrunk_suspended(updates, self.suspended@[k].resources, self.suspended@[k].limit, k, {new}) by {{
                    assert(self.suspended@.values().contains(self.suspended@[k])); assert(csr_key(self.suspended@[k].csr_info) == k);
                }}
            }}"""),
            (('loop_start', 1), f"""let ghost g_u = updates; let ghost g_i = vx_it.index@ as int;
            proof {{
                assert(*suspended == vx_it.seq().unref()[g_i]);
                assert(vx_it.seq().unref().to_set().contains(*suspended));
                assert(self.suspended@.values().contains(*suspended));
            }}
            let ghost g_k = choose |k: KeyIdentifier| self.suspended@.contains_key(k) && self.suspended@[k] == *suspended;
            proof {{ assert(self.suspended@.contains_key(g_k)); assert(csr_key(self.suspended@[g_k].csr_info) == g_k); }}"""),
            (('loop_end', 1), f"""proof {{
                if !rs_contains({new}, suspended.resources) {{
                    if rs_is_empty(rs_intersection({new}, suspended.resources)) {{
                        assert(updates.removed@[updates.removed@.len() - 1] == g_k);
                    }} else {{
                        assert(is_key(g_k, updates.suspended@[updates.suspended@.len() - 1].csr_info));
                    }}
                }}
                /*@this_certificate_handled*/ assert(shrunk_suspended(updates, suspended.resources, suspended.limit, g_k, {new}));
                assert forall |k: KeyIdentifier| #[trigger] self.issued@.contains_key(k) implies
                    shrunk_issued(updates, self.issued@[k].resources, self.issued@[k].limit, k, {new}) by {{
                    lemma_shrunk_issued_mono(g_u, updates, self.issued@[k].resources, self.issued@[k].limit, k, {new});
                }}
                assert forall |v: SuspendedCert| #[trigger] self.suspended@.values().contains(v) implies
                    shrunk_suspended(updates, v.resources, v.limit, csr_key(v.csr_info), {new})
                    || (exists |j: int| g_i + 1 <= j < vx_it.seq().len() && #[trigger] vx_it.seq().unref()[j] == v) by {{
                    if v == *suspended {{
                    }} else if shrunk_suspended(g_u, v.resources, v.limit, csr_key(v.csr_info), {new}) {{
                        lemma_shrunk_suspended_mono(g_u, updates, v.resources, v.limit, csr_key(v.csr_info), {new});
                    }} else {{
                        let j = choose |j: int| g_i <= j < vx_it.seq().len() && #[trigger] vx_it.seq().unref()[j] == v;
                        assert(j != g_i);
                    }}
                }}
                assert forall |i: int| 0 <= i < updates.suspended@.len() implies self.suspended@.contains_key(csr_key((#[trigger] updates.suspended@[i]).csr_info))
                    && !rs_contains({new}, self.suspended@[csr_key(updates.suspended@[i].csr_info)].resources) by {{
                    if i < g_u.suspended@.len() {{ assert(updates.suspended@[i] == g_u.suspended@[i]); }}
                }}
                assert forall |i: int| 0 <= i < updates.removed@.len() implies {{ let k = #[trigger] updates.removed@[i];
                    (self.issued@.contains_key(k) && rs_is_empty(rs_intersection({new}, self.issued@[k].resources)))
                    || (self.suspended@.contains_key(k) && rs_is_empty(rs_intersection({new}, self.suspended@[k].resources))) }} by {{
                    if i < g_u.removed@.len() {{ assert(updates.removed@[i] == g_u.removed@[i]); }}
                }}
            }}"""),
        ]),
    ])
    U.add("""
/// an update set that only grew (prefix-preserving pushes) still satisfies what it satisfied before
pub open spec fn grew(a: ChildCertificateUpdates, b: ChildCertificateUpdates) -> bool {
    &&& a.issued@.len() <= b.issued@.len() && (forall |i: int| 0 <= i < a.issued@.len() ==> a.issued@[i] == b.issued@[i])
    &&& a.suspended@.len() <= b.suspended@.len() && (forall |i: int| 0 <= i < a.suspended@.len() ==> a.suspended@[i] == b.suspended@[i])
    &&& a.removed@.len() <= b.removed@.len() && (forall |i: int| 0 <= i < a.removed@.len() ==> a.removed@[i] == b.removed@[i])
}
pub proof fn lemma_shrunk_issued_mono(a: ChildCertificateUpdates, b: ChildCertificateUpdates, res: ResourceSet, lim: RequestResourceLimit, k: KeyIdentifier, new: ResourceSet)
    requires grew(a, b), shrunk_issued(a, res, lim, k, new) ensures shrunk_issued(b, res, lim, k, new)
{
    if rs_contains(new, res) {} else if rs_is_empty(rs_intersection(new, res)) {
        let i = choose |i: int| 0 <= i < a.removed@.len() && a.removed@[i] == k; assert(b.removed@[i] == k);
    } else {
        let i = choose |i: int| 0 <= i < a.issued@.len() && is_key(k, (#[trigger] a.issued@[i]).csr_info)
            && a.issued@[i].resources == limit_apply(lim, rs_intersection(new, res)) && rs_contains(new, a.issued@[i].resources);
        assert(b.issued@[i] == a.issued@[i]);
    }
}
pub proof fn lemma_shrunk_suspended_mono(a: ChildCertificateUpdates, b: ChildCertificateUpdates, res: ResourceSet, lim: RequestResourceLimit, k: KeyIdentifier, new: ResourceSet)
    requires grew(a, b), shrunk_suspended(a, res, lim, k, new) ensures shrunk_suspended(b, res, lim, k, new)
{
    if rs_contains(new, res) {} else if rs_is_empty(rs_intersection(new, res)) {
        let i = choose |i: int| 0 <= i < a.removed@.len() && a.removed@[i] == k; assert(b.removed@[i] == k);
    } else {
        let i = choose |i: int| 0 <= i < a.suspended@.len() && is_key(k, (#[trigger] a.suspended@[i]).csr_info)
            && a.suspended@[i].resources == limit_apply(lim, rs_intersection(new, res)) && rs_contains(new, a.suspended@[i].resources);
        assert(b.suspended@[i] == a.suspended@[i]);
    }
}
""")
    sc = 'signing_cert.resources'
    U.add("""
pub open spec fn reissued_in(s: Seq<CertInfo<Issued>>, res: ResourceSet, lim: RequestResourceLimit, k: KeyIdentifier, sc: ResourceSet) -> bool {
    exists |i: int| 0 <= i < s.len() && is_key(k, (#[trigger] s[i]).csr_info) && s[i].resources == limit_apply(lim, res) && rs_contains(sc, s[i].resources)
}
pub open spec fn reissued_in_s(s: Seq<CertInfo<Suspended>>, res: ResourceSet, lim: RequestResourceLimit, k: KeyIdentifier, sc: ResourceSet) -> bool {
    exists |i: int| 0 <= i < s.len() && is_key(k, (#[trigger] s[i]).csr_info) && s[i].resources == limit_apply(lim, res) && rs_contains(sc, s[i].resources)
}
""")
    def act_loop(kind, var, pred, T, others):
        return {'iter': 'vx_it', 'invariant': [
            ('pre', f'{km} && wf(*self)'),
            ('all', f'vx_it.seq().unref().to_set() == self.{kind}@.values()'),
            ('done_or_to_come', f"""forall |v: {T}| #[trigger] self.{kind}@.values().contains(v) ==>
                    {pred}(updates.{kind}@, v.resources, v.limit, csr_key(v.csr_info), {sc})
                    || (exists |j: int| vx_it.index@ <= j < vx_it.seq().len() && #[trigger] vx_it.seq().unref()[j] == v)"""),
            ('only', f"""forall |i: int| 0 <= i < updates.{kind}@.len() ==> self.{kind}@.contains_key(csr_key((#[trigger] updates.{kind}@[i]).csr_info))"""),
        ] + others}
    def act_ghost(n, kind, var, pred, T):
        return [
            (('loop_start', n), f"""let ghost g_s = updates.{kind}@; let ghost g_i = vx_it.index@ as int;
            proof {{
                assert(*{var} == vx_it.seq().unref()[g_i]);
                assert(vx_it.seq().unref().to_set().contains(*{var}));
                assert(self.{kind}@.values().contains(*{var}));
            }}
            let ghost g_k = choose |k: KeyIdentifier| self.{kind}@.contains_key(k) && self.{kind}@[k] == *{var};
            proof {{ assert(self.{kind}@.contains_key(g_k)); assert(csr_key(self.{kind}@[g_k].csr_info) == g_k); }}"""),
            (('loop_end', n), f"""proof {{
                assert(is_key(g_k, updates.{kind}@[updates.{kind}@.len() - 1].csr_info));
                /*@this_certificate_reissued*/ assert({pred}(updates.{kind}@, {var}.resources, {var}.limit, g_k, {sc}));
                assert forall |v: {T}| #[trigger] self.{kind}@.values().contains(v) implies
                    {pred}(updates.{kind}@, v.resources, v.limit, csr_key(v.csr_info), {sc})
                    || (exists |j: int| g_i + 1 <= j < vx_it.seq().len() && #[trigger] vx_it.seq().unref()[j] == v) by {{
                    if v == *{var} {{
                    }} else if {pred}(g_s, v.resources, v.limit, csr_key(v.csr_info), {sc}) {{
                        let i = choose |i: int| 0 <= i < g_s.len() && is_key(csr_key(v.csr_info), (#[trigger] g_s[i]).csr_info) && g_s[i].resources == limit_apply(v.limit, v.resources) && rs_contains({sc}, g_s[i].resources);
                        assert(updates.{kind}@[i] == g_s[i]);
                    }} else {{
                        let j = choose |j: int| g_i <= j < vx_it.seq().len() && #[trigger] vx_it.seq().unref()[j] == v;
                        assert(j != g_i);
                    }}
                }}
                assert forall |i: int| 0 <= i < updates.{kind}@.len() implies self.{kind}@.contains_key(csr_key((#[trigger] updates.{kind}@[i]).csr_info)) by {{
                    if i < g_s.len() {{ assert(updates.{kind}@[i] == g_s[i]); }}
                }}
            }}"""),
            (('after_loop', n), f"""proof {{
                assert forall |k: KeyIdentifier| #[trigger] self.{kind}@.contains_key(k) implies
                    {pred}(updates.{kind}@, self.{kind}@[k].resources, self.{kind}@[k].limit, k, {sc}) by {{
                    assert(self.{kind}@.values().contains(self.{kind}@[k])); assert(csr_key(self.{kind}@[k].csr_info) == k);
                }}
            }}"""),
        ]
    U.impl('impl ChildCertificates', [
        U.fn(CH, 'ChildCertificates', 'activate_key', requires=[('km', km), ('wf', 'wf(*self)')], ensures=[
            ('every_issued_cert_reissued_under_new_key', f"""r is Ok ==> forall |k: KeyIdentifier| #[trigger] self.issued@.contains_key(k) ==>
                    reissued_in(r->Ok_0.issued@, self.issued@[k].resources, self.issued@[k].limit, k, {sc})"""),
            ('every_suspended_cert_reissued_as_suspended', f"""r is Ok ==> forall |k: KeyIdentifier| #[trigger] self.suspended@.contains_key(k) ==>
                    reissued_in_s(r->Ok_0.suspended@, self.suspended@[k].resources, self.suspended@[k].limit, k, {sc})"""),
            ('issued_stay_issued', 'r is Ok ==> forall |i: int| 0 <= i < r->Ok_0.issued@.len() ==> self.issued@.contains_key(csr_key((#[trigger] r->Ok_0.issued@[i]).csr_info))'),
            ('only_suspended_are_suspended', 'r is Ok ==> forall |i: int| 0 <= i < r->Ok_0.suspended@.len() ==> self.suspended@.contains_key(csr_key((#[trigger] r->Ok_0.suspended@[i]).csr_info))'),
            ('nothing_removed', 'r is Ok ==> r->Ok_0.removed@.len() == 0 && r->Ok_0.unsuspended@.len() == 0'),
        ], loops={
            0: act_loop('issued', 'issued', 'reissued_in', 'IssuedCertificate', [('rest', 'updates.suspended@.len() == 0 && updates.removed@.len() == 0 && updates.unsuspended@.len() == 0')]),
            1: act_loop('suspended', 'suspended', 'reissued_in_s', 'SuspendedCert', [
                ('rest', 'updates.removed@.len() == 0 && updates.unsuspended@.len() == 0'),
                ('issued_done', f"""(forall |k: KeyIdentifier| #[trigger] self.issued@.contains_key(k) ==> reissued_in(updates.issued@, self.issued@[k].resources, self.issued@[k].limit, k, {sc}))
                    && (forall |i: int| 0 <= i < updates.issued@.len() ==> self.issued@.contains_key(csr_key((#[trigger] updates.issued@[i]).csr_info)))""")]),
        }, ghost=act_ghost(0, 'issued', 'issued', 'reissued_in', 'IssuedCertificate') + act_ghost(1, 'suspended', 'suspended', 'reissued_in_s', 'SuspendedCert')),
    ])
    return U
