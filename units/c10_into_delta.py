"""C10/C11 (nothing lost between staging and the delta): DeltaElements::from(StagedElements), the whole function -- every staged
element ends up in the list of its kind (publish / update / withdraw), nothing else does, and the three lists together have as many
entries as there are staged elements.  (Units c10_content / c11_rrdp / c11_update name this conversion `into_delta` /
`staged_as_delta` and leave it uninterpreted.)"""
from vxlib import Unit
from units import prelude

RR = 'src/server/pubd/rrdp.rs'

SPEC = r'''
/// the statement: the delta is exactly the staged elements, sorted by kind
pub open spec fn same_elements(staged: Map<uri::Rsync, DeltaElement>, d: DeltaElements) -> bool {
    &&& forall |v: DeltaElement| #[trigger] staged.values().contains(v) ==> match v {
            DeltaElement::Publish(p) => d.publishes@.contains(p),
            DeltaElement::Update(u) => d.updates@.contains(u),
            DeltaElement::Withdraw(w) => d.withdraws@.contains(w),
        }
    &&& forall |i: int| 0 <= i < d.publishes@.len() ==> staged.values().contains(DeltaElement::Publish(#[trigger] d.publishes@[i]))
    &&& forall |i: int| 0 <= i < d.updates@.len() ==> staged.values().contains(DeltaElement::Update(#[trigger] d.updates@[i]))
    &&& forall |i: int| 0 <= i < d.withdraws@.len() ==> staged.values().contains(DeltaElement::Withdraw(#[trigger] d.withdraws@[i]))
}
'''


def build():
    U = Unit('c10_into_delta', 'C10', 'staged elements -> delta: every staged element in the list of its kind, nothing else, as many entries as staged elements')
    prelude.hashmap(U)
    prelude.strings(U)
    U.opaque('Rsync', 'Clone, PartialEq, Eq, Hash', module='uri')
    for t in ['PublishElement', 'UpdateElement', 'WithdrawElement']:
        U.opaque(t, 'Clone')
    U.enum(RR, 'DeltaElement', derive=['Clone'])
    U.struct(RR, 'DeltaElements', derive=[])
    U.struct(RR, 'StagedElements', derive=[])
    U.add(SPEC)
    U.impl('impl DeltaElements', [
        U.fn(RR, 'DeltaElements', 'new', ensures=[('fields', 'r.publishes == publishes && r.updates == updates && r.withdraws == withdraws')]),
        U.fn(RR, 'DeltaElements', 'from', trait_full='From<StagedElements>', as_inherent=True, into_values_loops=(0,),
             attrs=['#[verifier::loop_isolation(false)]'],
             requires=[('km', 'obeys_key_model::<uri::Rsync>()')],
             ensures=[
                 ('exactly_the_staged_elements_by_kind', 'same_elements(staged.0@, r)'),
                 ('one_entry_per_staged_element', 'r.publishes@.len() + r.updates@.len() + r.withdraws@.len() == staged.0@.len()'),
             ],
             loops={0: {'iter': 'vx_it', 'invariant': [
                 ('all', 'vx_it.seq().unref().to_set() == staged.0@.values() && vx_it.seq().len() == staged.0@.len()'),
                 ('count', 'publishes@.len() + updates@.len() + withdraws@.len() == vx_it.index@'),
                 ('done_or_to_come', '''forall |v: DeltaElement| #[trigger] staged.0@.values().contains(v) ==>
                        (match v { DeltaElement::Publish(p) => publishes@.contains(p), DeltaElement::Update(u) => updates@.contains(u), DeltaElement::Withdraw(w) => withdraws@.contains(w) })
                        || exists |j: int| vx_it.index@ <= j < vx_it.seq().len() && *(#[trigger] vx_it.seq()[j]) == v'''),
                 ('only_staged_p', 'forall |i: int| 0 <= i < publishes@.len() ==> staged.0@.values().contains(DeltaElement::Publish(#[trigger] publishes@[i]))'),
                 ('only_staged_u', 'forall |i: int| 0 <= i < updates@.len() ==> staged.0@.values().contains(DeltaElement::Update(#[trigger] updates@[i]))'),
                 ('only_staged_w', 'forall |i: int| 0 <= i < withdraws@.len() ==> staged.0@.values().contains(DeltaElement::Withdraw(#[trigger] withdraws@[i]))'),
             ]}},
             ghost=[
                 (('loop_start', 0), '''let ghost g_p = publishes@; let ghost g_u = updates@; let ghost g_w = withdraws@; let ghost g_i = vx_it.index@ as int;
                    proof { assert(el == *vx_it.seq()[g_i]); assert(vx_it.seq().unref()[g_i] == el); assert(vx_it.seq().unref().to_set().contains(el)); }'''),
                 (('loop_end', 0), '''proof {
                    assert forall |v: DeltaElement| #[trigger] staged.0@.values().contains(v) implies
                        (match v { DeltaElement::Publish(p) => publishes@.contains(p), DeltaElement::Update(u) => updates@.contains(u), DeltaElement::Withdraw(w) => withdraws@.contains(w) })
                        || exists |j: int| g_i + 1 <= j < vx_it.seq().len() && *(#[trigger] vx_it.seq()[j]) == v by {
                        if v == el {
                            match el { DeltaElement::Publish(p) => { assert(publishes@[g_p.len() as int] == p); } DeltaElement::Update(u) => { assert(updates@[g_u.len() as int] == u); } DeltaElement::Withdraw(w) => { assert(withdraws@[g_w.len() as int] == w); } }
                        } else {
                            match v {
                                DeltaElement::Publish(p) => { if g_p.contains(p) { let i = choose |i: int| 0 <= i < g_p.len() && g_p[i] == p; assert(publishes@[i] == p); } else { let j = choose |j: int| g_i <= j < vx_it.seq().len() && *(#[trigger] vx_it.seq()[j]) == v; assert(j != g_i); } }
                                DeltaElement::Update(u) => { if g_u.contains(u) { let i = choose |i: int| 0 <= i < g_u.len() && g_u[i] == u; assert(updates@[i] == u); } else { let j = choose |j: int| g_i <= j < vx_it.seq().len() && *(#[trigger] vx_it.seq()[j]) == v; assert(j != g_i); } }
                                DeltaElement::Withdraw(w) => { if g_w.contains(w) { let i = choose |i: int| 0 <= i < g_w.len() && g_w[i] == w; assert(withdraws@[i] == w); } else { let j = choose |j: int| g_i <= j < vx_it.seq().len() && *(#[trigger] vx_it.seq()[j]) == v; assert(j != g_i); } }
                            }
                        }
                    }
                 }'''),
             ]),
    ])
    return U
