"""C20: unix_user::AuthProvider::authenticate -- a request arriving over the Unix socket acts as an identity only if the
peer user's name is in the configured map, and then under the mapped role and that user's name; an unmapped peer is an
error; no peer information is nobody."""
from vxlib import Unit
from units import prelude

UNIX = 'src/daemon/http/auth/providers/unix_user.rs'
ERR = 'src/commons/error.rs'

SPEC = r'''
/// the peer credentials the HTTP layer attached to the request (request extensions), uninterpreted
pub uninterp spec fn ext_get<T>(e: Extensions) -> Option<T>;
pub uninterp spec fn req_ext(r: HyperRequest) -> Extensions;
pub assume_specification [HyperRequest::extensions] (r: &HyperRequest) -> (e: &Extensions) ensures *e == req_ext(*r);
pub assume_specification<T> [Extensions::get::<T>] (e: &Extensions) -> (r: Option<&T>)
    ensures match r { Some(x) => ext_get::<T>(*e) == Some(*x), None => ext_get::<T>(*e) is None };
pub open spec fn peer(r: HyperRequest) -> Option<nix::unistd::User> { ext_get::<nix::unistd::User>(req_ext(r)) }
#[verifier::external_type_specification] pub struct ExConfig(Config);
pub assume_specification [Config::unix_users] (c: &Config) -> (r: &HashMap<String, String>) ensures *r == c.unix_users;
pub uninterp spec fn role_named(m: RoleMap, n: Seq<char>) -> Option<Arc<Role>>;
pub assume_specification [RoleMap::get] (m: &RoleMap, n: &str) -> (r: Option<Arc<Role>>) ensures r == role_named(*m, n@);
/// ASSUMED: a std String is determined by its characters (so a clone of a key is that key)
#[verifier::external_body]
pub broadcast proof fn axiom_string_ext(a: String, b: String) ensures #[trigger] a@ == #[trigger] b@ ==> a == b {}
pub uninterp spec fn auth_user(id: Seq<char>, role: Arc<Role>) -> AuthInfo;
pub assume_specification [AuthInfo::vx_user] (id: String, role: Arc<Role>) -> (a: AuthInfo) ensures a == auth_user(id@, role);
'''


def build():
    U = Unit('c20_unix', 'C20', 'Unix-socket provider: identity iff the peer user name is mapped; then that name under the mapped role; unmapped peer is an error')
    prelude.hashmap(U)
    prelude.strings(U)
    for t in ['HyperRequest', 'AuthInfo', 'Role', 'Token', 'Extensions', 'RoleMap']:
        U.opaque(t, '')
    U.outside('''
use std::sync::Arc;
pub mod nix { pub mod unistd { pub struct User { pub name: String } } }
impl HyperRequest { pub fn extensions(&self) -> &Extensions { unimplemented!() } }
impl Extensions { pub fn get<T>(&self) -> Option<&T> { unimplemented!() } }
impl AuthInfo { pub fn vx_user(_id: String, _r: Arc<Role>) -> Self { unimplemented!() } }
pub type KrillResult<T> = Result<T, Error>;
/// stand-in for krill::config::Config: the two fields the provider reads
pub struct Config { pub unix_users: HashMap<String, String>, pub auth_roles: Arc<RoleMap> }
impl Config { pub fn unix_users(&self) -> &HashMap<String, String> { &self.unix_users } }
impl RoleMap { pub fn get(&self, _n: &str) -> Option<Arc<Role>> { unimplemented!() } }
''')
    U.add('#[verifier::external_type_specification] pub struct ExNixUser(nix::unistd::User);')
    U.enum(ERR, 'ApiAuthError', keep=['ApiInvalidCredentials'], derive=[])
    U.enum(ERR, 'Error', keep=['ConfigError'], derive=[])
    U.struct(UNIX, 'AuthProvider', derive=[])
    U.add(SPEC)
    U.impl('impl AuthProvider', [
        U.fn(UNIX, 'AuthProvider', 'new', requires=[('km', 'obeys_key_model::<String>()')], hash_loops=(0,),
             ensures=[
                 ('exactly_the_configured_system_users_are_mapped', '''r is Ok ==> forall |u: String| #[trigger] r->Ok_0.unix_users@.contains_key(u) <==> config.unix_users@.contains_key(u)'''),
                 ('each_under_the_role_the_configuration_names', '''r is Ok ==> forall |u: String| #[trigger] r->Ok_0.unix_users@.contains_key(u) ==>
                        role_named(*config.auth_roles, config.unix_users@[u]@) == Some(r->Ok_0.unix_users@[u])'''),
             ],
             loops={0: {'iter': 'vx_it', 'invariant': [
                 ('km', 'obeys_key_model::<String>()'),
                 ('pairs', '''vx_it.seq().len() == config.unix_users@.len() && vx_it.seq().no_duplicates()
                        && (forall |i: int| 0 <= i < vx_it.seq().len() ==> config.unix_users@.contains_key(*(#[trigger] vx_it.seq()[i]).0) && config.unix_users@[*vx_it.seq()[i].0] == *vx_it.seq()[i].1)
                        && (forall |u: String| #[trigger] config.unix_users@.contains_key(u) ==> exists |i: int| 0 <= i < vx_it.seq().len() && *(#[trigger] vx_it.seq()[i]).0 == u)'''),
                 ('mapped_so_far', '''forall |u: String| #[trigger] unix_users@.contains_key(u) <==> exists |i: int| 0 <= i < vx_it.index@ && *(#[trigger] vx_it.seq()[i]).0 == u'''),
                 ('roles_so_far', '''forall |u: String| #[trigger] unix_users@.contains_key(u) ==> config.unix_users@.contains_key(u)
                        && role_named(*config.auth_roles, config.unix_users@[u]@) == Some(unix_users@[u])'''),
             ]}},
             ghost=[(('loop_start', 0), '''broadcast use axiom_string_ext; let ghost g_i = vx_it.index@ as int; let ghost g_map = unix_users@;
                proof { assert(*k == *vx_it.seq()[g_i].0 && *v == *vx_it.seq()[g_i].1); }'''),
                    (('loop_end', 0), '''proof {
                    assert(unix_users@ =~= g_map.insert(*k, unix_users@[*k]));
                    assert forall |u: String| #[trigger] unix_users@.contains_key(u) <==> exists |i: int| 0 <= i < g_i + 1 && *(#[trigger] vx_it.seq()[i]).0 == u by {
                        if u == *k { assert(*vx_it.seq()[g_i].0 == u); }
                        else if g_map.contains_key(u) { let j = choose |j: int| 0 <= j < g_i && *(#[trigger] vx_it.seq()[j]).0 == u; assert(*vx_it.seq()[j].0 == u); }
                    }
                }''')]),
        U.fn(UNIX, 'AuthProvider', 'authenticate',
             subst=[('AuthInfo::user(', 'AuthInfo::vx_user(', 'R9')],
             requires=[('km', 'obeys_key_model::<String>()')],
             ensures=[
                 ('accepted_iff_peer_is_mapped', '(r is Ok && r->Ok_0 is Some) <==> (peer(*request) is Some && self.unix_users@.contains_key(peer(*request)->Some_0.name))'),
                 ('acts_as_that_user_under_the_mapped_role', '''r is Ok && r->Ok_0 is Some ==> r->Ok_0->Some_0.0 == auth_user(peer(*request)->Some_0.name@, self.unix_users@[peer(*request)->Some_0.name])
                        && r->Ok_0->Some_0.1 is None'''),
                 ('unmapped_peer_is_an_error', 'peer(*request) is Some && !self.unix_users@.contains_key(peer(*request)->Some_0.name) ==> r is Err'),
                 ('no_peer_is_nobody', 'peer(*request) is None ==> r is Ok && r->Ok_0 is None'),
             ]),
    ])
    return U
