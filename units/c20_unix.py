"""C20: unix_user::AuthProvider::authenticate -- a request arriving over the Unix socket acts as an identity only if the
peer user's name is in the configured map, and then under the mapped role and that user's name; an unmapped peer is an
error; no peer information is nobody."""
from vxlib import Unit
from units import prelude

UNIX = 'src/daemon/http/auth/providers/unix_user.rs'
ERR = 'src/commons/error.rs'

SPEC = r'''
/// the peer credentials the HTTP layer attached to the request (request extensions), uninterpreted
pub uninterp spec fn ext_get<T>(e: Extensions) -> Option<T>;
pub uninterp spec fn req_ext(r: HyperRequest) -> Extensions;
pub assume_specification [HyperRequest::extensions] (r: &HyperRequest) -> (e: &Extensions) ensures *e == req_ext(*r);
pub assume_specification<T> [Extensions::get::<T>] (e: &Extensions) -> (r: Option<&T>)
    ensures match r { Some(x) => ext_get::<T>(*e) == Some(*x), None => ext_get::<T>(*e) is None };
pub open spec fn peer(r: HyperRequest) -> Option<nix::unistd::User> { ext_get::<nix::unistd::User>(req_ext(r)) }
pub uninterp spec fn auth_user(id: Seq<char>, role: Arc<Role>) -> AuthInfo;
pub assume_specification [AuthInfo::vx_user] (id: String, role: Arc<Role>) -> (a: AuthInfo) ensures a == auth_user(id@, role);
'''


def build():
    U = Unit('c20_unix', 'C20', 'Unix-socket provider: identity iff the peer user name is mapped; then that name under the mapped role; unmapped peer is an error')
    prelude.hashmap(U)
    prelude.strings(U)
    for t in ['HyperRequest', 'AuthInfo', 'Role', 'Token', 'Extensions']:
        U.opaque(t, '')
    U.outside('''
use std::sync::Arc;
pub mod nix { pub mod unistd { pub struct User { pub name: String } } }
impl HyperRequest { pub fn extensions(&self) -> &Extensions { unimplemented!() } }
impl Extensions { pub fn get<T>(&self) -> Option<&T> { unimplemented!() } }
impl AuthInfo { pub fn vx_user(_id: String, _r: Arc<Role>) -> Self { unimplemented!() } }
''')
    U.add('#[verifier::external_type_specification] pub struct ExNixUser(nix::unistd::User);')
    U.enum(ERR, 'ApiAuthError', keep=['ApiInvalidCredentials'], derive=[])
    U.struct(UNIX, 'AuthProvider', derive=[])
    U.add(SPEC)
    U.impl('impl AuthProvider', [
        U.fn(UNIX, 'AuthProvider', 'authenticate',
             subst=[('AuthInfo::user(', 'AuthInfo::vx_user(', 'R9')],
             requires=[('km', 'obeys_key_model::<String>()')],
             ensures=[
                 ('accepted_iff_peer_is_mapped', '(r is Ok && r->Ok_0 is Some) <==> (peer(*request) is Some && self.unix_users@.contains_key(peer(*request)->Some_0.name))'),
                 ('acts_as_that_user_under_the_mapped_role', '''r is Ok && r->Ok_0 is Some ==> r->Ok_0->Some_0.0 == auth_user(peer(*request)->Some_0.name@, self.unix_users@[peer(*request)->Some_0.name])
                        && r->Ok_0->Some_0.1 is None'''),
                 ('unmapped_peer_is_an_error', 'peer(*request) is Some && !self.unix_users@.contains_key(peer(*request)->Some_0.name) ==> r is Err'),
                 ('no_peer_is_nobody', 'peer(*request) is None ==> r is Ok && r->Ok_0 is None'),
             ]),
    ])
    return U
