"""C02: every certificate that is (re-)issued to a child is issued for resources inside that child's CURRENT entitlement:
append_child_certify carries that as a precondition (capability style) and its callers process_child_certify and
process_child_unsuspend are verified against it, whatever the child's suspension history."""
from vxlib import Unit
from units import prelude
from units.c05_child import common

CA = 'src/server/ca/certauth.rs'
CH = 'src/server/ca/child.rs'
API = 'src/api/ca.rs'
EV = 'src/server/ca/events.rs'
ERR = 'src/commons/error.rs'

SPEC = r'''
pub uninterp spec fn parent_name(c: ChildDetails, name_in_child: ResourceClassName) -> ResourceClassName;
pub uninterp spec fn rc_suspended(rc: ResourceClass, ki: KeyIdentifier) -> Option<SuspendedCert>;
pub uninterp spec fn csr_key(c: CsrInfo) -> KeyIdentifier;
impl ResourceClass {
    #[verifier::external_body]
    pub fn suspended(&self, ki: &KeyIdentifier) -> (r: Option<&SuspendedCert>)
        ensures match r { Some(c) => rc_suspended(*self, *ki) == Some(*c), None => rc_suspended(*self, *ki) is None } { unimplemented!() }
}
/// ASSUMED resource algebra: a set contains itself
#[verifier::external_body] pub broadcast proof fn axiom_rs_contains_refl(a: ResourceSet) ensures #[trigger] rs_contains(a, a) {}
pub assume_specification [CsrInfo::key_id] (c: &CsrInfo) -> (r: KeyIdentifier) ensures r == csr_key(*c);
pub assume_specification [Validity::not_after] (v: Validity) -> (r: Time);
pub assume_specification [Duration::days] (s: i64) -> (r: Duration);
pub uninterp spec fn req_csr(r: IssuanceRequest) -> Csr;
pub uninterp spec fn csr_info_of(c: Csr) -> Option<CsrInfo>;
pub assume_specification [IssuanceRequest::unpack] (r: IssuanceRequest) -> (o: (ResourceClassName, RequestResourceLimit, Csr)) ensures o.2 == req_csr(r);
pub assume_specification [CsrInfo::vx_try_from] (c: &Csr) -> (r: Result<CsrInfo, Error>)
    ensures match r { Ok(i) => csr_info_of(*c) == Some(i), Err(_) => csr_info_of(*c) is None };
/// ASSUMED: `==` / `!=` on child handles is value equality (string comparison in rpki-rs)
impl vstd::std_specs::cmp::PartialEqSpecImpl for ChildHandle {
    open spec fn obeys_eq_spec() -> bool { true }
    open spec fn eq_spec(&self, other: &ChildHandle) -> bool { *self == *other }
}
pub assume_specification [<ChildHandle as PartialEq>::eq] (a: &ChildHandle, b: &ChildHandle) -> (r: bool);
/// the child has a certificate in use for this key (ChildDetails::is_issued: used_keys says InUse)
pub uninterp spec fn key_in_use(c: ChildDetails, ki: KeyIdentifier) -> bool;
/// what the statement demands of every issuance: the resources handed to the issuing step lie inside the entitlement
/// the child has NOW
pub open spec fn within_entitlement(ca: CertAuth, child: ChildHandle, res: ResourceSet) -> bool {
    ca.children@.contains_key(child) && rs_contains(ca.children@[child].resources, res)
}
'''


def build():
    U = Unit('c02_unsuspend', 'C02', 'issuance to a child only for resources inside its current entitlement: append_child_certify precondition, discharged by process_child_certify and process_child_unsuspend')
    common(U, skip=('ChildState',))
    prelude.time(U)
    U.opaque('Hash', 'Clone, Copy')
    for t in ['ObjectName', 'RequestResourceLimit', 'Name', 'CsrInfo', 'Base64', 'Issued', 'Suspended', 'Unsuspended']:
        U.opaque(t, 'Clone')
    U.opaque('Rsync', 'Clone', module='uri')
    U.opaque('Validity', 'Clone, Copy')
    U.opaque('Serial', 'Clone, Copy')
    for t in ['Config', 'KrillSigner', 'IssuanceRequest', 'Csr']:
        U.opaque(t, '')
    U.outside('''
pub type IssuedCertificate = CertInfo<Issued>;
pub type SuspendedCert = CertInfo<Suspended>;
pub type UnsuspendedCert = CertInfo<Unsuspended>;
impl CsrInfo { pub fn key_id(&self) -> KeyIdentifier { unimplemented!() } pub fn vx_try_from(_c: &Csr) -> Result<CsrInfo, Error> { unimplemented!() } }
impl Validity { pub fn not_after(self) -> Time { unimplemented!() } }
impl Duration { pub fn days(_s: i64) -> Duration { unimplemented!() } }
impl IssuanceRequest { pub fn unpack(self) -> (ResourceClassName, RequestResourceLimit, Csr) { unimplemented!() } }
''')
    U.enum(API, 'ChildState', derive=['Clone', 'Copy'])
    U.struct(API, 'CertInfo', derive=[])
    U.struct(CA, 'CertAuth', derive=[])
    U.struct(CH, 'ChildDetails', derive=[])
    U.struct(CH, 'ChildCertificateUpdates', derive=[], default_ensures=[
        ('empty', 'r.issued@.len() == 0 && r.removed@.len() == 0 && r.suspended@.len() == 0 && r.unsuspended@.len() == 0')])
    U.enum(EV, 'CertAuthEvent', keep=['ChildCertificatesUpdated', 'ChildUnsuspended', 'ChildCertificateIssued'], derive=[])
    U.enum(ERR, 'Error', keep=['CaChildUnknown', 'KeyUseAttemptReuse'], derive=[])
    prelude.map_any(U)
    U.add(SPEC)
    km = 'obeys_key_model::<ChildHandle>() && obeys_key_model::<ResourceClassName>() && obeys_key_model::<KeyIdentifier>()'
    U.impl('impl ChildState', [
        U.fn(API, 'ChildState', 'is_suspended', ensures=[('is_variant', 'r == (self is Suspended)')]),
    ])
    U.impl('impl<T> CertInfo<T>', [
        U.fn(API, 'CertInfo', 'key_identifier', ensures=[('is_csr_key', 'r == csr_key(self.csr_info)')]),
    ])
    U.impl('impl ChildDetails', [
        U.fn(CH, 'ChildDetails', 'parent_name_for_rcn', external_body=True, ensures=[('is_mapping', 'r == parent_name(*self, *name_in_child)')]),
        U.fn(CH, 'ChildDetails', 'issued', external_body=True),
        # verified in unit c03_child_revoke; here it names the fact
        U.fn(CH, 'ChildDetails', 'is_issued', external_body=True, ensures=[('names', 'r == key_in_use(*self, *ki)')]),
        # verified in unit c05_allres (it looks at the keys of THIS child only); declared so that code calling it is decided
        U.fn(CH, 'ChildDetails', 'verify_key_allowed', external_body=True),
    ])
    U.impl('impl CertAuth', [
        U.fn(CA, 'CertAuth', 'get_child', requires=[('km', km)], ensures=[
            ('known', 'r is Ok <==> self.children@.contains_key(*child)'), ('details', 'r is Ok ==> *r->Ok_0 == self.children@[*child]')]),
        # the issuing step itself is verified in units c02_issue (issue_cert / make_issued_cert); here it carries the obligation
        # that its callers must discharge
        U.fn(CA, 'CertAuth', 'append_child_certify', external_body=True,
             requires=[('resources_within_current_entitlement_of_child', 'within_entitlement(*self, child_handle, *resources)')]),
        U.fn(CA, 'CertAuth', 'process_child_certify', requires=[('km', km)], ghost=[(('body_start',), 'broadcast use axiom_rs_contains_refl;')],
             subst=[('CsrInfo::try_from(&csr)?', 'CsrInfo::vx_try_from(&csr)?', 'R9')],
             map_any={'self.children': {'header': '|vx_p: (&ChildHandle, &ChildDetails)| -> (b: bool)',
                                        'ensures': 'b == (*vx_p.0 != child_handle && key_in_use(*vx_p.1, ki))'}},
             ensures=[
                 # F20: certificates are filed under the key they certify, so a request may only obtain (and thereby replace) a
                 # certificate of the SENDER: a key that another child has in use is refused
                 ('never_for_a_key_that_another_child_has_in_use', '''r is Ok ==> csr_info_of(req_csr(request)) is Some && forall |h: ChildHandle| #[trigger] self.children@.contains_key(h) && h != child_handle
                        ==> !key_in_use(self.children@[h], csr_key(csr_info_of(req_csr(request))->Some_0))'''),
             ]),
        U.fn(CA, 'CertAuth', 'process_child_unsuspend', requires=[('km', km)],
             ensures=[('unknown_child_refused', '!self.children@.contains_key(*child_handle) ==> r is Err'),
                      ('active_child_noop', 'self.children@.contains_key(*child_handle) && !(self.children@[*child_handle].state is Suspended) ==> r is Ok && r->Ok_0@.len() == 0')],
             continue_guards=(0,),
             loops={0: {'invariant': [('km', km), ('child', 'self.children@.contains_key(*child_handle) && *child == self.children@[*child_handle] && child.state is Suspended')]},
                    1: {'invariant': [('km', km), ('child', 'self.children@.contains_key(*child_handle) && *child == self.children@[*child_handle] && child.state is Suspended')]}}),
    ])
    return U
