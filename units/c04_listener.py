"""C04/C01: CaObjectsStore::cert_auth_pre_save_events -- one iteration of its event loop (loop body lifted verbatim, R17): each
stored event is copied into the CA's published object sets by the matching CaObjects operation for the class it names, and
every event that changes what is published forces the manifest and CRL to be re-issued in the same step."""
from vxlib import Unit
from units import prelude

PUB = 'src/server/ca/publishing.rs'
EV = 'src/server/ca/events.rs'

KEEP = ['RoasUpdated', 'AspaObjectsUpdated', 'BgpSecCertificatesUpdated', 'ChildCertificatesUpdated', 'KeyPendingToActive', 'KeyPendingToNew',
        'KeyRollActivated', 'KeyRollFinished', 'CertificateReceived', 'ResourceClassRemoved', 'RepoUpdated']

SPEC = r'''
// ---- the operations of CaObjects as uninterpreted transformers (what they do per class: units c04_objects / c03_keyobjectset) ----
pub uninterp spec fn co_roas(o: CaObjects, n: ResourceClassName, u: RoaUpdates) -> CaObjects;
pub uninterp spec fn co_aspas(o: CaObjects, n: ResourceClassName, u: AspaObjectsUpdates) -> CaObjects;
pub uninterp spec fn co_bgpsec(o: CaObjects, n: ResourceClassName, u: BgpSecCertificateUpdates) -> CaObjects;
pub uninterp spec fn co_certs(o: CaObjects, n: ResourceClassName, u: ChildCertificateUpdates) -> CaObjects;
pub uninterp spec fn co_add_class(o: CaObjects, n: ResourceClassName, k: CertifiedKey) -> CaObjects;
pub uninterp spec fn co_stage(o: CaObjects, n: ResourceClassName, k: CertifiedKey) -> CaObjects;
pub uninterp spec fn co_activate(o: CaObjects, n: ResourceClassName) -> CaObjects;
pub uninterp spec fn co_finish(o: CaObjects, n: ResourceClassName) -> CaObjects;
pub uninterp spec fn co_rcvd(o: CaObjects, n: ResourceClassName, c: ReceivedCert) -> CaObjects;
pub uninterp spec fn co_remove_class(o: CaObjects, n: ResourceClassName) -> CaObjects;
pub uninterp spec fn co_repo(o: CaObjects, c: RepositoryContact) -> CaObjects;
impl CaObjects {
    #[verifier::external_body] pub fn update_roas(&mut self, n: &ResourceClassName, u: &RoaUpdates) -> (r: KrillResult<()>) ensures r is Ok ==> *final(self) == co_roas(*old(self), *n, *u) { unimplemented!() }
    #[verifier::external_body] pub fn update_aspas(&mut self, n: &ResourceClassName, u: &AspaObjectsUpdates) -> (r: KrillResult<()>) ensures r is Ok ==> *final(self) == co_aspas(*old(self), *n, *u) { unimplemented!() }
    #[verifier::external_body] pub fn update_bgpsec_certs(&mut self, n: &ResourceClassName, u: &BgpSecCertificateUpdates) -> (r: KrillResult<()>) ensures r is Ok ==> *final(self) == co_bgpsec(*old(self), *n, *u) { unimplemented!() }
    #[verifier::external_body] pub fn update_certs(&mut self, n: &ResourceClassName, u: &ChildCertificateUpdates) -> (r: KrillResult<()>) ensures r is Ok ==> *final(self) == co_certs(*old(self), *n, *u) { unimplemented!() }
    #[verifier::external_body] pub fn add_class(&mut self, n: &ResourceClassName, k: &CertifiedKey, t: &IssuanceTimingConfig, s: &KrillSigner) -> (r: KrillResult<()>) ensures r is Ok ==> *final(self) == co_add_class(*old(self), *n, *k) { unimplemented!() }
    #[verifier::external_body] pub fn keyroll_stage(&mut self, n: &ResourceClassName, k: &CertifiedKey, t: &IssuanceTimingConfig, s: &KrillSigner) -> (r: KrillResult<()>) ensures r is Ok ==> *final(self) == co_stage(*old(self), *n, *k) { unimplemented!() }
    #[verifier::external_body] pub fn keyroll_activate(&mut self, n: &ResourceClassName) -> (r: KrillResult<()>) ensures r is Ok ==> *final(self) == co_activate(*old(self), *n) { unimplemented!() }
    #[verifier::external_body] pub fn keyroll_finish(&mut self, n: &ResourceClassName) -> (r: KrillResult<()>) ensures r is Ok ==> *final(self) == co_finish(*old(self), *n) { unimplemented!() }
    #[verifier::external_body] pub fn update_received_cert(&mut self, n: &ResourceClassName, c: &ReceivedCert) -> (r: KrillResult<()>) ensures r is Ok ==> *final(self) == co_rcvd(*old(self), *n, *c) { unimplemented!() }
    #[verifier::external_body] pub fn remove_class(&mut self, n: &ResourceClassName) ensures *final(self) == co_remove_class(*old(self), *n) { unimplemented!() }
    #[verifier::external_body] pub fn update_repo(&mut self, c: &RepositoryContact) ensures *final(self) == co_repo(*old(self), *c) { unimplemented!() }
}
impl KrillRuntime {
    #[verifier::external_body] pub fn signer(&self) -> (r: &KrillSigner) { unimplemented!() }
    #[verifier::external_body] pub fn tasks(&self) -> (q: &TaskQueue) ensures *q == tasks_of(*self) { unimplemented!() }
}
pub uninterp spec fn tasks_of(k: KrillRuntime) -> TaskQueue;
/// obligation predicate: a successful schedule call for this task was made on this queue (only ever ESTABLISHED by the assumed
/// contract of TaskQueue::schedule)
pub uninterp spec fn scheduled(q: TaskQueue, t: Task) -> bool;
pub uninterp spec fn ca_handle_of(c: CertAuth) -> CaHandle;
pub uninterp spec fn ca_version_of(c: CertAuth) -> u64;
impl TaskQueue { #[verifier::external_body] pub fn schedule(&self, task: Task, priority: Priority) -> (r: KrillResult<()>) ensures r is Ok ==> scheduled(*self, task) { unimplemented!() } }
impl CertAuth {
    #[verifier::external_body] pub fn handle(&self) -> (r: &CaHandle) ensures *r == ca_handle_of(*self) { unimplemented!() }
    #[verifier::external_body] pub fn version(&self) -> (r: u64) ensures r == ca_version_of(*self) { unimplemented!() }
}
pub assume_specification [now] () -> (r: Priority);
/// events that change what is published (objects added/removed, a key takes over, a class or the repository goes away)
pub open spec fn changes_publication(e: CertAuthEvent) -> bool {
    e is RoasUpdated || e is AspaObjectsUpdated || e is BgpSecCertificatesUpdated || e is ChildCertificatesUpdated || e is KeyRollActivated
    || e is ResourceClassRemoved || e is RepoUpdated
}
'''


def build():
    U = Unit('c04_listener', 'C04', 'pre-save listener, one event: the matching CaObjects operation for the named class; publication-changing events force re-issuance')
    prelude.strings(U)
    for t in ['ResourceClassName', 'RepositoryContact', 'ReceivedCert', 'ParentHandle', 'RevocationRequest', 'KeyIdentifier']:
        U.opaque(t, 'Clone')
    for t in ['CaObjects', 'KrillRuntime', 'KrillSigner', 'IssuanceTimingConfig', 'KeyValueStore', 'Error', 'RoaUpdates', 'AspaObjectsUpdates',
              'BgpSecCertificateUpdates', 'ChildCertificateUpdates', 'CertifiedKey']:
        U.opaque(t, '')
    for t in ['TaskQueue', 'CertAuth', 'Priority']:
        U.opaque(t, '')
    U.opaque('CaHandle', 'Clone')
    U.outside('pub fn now() -> Priority { unimplemented!() }')
    U.outside('pub type KrillResult<T> = Result<T, Error>;\npub type CurrentKey = CertifiedKey;\npub type NewKey = CertifiedKey;')
    U.auto_opaque = True
    U.struct(PUB, 'CaObjectsStore', derive=[])
    U.enum(EV, 'CertAuthEvent', keep=KEEP, derive=[])
    U.enum('src/server/mq.rs', 'Task', keep=['SyncRepo'], derive=[])
    U.add(SPEC)
    U.impl('impl CaObjectsStore', [
        U.loop_fn(PUB, 'CaObjectsStore', 'cert_auth_pre_save_events', 0, 'vx_listener_one_event',
                  '(&self, objects: &mut CaObjects, event: &CertAuthEvent, force_reissue0: bool, krill: &KrillRuntime) -> (r: KrillResult<bool>)',
                  body_only=True, ghost_before='let mut force_reissue = force_reissue0;\n', tail='Ok(force_reissue)',
                  ensures=[
                      ('reissue_forced_by_every_publication_change', 'r is Ok ==> r->Ok_0 == (force_reissue0 || changes_publication(*event))'),
                      ('object_updates_copied_into_the_named_class', '''r is Ok ==> match *event {
                            CertAuthEvent::RoasUpdated { resource_class_name, updates } => *final(objects) == co_roas(*old(objects), resource_class_name, updates),
                            CertAuthEvent::AspaObjectsUpdated { resource_class_name, updates } => *final(objects) == co_aspas(*old(objects), resource_class_name, updates),
                            CertAuthEvent::BgpSecCertificatesUpdated { resource_class_name, updates } => *final(objects) == co_bgpsec(*old(objects), resource_class_name, updates),
                            CertAuthEvent::ChildCertificatesUpdated { resource_class_name, updates } => *final(objects) == co_certs(*old(objects), resource_class_name, updates),
                            _ => true }'''),
                      ('key_events_move_the_object_sets', '''r is Ok ==> match *event {
                            CertAuthEvent::KeyPendingToActive { resource_class_name, current_key } => *final(objects) == co_add_class(*old(objects), resource_class_name, current_key),
                            CertAuthEvent::KeyPendingToNew { resource_class_name, new_key } => *final(objects) == co_stage(*old(objects), resource_class_name, new_key),
                            CertAuthEvent::KeyRollActivated { resource_class_name, .. } => *final(objects) == co_activate(*old(objects), resource_class_name),
                            CertAuthEvent::KeyRollFinished { resource_class_name } => *final(objects) == co_finish(*old(objects), resource_class_name),
                            CertAuthEvent::CertificateReceived { resource_class_name, rcvd_cert, .. } => *final(objects) == co_rcvd(*old(objects), resource_class_name, rcvd_cert),
                            CertAuthEvent::ResourceClassRemoved { resource_class_name, .. } => *final(objects) == co_remove_class(*old(objects), resource_class_name),
                            CertAuthEvent::RepoUpdated { contact } => *final(objects) == co_repo(*old(objects), contact),
                            _ => true }'''),
                      ('other_events_touch_nothing', 'r is Ok && event is VxOther ==> *final(objects) == *old(objects)'),
                  ]),
        # F23: the listener re-issues whatever is due after EVERY batch of events; when it did, the publication is scheduled here
        # (no other step does it for events that do not themselves change what is published). Statement lifted verbatim (R17s).
        U.stmt_fn(PUB, 'CaObjectsStore', 'cert_auth_pre_save_events', 'if reissued', 'vx_publish_what_was_reissued',
                  '(&self, ca: &CertAuth, krill: &KrillRuntime, reissued: bool) -> (r: KrillResult<()>)', tail='Ok(())',
                  ensures=[('a_reissued_manifest_is_scheduled_for_publication', '''r is Ok && reissued ==>
                        scheduled(tasks_of(*krill), Task::SyncRepo { ca_handle: ca_handle_of(*ca), ca_version: ca_version_of(*ca) })''')]),
    ])
    return U
