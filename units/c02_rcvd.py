"""C02: when a certificate with other resources is received for the current key, the SAME event set that records the new
certificate also brings every over-claiming child certificate (issued and suspended) back inside it; when nothing changed
no child certificate can over-claim."""
from vxlib import Unit
from units import prelude
from units import c02_childcerts as CC

CH = 'src/server/ca/child.rs'
CA = 'src/api/ca.rs'
RC = 'src/server/ca/rc.rs'
KEYS = 'src/server/ca/keys.rs'
EV = 'src/server/ca/events.rs'
ERR = 'src/commons/error.rs'


def build():
    U = Unit('c02_rcvd', 'C02', 'receipt of a changed certificate: child certificates are shrunk/revoked in the same event set as CertificateReceived')
    prelude.hashmap(U)
    prelude.strings(U)
    U.opaque('KeyIdentifier', 'Clone, Copy, PartialEq, Eq, Hash', eq=True)
    U.opaque('Hash', 'Clone, Copy')
    for t in ['ObjectName', 'ResourceSet', 'RequestResourceLimit', 'Name', 'CsrInfo', 'Base64', 'Issued', 'Suspended', 'Unsuspended', 'Received',
              'IssuanceRequest', 'RepoInfo', 'ResourceClassName']:
        U.opaque(t, 'Clone')
    U.opaque('Rsync', 'Clone', module='uri')
    U.opaque('Validity', 'Clone, Copy')
    U.opaque('Serial', 'Clone, Copy')
    for t in ['IssuanceTimingConfig', 'KrillSigner', 'Routes', 'AspaDefinitions', 'BgpSecDefinitions', 'CaHandle', 'ResourceDiff',
              'Roas', 'AspaObjects', 'BgpSecCertificates', 'RoaUpdates', 'AspaObjectsUpdates', 'BgpSecCertificateUpdates', 'PendingKey', 'OldKey']:
        U.opaque(t, '')
    U.outside('''
pub type KrillResult<T> = Result<T, Error>;
pub use Error as KrillError;
pub type IssuedCertificate = CertInfo<Issued>;
pub type SuspendedCert = CertInfo<Suspended>;
pub type UnsuspendedCert = CertInfo<Unsuspended>;
pub type ReceivedCert = CertInfo<Received>;
pub type CurrentKey = CertifiedKey;
pub type NewKey = CertifiedKey;
impl ResourceSet {
    pub fn difference(&self, _o: &ResourceSet) -> ResourceDiff { unimplemented!() }
    pub fn contains(&self, _o: &ResourceSet) -> bool { unimplemented!() }
    pub fn intersection(&self, _o: &ResourceSet) -> ResourceSet { unimplemented!() }
    pub fn is_empty(&self) -> bool { unimplemented!() }
}
impl ResourceDiff { pub fn is_empty(&self) -> bool { unimplemented!() } }
impl CsrInfo { pub fn key_id(&self) -> KeyIdentifier { unimplemented!() } }
impl Roas { pub fn create_updates(&self, _a: &Routes, _k: &CertifiedKey, _c: &Config, _s: &KrillSigner) -> KrillResult<RoaUpdates> { unimplemented!() } }
impl AspaObjects { pub fn create_updates(&self, _a: &AspaDefinitions, _k: &CertifiedKey, _c: &Config, _s: &KrillSigner) -> KrillResult<AspaObjectsUpdates> { unimplemented!() } }
impl BgpSecCertificates { pub fn create_updates(&self, _a: &BgpSecDefinitions, _k: &CertifiedKey, _c: &Config, _s: &KrillSigner) -> KrillResult<BgpSecCertificateUpdates> { unimplemented!() } }
impl RoaUpdates { pub fn is_empty(&self) -> bool { unimplemented!() } }
impl AspaObjectsUpdates { pub fn is_empty(&self) -> bool { unimplemented!() } }
impl BgpSecCertificateUpdates { pub fn is_empty(&self) -> bool { unimplemented!() } }
''')
    U.struct(CA, 'CertInfo', derive=['Clone'])
    U.struct(CH, 'ChildCertificates', derive=[])
    U.struct(CH, 'ChildCertificateUpdates', derive=[])
    U.struct(KEYS, 'CertifiedKey', derive=[])
    U.enum(KEYS, 'KeyState', keep=['Pending', 'Active', 'RollPending', 'RollNew', 'RollOld'], derive=[])
    U.enum(EV, 'CertAuthEvent', keep=['CertificateReceived', 'ChildCertificatesUpdated', 'RoasUpdated', 'AspaObjectsUpdated', 'BgpSecCertificatesUpdated'], derive=[])
    U.enum(ERR, 'Error', keep=['KeyUseNoMatch'], derive=[])
    U.auto_opaque = True
    U.struct(RC, 'ResourceClass', derive=[])
    # stub: only the field this function reads (Config has ~60 fields that play no role here)
    U.add('pub struct Config { pub issuance_timing: IssuanceTimingConfig }')
    U.add(CC.SPEC)
    U.add('''
/// `same resources` as decided by ResourceSet::difference(..).is_empty()
pub uninterp spec fn rs_same(a: ResourceSet, b: ResourceSet) -> bool;
pub assume_specification [ResourceSet::difference] (a: &ResourceSet, b: &ResourceSet) -> (r: ResourceDiff) ensures diff_empty(r) == rs_same(*a, *b);
pub uninterp spec fn diff_empty(d: ResourceDiff) -> bool;
pub assume_specification [ResourceDiff::is_empty] (d: &ResourceDiff) -> (r: bool) ensures r == diff_empty(*d);
/// what an update set was derived from: the configuration and the certified key (ghost; derivation itself: units c01_*)
pub uninterp spec fn roas_from(u: RoaUpdates) -> (Routes, CertifiedKey);
pub uninterp spec fn aspas_from(u: AspaObjectsUpdates) -> (AspaDefinitions, CertifiedKey);
pub uninterp spec fn bgpsec_from(u: BgpSecCertificateUpdates) -> (BgpSecDefinitions, CertifiedKey);
pub assume_specification [Roas::create_updates] (x: &Roas, a: &Routes, k: &CertifiedKey, c: &Config, s: &KrillSigner) -> (r: KrillResult<RoaUpdates>)
    ensures r is Ok ==> roas_from(r->Ok_0) == (*a, *k);
pub assume_specification [AspaObjects::create_updates] (x: &AspaObjects, a: &AspaDefinitions, k: &CertifiedKey, c: &Config, s: &KrillSigner) -> (r: KrillResult<AspaObjectsUpdates>)
    ensures r is Ok ==> aspas_from(r->Ok_0) == (*a, *k);
pub assume_specification [BgpSecCertificates::create_updates] (x: &BgpSecCertificates, a: &BgpSecDefinitions, k: &CertifiedKey, c: &Config, s: &KrillSigner) -> (r: KrillResult<BgpSecCertificateUpdates>)
    ensures r is Ok ==> bgpsec_from(r->Ok_0) == (*a, *k);
pub uninterp spec fn roa_upd_empty(u: RoaUpdates) -> bool;
pub uninterp spec fn aspa_upd_empty(u: AspaObjectsUpdates) -> bool;
pub uninterp spec fn bgpsec_upd_empty(u: BgpSecCertificateUpdates) -> bool;
pub assume_specification [RoaUpdates::is_empty] (x: &RoaUpdates) -> (r: bool) ensures r == roa_upd_empty(*x);
pub assume_specification [AspaObjectsUpdates::is_empty] (x: &AspaObjectsUpdates) -> (r: bool) ensures r == aspa_upd_empty(*x);
pub assume_specification [BgpSecCertificateUpdates::is_empty] (x: &BgpSecCertificateUpdates) -> (r: bool) ensures r == bgpsec_upd_empty(*x);
/// ASSUMED resource algebra: sets that `difference` calls equal contain the same sets
#[verifier::external_body] pub proof fn axiom_same_contains(a: ResourceSet, b: ResourceSet, x: ResourceSet)
    requires rs_same(a, b), rs_contains(b, x) ensures rs_contains(a, x) {}

pub open spec fn shrink_post(c: ChildCertificates, u: ChildCertificateUpdates, new: ResourceSet) -> bool {
    &&& forall |k: KeyIdentifier| #[trigger] c.issued@.contains_key(k) ==> shrunk_issued(u, c.issued@[k].resources, c.issued@[k].limit, k, new)
    &&& forall |k: KeyIdentifier| #[trigger] c.suspended@.contains_key(k) ==> shrunk_suspended(u, c.suspended@[k].resources, c.suspended@[k].limit, k, new)
}
/// every certificate in the store (issued or suspended) lies inside `r`
pub open spec fn within(c: ChildCertificates, r: ResourceSet) -> bool {
    &&& forall |k: KeyIdentifier| #[trigger] c.issued@.contains_key(k) ==> rs_contains(r, c.issued@[k].resources)
    &&& forall |k: KeyIdentifier| #[trigger] c.suspended@.contains_key(k) ==> rs_contains(r, c.suspended@[k].resources)
}
pub open spec fn is_child_update(e: CertAuthEvent, name: ResourceClassName, c: ChildCertificates, new: ResourceSet) -> bool {
    match e { CertAuthEvent::ChildCertificatesUpdated { resource_class_name, updates } => resource_class_name == name && shrink_post(c, updates, new), _ => false }
}
/// every ROA / ASPA / BGPsec update event of the result was derived from the configuration handed in, under a key whose
/// certificate is the one just received
pub open spec fn objects_rederived(evs: Seq<CertAuthEvent>, routes: Routes, aspas: AspaDefinitions, bgpsecs: BgpSecDefinitions, rcvd: ReceivedCert) -> bool {
    forall |i: int| 0 <= i < evs.len() ==> match #[trigger] evs[i] {
        CertAuthEvent::RoasUpdated { updates, .. } => roas_from(updates).0 == routes && roas_from(updates).1.incoming_cert == rcvd,
        CertAuthEvent::AspaObjectsUpdated { updates, .. } => aspas_from(updates).0 == aspas && aspas_from(updates).1.incoming_cert == rcvd,
        CertAuthEvent::BgpSecCertificatesUpdated { updates, .. } => bgpsec_from(updates).0 == bgpsecs && bgpsec_from(updates).1.incoming_cert == rcvd,
        _ => true,
    }
}
pub open spec fn has_child_update(s: Seq<CertAuthEvent>, name: ResourceClassName, c: ChildCertificates, new: ResourceSet) -> bool {
    exists |i: int| 0 <= i < s.len() && is_child_update(#[trigger] s[i], name, c, new)
}
''')
    km = 'obeys_key_model::<KeyIdentifier>()'
    U.impl('impl<T> CertInfo<T>', [
        U.fn(CA, 'CertInfo', 'key_identifier', ensures=[('is_csr_key', 'r == csr_key(self.csr_info)')]),
    ])
    U.impl('impl CertifiedKey', [
        U.fn(KEYS, 'CertifiedKey', 'create', ensures=[('fields', 'r.incoming_cert == incoming_cert && r.request is None')]),
        U.fn(KEYS, 'CertifiedKey', 'key_id', ensures=[('is_field', 'r == self.key_id')]),
        U.fn(KEYS, 'CertifiedKey', 'incoming_cert', ensures=[('is_field', '*r == self.incoming_cert')]),
    ])
    U.impl('impl ChildCertificateUpdates', [
        U.fn(CH, 'ChildCertificateUpdates', 'is_empty', ensures=[('all_empty', 'r == (self.issued@.len() == 0 && self.removed@.len() == 0 && self.suspended@.len() == 0 && self.unsuspended@.len() == 0)')]),
    ])
    U.impl('impl ChildCertificates', [
        # assumed here; verified with exactly these clauses in unit c02_childcerts
        U.fn(CH, 'ChildCertificates', 'shrink_overclaiming', external_body=True, requires=[('km', km), ('wf', 'wf(*self)')], ensures=[
            ('post', 'r is Ok ==> shrink_post(*self, r->Ok_0, received_cert.resources)')]),
    ])
    new = 'rcvd_cert.resources'
    U.impl('impl ResourceClass', [
        U.fn(RC, 'ResourceClass', 'process_rcvd_cert_current',
             requires=[('km', km), ('wf', 'wf(self.certificates)'),
                       ('children_inside_current_certificate', 'within(self.certificates, current_key.incoming_cert.resources)')],
             ensures=[
                 ('records_receipt_first', '''r is Ok ==> r->Ok_0@.len() >= 1 && (match r->Ok_0@[0] {
                        CertAuthEvent::CertificateReceived { resource_class_name, ki, rcvd_cert: c } => resource_class_name == self.name && ki == csr_key(rcvd_cert.csr_info) && c == rcvd_cert,
                        _ => false })'''),
                 ('for_current_key_only', 'r is Ok ==> csr_key(rcvd_cert.csr_info) == current_key.key_id'),
                 ('objects_rederived_from_configuration_under_the_new_certificate', 'r is Ok ==> objects_rederived(r->Ok_0@, *all_routes, *all_aspas, *all_bgpsecs, rcvd_cert)'),
                 ('overclaiming_children_handled_in_same_event_set', f'''r is Ok ==> has_child_update(r->Ok_0@, self.name, self.certificates, {new})
                        || within(self.certificates, {new})'''),
             ],
             ghost=[
                 (('after', ')?;', 0), f'''let ghost g_u = updates; let ghost g_c = self.certificates;
            proof {{
                if g_u.issued@.len() == 0 && g_u.removed@.len() == 0 && g_u.suspended@.len() == 0 {{
                    assert forall |k: KeyIdentifier| #[trigger] g_c.issued@.contains_key(k) implies rs_contains({new}, g_c.issued@[k].resources) by {{
                        assert(shrunk_issued(g_u, g_c.issued@[k].resources, g_c.issued@[k].limit, k, {new}));
                    }}
                    assert forall |k: KeyIdentifier| #[trigger] g_c.suspended@.contains_key(k) implies rs_contains({new}, g_c.suspended@[k].resources) by {{
                        assert(shrunk_suspended(g_u, g_c.suspended@[k].resources, g_c.suspended@[k].limit, k, {new}));
                    }}
                }}
            }}'''),
                 (('before', 'Ok(res)', 0), f"""proof {{
            if rs_same({new}, current_key.incoming_cert.resources) {{
                assert forall |k: KeyIdentifier| #[trigger] self.certificates.issued@.contains_key(k) implies rs_contains({new}, self.certificates.issued@[k].resources) by {{
                    axiom_same_contains({new}, current_key.incoming_cert.resources, self.certificates.issued@[k].resources);
                }}
                assert forall |k: KeyIdentifier| #[trigger] self.certificates.suspended@.contains_key(k) implies rs_contains({new}, self.certificates.suspended@[k].resources) by {{
                    axiom_same_contains({new}, current_key.incoming_cert.resources, self.certificates.suspended@[k].resources);
                }}
            }} else if res@.len() >= 2 && is_child_update(res@[1], self.name, self.certificates, {new}) {{
                assert(has_child_update(res@, self.name, self.certificates, {new}));
            }}
        }}"""),
             ]),
    ])
    return U
