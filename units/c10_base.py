"""C10 (publisher isolation, where the jails come from): RepositoryAccess::publisher_rsync_base -- the base URI under which a
publisher may publish is the server's rsync base + the publisher's handle + "/" (the trust anchor publishes directly under the
rsync base), verified on the real text (format! read as concatenation, R2c).  The jail check of every delta (unit c10_current) is
`base is a parent of the URI`, i.e. the URI starts with the base.

Statement-level question: are the jails of two different publishers disjoint?  The trailing "/" takes care of handles that are
prefixes of one another ("alice" / "alice2").  It does NOT take care of handles that contain "/": the base of "alice/sub" lies inside
the jail of "alice" -- recorded known finding F24, with a machine-checked witness."""
from vxlib import Unit
from units import prelude

AC = 'src/server/pubd/access.rs'

SPEC = r'''
pub uninterp spec fn uri_text(u: uri::Rsync) -> Seq<char>;
pub uninterp spec fn handle_text(h: PublisherHandle) -> Seq<char>;
/// ASSUMED: Display of a URI / a handle is its text; parsing a URI keeps the text
pub assume_specification [<uri::Rsync as VxS>::vx_s] (s: &uri::Rsync) -> (r: String) ensures r@ == uri_text(*s);
pub assume_specification [<PublisherHandle as VxS>::vx_s] (s: &PublisherHandle) -> (r: String) ensures r@ == handle_text(*s);
pub assume_specification<'a> [<&'a PublisherHandle as VxS>::vx_s] (s: &&'a PublisherHandle) -> (r: String) ensures r@ == handle_text(**s);
pub assume_specification [PublisherHandle::as_str] (h: &PublisherHandle) -> (r: &str) ensures r@ == handle_text(*h);
pub assume_specification [uri::Rsync::vx_from_str] (s: &str) -> (r: Result<uri::Rsync, UriError>) ensures r is Ok ==> uri_text(r->Ok_0) == s@;
pub assume_specification [<uri::Rsync as Clone>::clone] (u: &uri::Rsync) -> (r: uri::Rsync) ensures r == *u;

/// the statement: where a publisher may publish
pub open spec fn jail_text(base: Seq<char>, handle: Seq<char>) -> Seq<char> { if handle == "ta"@ { base } else { base + handle + "/"@ } }
/// the jail check: the URI text starts with the jail text (rpki-rs uri::Rsync::is_parent_of, up to case of scheme and host)
pub open spec fn inside(jail: Seq<char>, uri: Seq<char>) -> bool { jail.len() <= uri.len() && uri.subrange(0, jail.len() as int) == jail }
'''

# handles that are prefixes of one another are kept apart by the trailing "/" (proved, given that handles contain no "/")
LEMMA_PREFIX = r'''
pub proof fn lemma_jails_of_slash_free_handles_are_not_nested(base: Seq<char>, h1: Seq<char>, h2: Seq<char>)
    requires h1 != h2, h1 != "ta"@, h2 != "ta"@,
        !h1.contains('/'), !h2.contains('/'),
    ensures !inside(jail_text(base, h1), jail_text(base, h2))
{
    reveal_strlit("/"); reveal_strlit("ta");
    let j1 = base + h1 + "/"@; let j2 = base + h2 + "/"@;
    if inside(j1, j2) {
        assert(j1.len() <= j2.len());
        assert(h1.len() <= h2.len());
        // position by position the two jails agree on base + h1 + "/"
        assert forall |i: int| 0 <= i < h1.len() implies h1[i] == h2[i] by {
            assert(j2.subrange(0, j1.len() as int)[base.len() + i] == j1[base.len() + i]);
            assert(j1[base.len() + i] == h1[i]);
            assert(j2[base.len() + i] == h2[i]);
        }
        let k = base.len() + h1.len();
        assert(j2.subrange(0, j1.len() as int)[k as int] == j1[k as int]);
        assert(j1[k as int] == '/');
        if h1.len() < h2.len() {
            assert(j2[k as int] == h2[h1.len() as int]);
            assert(h2.contains('/'));
        } else {
            assert(h1 =~= h2);
        }
    }
}
'''

WITNESS = r'''
/// machine-checked witness for F24: the jail of "alice/sub" lies inside the jail of "alice"
pub proof fn lemma_a_handle_with_a_slash_nests_in_another_jail(base: Seq<char>)
    ensures "alice"@ != "alice/sub"@ && inside(jail_text(base, "alice"@), jail_text(base, "alice/sub"@))
{
    reveal_strlit("alice"); reveal_strlit("alice/sub"); reveal_strlit("/"); reveal_strlit("ta");
    let j1 = base + "alice"@ + "/"@; let j2 = base + "alice/sub"@ + "/"@;
    assert("alice"@.len() == 5 && "alice/sub"@.len() == 9);
    assert(j2.subrange(0, j1.len() as int) =~= j1);
}
'''

# KNOWN FINDING F24: false for handles that contain "/" (Handle accepts it; such publishers can be created through the API)
LEMMA_ALL = r'''
pub proof fn lemma_jails_of_different_publishers_are_not_nested(base: Seq<char>, h1: Seq<char>, h2: Seq<char>)
    requires h1 != h2, h1 != "ta"@, h2 != "ta"@
    ensures !inside(jail_text(base, h1), jail_text(base, h2))
{
}
'''


def build():
    U = Unit('c10_base', 'C10', 'the jail of a publisher is rsync base + handle + "/"; jails of slash-free handles are never nested')
    prelude.strings(U)
    prelude.format_concat(U)
    U.outside('pub mod uri { #[derive(Clone)] pub struct Rsync(pub u8); pub struct Https(pub u8); }')
    U.add('#[verifier::external_type_specification] #[verifier::external_body] pub struct ExRsync(uri::Rsync);\n#[verifier::external_type_specification] #[verifier::external_body] pub struct ExHttps(uri::Https);')
    U.opaque('PublisherHandle', 'Clone')
    for t in ['UriError', 'MyHandle', 'IdCertInfo', 'Publisher']:
        U.opaque(t, '')
    U.outside('''
use std::collections::HashMap;
pub type KrillResult<T> = Result<T, Error>;
impl VxS for uri::Rsync { fn vx_s(&self) -> String { unimplemented!() } }
impl VxS for PublisherHandle { fn vx_s(&self) -> String { unimplemented!() } }
impl<'a> VxS for &'a PublisherHandle { fn vx_s(&self) -> String { unimplemented!() } }
impl PublisherHandle { pub fn as_str(&self) -> &str { unimplemented!() } }
impl uri::Rsync { pub fn vx_from_str(_s: &str) -> Result<uri::Rsync, UriError> { unimplemented!() } }
''')
    U.auto_opaque = True
    U.struct(AC, 'RepositoryAccess', derive=[])
    U.enum('src/commons/error.rs', 'Error', keep=['Custom'], derive=[])
    U.free(U.const('src/constants.rs', None, 'TA_NAME'))
    U.add(SPEC)
    U.impl('impl RepositoryAccess', [
        U.fn(AC, 'RepositoryAccess', 'publisher_rsync_base', fmt='concat', subst=[('uri::Rsync::from_str(', 'uri::Rsync::vx_from_str(', 'R14')],
             ensures=[('base_plus_handle_plus_slash_the_trust_anchor_at_the_base', 'r is Ok ==> uri_text(r->Ok_0) == jail_text(uri_text(self.rsync_base), handle_text(*name))')],
             ghost=[(('body_start',), 'proof { reveal_strlit("ta"); reveal_strlit("/"); }')]),
    ])
    U.lemma('jails_of_slash_free_handles_are_not_nested', LEMMA_PREFIX)
    U.lemma('a_handle_with_a_slash_nests_in_another_jail', WITNESS)
    U.lemma('jails_of_different_publishers_are_not_nested', LEMMA_ALL)
    return U
