"""C02: a child certificate is issued for limit(issuer-resources ∩ entitlement), is contained in the issuing certificate,
and the signed certificate carries exactly the resource set that is recorded for it."""
from vxlib import Unit
from units import prelude

MISC = 'src/commons/crypto/signing/misc.rs'
CA = 'src/api/ca.rs'
RC = 'src/server/ca/rc.rs'
KEYS = 'src/server/ca/keys.rs'
ERR = 'src/commons/error.rs'

SPEC = r'''
pub uninterp spec fn rs_contains(a: ResourceSet, b: ResourceSet) -> bool;
pub uninterp spec fn rs_intersection(a: ResourceSet, b: ResourceSet) -> ResourceSet;
pub uninterp spec fn limit_apply(l: RequestResourceLimit, r: ResourceSet) -> ResourceSet;
pub uninterp spec fn csr_key(c: CsrInfo) -> KeyIdentifier;
/// the resource extensions / subject key of a to-be-signed and of a signed certificate, and the certificate inside a CertInfo
pub uninterp spec fn tbs_resources(t: TbsCert) -> ResourceSet;
pub uninterp spec fn tbs_key(t: TbsCert) -> KeyIdentifier;
pub uninterp spec fn cert_resources(c: Cert) -> ResourceSet;
pub uninterp spec fn cert_key(c: Cert) -> KeyIdentifier;
pub uninterp spec fn cert_of<T>(c: CertInfo<T>) -> Cert;
pub assume_specification [ResourceSet::contains] (a: &ResourceSet, b: &ResourceSet) -> (r: bool) ensures r == rs_contains(*a, *b);
pub assume_specification [ResourceSet::intersection] (a: &ResourceSet, b: &ResourceSet) -> (r: ResourceSet) ensures r == rs_intersection(*a, *b);
pub assume_specification [RequestResourceLimit::apply_to] (l: &RequestResourceLimit, s: &ResourceSet) -> (r: Result<ResourceSet, provisioning::Error>)
    ensures r is Ok ==> r->Ok_0 == limit_apply(*l, *s);
#[verifier::external_type_specification] #[verifier::external_body] pub struct ExAsBlocks(AsBlocks);
#[verifier::external_type_specification] #[verifier::external_body] pub struct ExIpv4Blocks(Ipv4Blocks);
#[verifier::external_type_specification] #[verifier::external_body] pub struct ExIpv6Blocks(Ipv6Blocks);
pub assume_specification [ResourceSet::new] (a: AsBlocks, v4: Ipv4Blocks, v6: Ipv6Blocks) -> (r: ResourceSet);
pub assume_specification [ResourceSet::asn] (r: &ResourceSet) -> (o: &AsBlocks);
pub assume_specification [ResourceSet::ipv4] (r: &ResourceSet) -> (o: &Ipv4Blocks);
pub assume_specification [ResourceSet::ipv6] (r: &ResourceSet) -> (o: &Ipv6Blocks);
pub assume_specification [RequestResourceLimit::asn] (r: &RequestResourceLimit) -> (o: Option<&AsBlocks>);
pub assume_specification [RequestResourceLimit::ipv4] (r: &RequestResourceLimit) -> (o: Option<&Ipv4Blocks>);
pub assume_specification [RequestResourceLimit::ipv6] (r: &RequestResourceLimit) -> (o: Option<&Ipv6Blocks>);
pub assume_specification [<AsBlocks as Clone>::clone] (n: &AsBlocks) -> (r: AsBlocks);
pub assume_specification [<Ipv4Blocks as Clone>::clone] (n: &Ipv4Blocks) -> (r: Ipv4Blocks);
pub assume_specification [<Ipv6Blocks as Clone>::clone] (n: &Ipv6Blocks) -> (r: Ipv6Blocks);
pub assume_specification [KrillSigner::sign_cert] (s: &KrillSigner, tbs: TbsCert, k: &KeyIdentifier) -> (r: Result<Cert, crypto::Error>)
    ensures r is Ok ==> cert_resources(r->Ok_0) == tbs_resources(tbs) && cert_key(r->Ok_0) == tbs_key(tbs);
pub assume_specification [IssuanceTimingConfig::new_child_cert_validity] (a: &IssuanceTimingConfig) -> (r: Validity);
pub assume_specification [CsrInfo::key_id] (c: &CsrInfo) -> (r: KeyIdentifier) ensures r == csr_key(*c);
'''


def build():
    U = Unit('c02_issue', 'C02', 'issuing a child certificate: limit(issuer ∩ entitlement), contained in the issuing certificate, signed set == recorded set')
    prelude.strings(U)
    U.opaque('KeyIdentifier', 'Clone, Copy, PartialEq, Eq, Hash')
    U.opaque('Hash', 'Clone, Copy')
    for t in ['ObjectName', 'ResourceSet', 'RequestResourceLimit', 'Name', 'CsrInfo', 'Base64', 'Issued', 'Received', 'IssuanceRequest', 'RepoInfo']:
        U.opaque(t, 'Clone')
    U.opaque('Rsync', 'Clone', module='uri')
    U.opaque('Validity', 'Clone, Copy')
    U.opaque('Serial', 'Clone, Copy')
    for t in ['IssuanceTimingConfig', 'KrillSigner', 'Cert', 'TbsCert', 'PublicKey', 'InvalidCert', 'PendingKey', 'OldKey']:
        U.opaque(t, '')
    U.outside('''
pub mod provisioning { pub struct Error(pub u8); }
pub mod crypto { pub struct Error(pub u8); }
pub type KrillResult<T> = Result<T, Error>;
pub type IssuedCertificate = CertInfo<Issued>;
pub type ReceivedCert = CertInfo<Received>;
pub type CurrentKey = CertifiedKey;
pub type NewKey = CertifiedKey;
impl From<provisioning::Error> for Error { fn from(e: provisioning::Error) -> Self { Error::Rfc6492(e) } }
impl From<crypto::Error> for Error { fn from(e: crypto::Error) -> Self { Error::SignerError(e) } }
impl ResourceSet {
    pub fn contains(&self, _o: &ResourceSet) -> bool { unimplemented!() }
    pub fn intersection(&self, _o: &ResourceSet) -> ResourceSet { unimplemented!() }
}
impl RequestResourceLimit { pub fn apply_to(&self, _s: &ResourceSet) -> Result<ResourceSet, provisioning::Error> { unimplemented!() } }
// the component API of the resource algebra (rpki-rs), declared so that code which assembles a resource set by hand is decided
// rather than unresolvable; nothing is assumed about what the components mean
#[derive(Clone)] pub struct AsBlocks(pub u8);
#[derive(Clone)] pub struct Ipv4Blocks(pub u8);
#[derive(Clone)] pub struct Ipv6Blocks(pub u8);
impl ResourceSet {
    pub fn new(_a: AsBlocks, _v4: Ipv4Blocks, _v6: Ipv6Blocks) -> ResourceSet { unimplemented!() }
    pub fn asn(&self) -> &AsBlocks { unimplemented!() }
    pub fn ipv4(&self) -> &Ipv4Blocks { unimplemented!() }
    pub fn ipv6(&self) -> &Ipv6Blocks { unimplemented!() }
}
impl RequestResourceLimit {
    pub fn asn(&self) -> Option<&AsBlocks> { unimplemented!() }
    pub fn ipv4(&self) -> Option<&Ipv4Blocks> { unimplemented!() }
    pub fn ipv6(&self) -> Option<&Ipv6Blocks> { unimplemented!() }
}
impl KrillSigner { pub fn sign_cert(&self, _t: TbsCert, _k: &KeyIdentifier) -> Result<Cert, crypto::Error> { unimplemented!() } }
impl IssuanceTimingConfig { pub fn new_child_cert_validity(&self) -> Validity { unimplemented!() } }
impl CsrInfo { pub fn key_id(&self) -> KeyIdentifier { unimplemented!() } }
impl From<&Cert> for ObjectName { fn from(_c: &Cert) -> Self { unimplemented!() } }
pub struct SignSupport;
''')
    U.add('''
#[verifier::external_type_specification] #[verifier::external_body] pub struct ExPErr(provisioning::Error);
#[verifier::external_type_specification] #[verifier::external_body] pub struct ExCErr(crypto::Error);
pub enum Error { Rfc6492(provisioning::Error), SignerError(crypto::Error), MissingResources, KeyUseNoCurrentKey, Custom(String) }
pub assume_specification [<Error as From<provisioning::Error>>::from] (e: provisioning::Error) -> (r: Error);
pub assume_specification [<Error as From<crypto::Error>>::from] (e: crypto::Error) -> (r: Error);
''')
    U.struct(CA, 'CertInfo', derive=[])
    U.add(SPEC)
    U.enum(MISC, 'CertRequest', keep=['Ca', 'Ee'], derive=[])
    U.struct(KEYS, 'CertifiedKey', derive=[])
    U.enum(KEYS, 'KeyState', keep=['Pending', 'Active', 'RollPending', 'RollNew', 'RollOld'], derive=[])
    U.auto_opaque = True
    U.struct(RC, 'ResourceClass', derive=[])
    U.impl('impl<T> CertInfo<T>', [
        U.fn(CA, 'CertInfo', 'key_identifier', ensures=[('is_csr_key', 'r == csr_key(self.csr_info)')]),
        U.fn(CA, 'CertInfo', 'uri_for_object', external_body=True),
        # assumed: CertInfo::create files the arguments it is given (body does URI string slicing, outside the verifier)
        U.fn(CA, 'CertInfo', 'create', external_body=True, ensures=[
            ('files_arguments', 'r is Ok ==> r->Ok_0.resources == resources && r->Ok_0.limit == limit && cert_of(r->Ok_0) == cert && csr_key(r->Ok_0.csr_info) == cert_key(cert)')]),
    ])
    U.impl('impl CertifiedKey', [
        U.fn(KEYS, 'CertifiedKey', 'incoming_cert', ensures=[('is_field', '*r == self.incoming_cert')]),
    ])
    U.impl('impl SignSupport', [
        U.fn(MISC, 'SignSupport', 'make_tbs_cert', external_body=True, ensures=[
            ('assumed', 'r is Ok ==> tbs_resources(r->Ok_0) == *resources && (request is Ca ==> tbs_key(r->Ok_0) == csr_key(request->Ca_0))')]),
        U.fn(MISC, 'SignSupport', 'make_issued_cert',
             closures={0: {'header': '|e: InvalidCert| -> (o: Error)', 'ensures': 'true'}},
             ensures=[
            ('ok', """r is Ok ==> csr_key(r->Ok_0.csr_info) == csr_key(csr) && r->Ok_0.limit == limit
                && r->Ok_0.resources == limit_apply(limit, *resources) && rs_contains(signing_cert.resources, r->Ok_0.resources)"""),
            ('signed_set_is_recorded_set', 'r is Ok ==> cert_resources(cert_of(r->Ok_0)) == r->Ok_0.resources'),
        ]),
    ])
    U.impl('impl ResourceClass', [
        U.fn(RC, 'ResourceClass', 'current_key', ensures=[
            ('current_of_phase', '(r is Some <==> cur(*self) is Some) && (r is Some ==> *r->Some_0 == cur(*self)->Some_0)')]),
        U.fn(RC, 'ResourceClass', 'get_current_key', ensures=[('some_iff_ok', 'r is Ok <==> !(self.key_state is Pending)'), ('same', 'r is Ok ==> cur(*self) is Some && *r->Ok_0 == cur(*self)->Some_0')],
             closures=None),
        U.fn(RC, 'ResourceClass', 'issue_cert', ensures=[
            ('entitlement_intersected_with_issuer_then_limited', '''r is Ok ==> cur(*self) is Some
                && r->Ok_0.resources == limit_apply(limit, rs_intersection(cur(*self)->Some_0.incoming_cert.resources, *child_resources))'''),
            ('never_outside_issuing_certificate', 'r is Ok ==> rs_contains(cur(*self)->Some_0.incoming_cert.resources, r->Ok_0.resources)'),
            ('for_requested_key', 'r is Ok ==> csr_key(r->Ok_0.csr_info) == csr_key(csr) && r->Ok_0.limit == limit'),
            ('signed_set_is_recorded_set', 'r is Ok ==> cert_resources(cert_of(r->Ok_0)) == r->Ok_0.resources'),
        ]),
    ])
    U.add('''
pub open spec fn cur(rc: ResourceClass) -> Option<CertifiedKey> {
    match rc.key_state { KeyState::Pending(_) => None, KeyState::Active(c) => Some(c), KeyState::RollPending(_, c) => Some(c),
        KeyState::RollNew(_, c) => Some(c), KeyState::RollOld(c, _) => Some(c) }
}''')
    return U
