from units.c13_handlers import build_file


def extra(U):
    U.opaque('ChildHandle', 'Clone, PartialEq, Eq', eq=True)
    U.struct('src/api/aspa.rs', 'AspaDefinitionUpdates', derive=[])
    U.struct('src/api/history.rs', 'CommandHistoryCriteria', derive=[], default_ensures=[('any', 'true')])
    U.struct('src/api/bgp.rs', 'BgpAnalysisAdvice', derive=[])
    U.struct('src/api/import.rs', 'ImportChild', derive=[])
    U.enum('src/commons/error.rs', 'Error', keep=['CaChildImportHandleMismatch'], derive=[])
    U.outside('''
impl PublisherRequest { pub fn to_xml_vec(&self) -> Vec<u8> { unimplemented!() } }
impl ParentResponse { pub fn to_xml_vec(&self) -> Vec<u8> { unimplemented!() } }
impl ChildRequest { pub fn to_xml_vec(&self) -> Vec<u8> { unimplemented!() } }
impl RoaConfigurationUpdates {
    pub fn set_explicit_max_length(&mut self) { unimplemented!() }
    pub fn affected_prefixes(&self) -> ResourceSet { unimplemented!() }
}
impl Clone for RoaConfigurationUpdates { fn clone(&self) -> Self { unimplemented!() } }
impl BgpAnalysisReport { pub fn contains_invalids(&self) -> bool { unimplemented!() } }
impl HttpResponse { pub fn response_from_error(_e: Error) -> Self { unimplemented!() } }
''')
    U.add('''
pub assume_specification [PublisherRequest::to_xml_vec] (x: &PublisherRequest) -> (r: Vec<u8>);
pub assume_specification [ParentResponse::to_xml_vec] (x: &ParentResponse) -> (r: Vec<u8>);
pub assume_specification [ChildRequest::to_xml_vec] (x: &ChildRequest) -> (r: Vec<u8>);
pub assume_specification [RoaConfigurationUpdates::set_explicit_max_length] (x: &mut RoaConfigurationUpdates);
pub assume_specification [RoaConfigurationUpdates::affected_prefixes] (x: &RoaConfigurationUpdates) -> (r: ResourceSet);
pub assume_specification [<RoaConfigurationUpdates as Clone>::clone] (x: &RoaConfigurationUpdates) -> (r: RoaConfigurationUpdates);
pub assume_specification [BgpAnalysisReport::contains_invalids] (x: &BgpAnalysisReport) -> (r: bool);
pub assume_specification [HttpResponse::response_from_error] (e: Error) -> (r: HttpResponse);
''')


def build():
    return build_file('cas.rs', 'c13_h_cas', 'route table /api/v1/cas/**: each facade call is dominated by proceed_permitted with the required permission for the addressed CA',
                      skip=('index_get',), extra=extra)
