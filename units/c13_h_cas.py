from units.c13_handlers import build_file


def extra(U):
    U.opaque('ChildHandle', 'Clone, PartialEq, Eq', eq=True)
    U.struct('src/api/aspa.rs', 'AspaDefinitionUpdates', derive=[])
    U.struct('src/api/history.rs', 'CommandHistoryCriteria', derive=[], default_ensures=[('any', 'true')])
    U.struct('src/api/bgp.rs', 'BgpAnalysisAdvice', derive=[])
    U.struct('src/api/import.rs', 'ImportChild', derive=[])
    U.enum('src/commons/error.rs', 'Error', keep=['CaChildImportHandleMismatch'], derive=[])
    U.outside('''
impl PublisherRequest { pub fn to_xml_vec(&self) -> Vec<u8> { unimplemented!() } }
impl ParentResponse { pub fn to_xml_vec(&self) -> Vec<u8> { unimplemented!() } }
impl ChildRequest { pub fn to_xml_vec(&self) -> Vec<u8> { unimplemented!() } }
impl RoaConfigurationUpdates {
    pub fn set_explicit_max_length(&mut self) { unimplemented!() }
    pub fn affected_prefixes(&self) -> ResourceSet { unimplemented!() }
}
impl Clone for RoaConfigurationUpdates { fn clone(&self) -> Self { unimplemented!() } }
impl BgpAnalysisReport { pub fn contains_invalids(&self) -> bool { unimplemented!() } }
impl HttpResponse { pub fn response_from_error(_e: Error) -> Self { unimplemented!() } }
''')
    U.add('''
pub assume_specification [PublisherRequest::to_xml_vec] (x: &PublisherRequest) -> (r: Vec<u8>);
pub assume_specification [ParentResponse::to_xml_vec] (x: &ParentResponse) -> (r: Vec<u8>);
pub assume_specification [ChildRequest::to_xml_vec] (x: &ChildRequest) -> (r: Vec<u8>);
pub assume_specification [RoaConfigurationUpdates::set_explicit_max_length] (x: &mut RoaConfigurationUpdates);
pub assume_specification [RoaConfigurationUpdates::affected_prefixes] (x: &RoaConfigurationUpdates) -> (r: ResourceSet);
pub assume_specification [<RoaConfigurationUpdates as Clone>::clone] (x: &RoaConfigurationUpdates) -> (r: RoaConfigurationUpdates);
pub assume_specification [BgpAnalysisReport::contains_invalids] (x: &BgpAnalysisReport) -> (r: bool);
pub assume_specification [HttpResponse::response_from_error] (e: Error) -> (r: HttpResponse);
''')


def build():
    U = build_file('cas.rs', 'c13_h_cas', 'route table /api/v1/cas/**: each facade call is dominated by proceed_permitted with the required permission for the addressed CA',
                      skip=('index_get',), extra=extra)
    # the CA listing filters inside a filter_map closure: the closure body (R15) decides which CAs the caller gets to see
    from vxlib import Seg
    U.struct('src/api/ca.rs', 'CertAuthSummary', derive=[])
    U.add('pub assume_specification<T> [bool::then_some::<T>] (b: bool, t: T) -> (r: Option<T>) ensures r == (if b { Some(t) } else { None::<T> });')
    U.free(U.closure_fn('src/daemon/http/dispatch/cas.rs', None, 'index_get', 0, 'vx_index_get_filter',
                        '(handle: CaHandle, auth: &AuthInfo) -> (r: Option<CertAuthSummary>)',
                        ensures=[('listed_iff_ca_read_on_that_ca', '(r is Some) <==> auth_allows(*auth, Permission::CaRead, Some(handle))'),
                                 ('lists_the_ca_itself', 'r is Some ==> r->Some_0.handle == handle')]))
    U.notes = [n for n in U.notes if 'index_get' not in n] + ['handler cas.rs::index_get: only its filter closure is verified (R15); the ca_handles()/collect glue is not']
    return U
