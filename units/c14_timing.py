"""C14 (timing derivation): every re-issue threshold and validity period of IssuanceTimingConfig is computed from ITS OWN
configured number of weeks (child certificates, ROAs, ASPAs, BGPsec router certificates), and the manifest/CRL margin is the
configured number of hours."""
from vxlib import Unit
from units import prelude

CFG = 'src/config.rs'

SPEC = r'''
/// the clock is an input; `weeks from now` is what the threshold functions add to it
pub uninterp spec fn now_value() -> Time;
pub uninterp spec fn dur_weeks(n: i64) -> Duration;
pub uninterp spec fn time_plus(t: Time, d: Duration) -> Time;
pub uninterp spec fn validity_weeks(n: i64) -> Validity;
pub assume_specification [Time::now] () -> (r: Time) ensures r == now_value();
pub assume_specification [Duration::weeks] (n: i64) -> (r: Duration) ensures r == dur_weeks(n);
pub assume_specification [SignSupport::sign_validity_weeks] (n: i64) -> (r: Validity) ensures r == validity_weeks(n);
impl vstd::std_specs::ops::AddSpecImpl<Duration> for Time {
    open spec fn obeys_add_spec() -> bool { true }
    open spec fn add_req(self, rhs: Duration) -> bool { true }
    open spec fn add_spec(self, rhs: Duration) -> Time { time_plus(self, rhs) }
}
pub assume_specification [<Time as std::ops::Add<Duration>>::add] (t: Time, d: Duration) -> (r: Time) ensures r == time_plus(t, d);
pub open spec fn weeks_from_now(n: u32) -> Time { time_plus(now_value(), dur_weeks(n as i64)) }
'''


def build():
    U = Unit('c14_timing', 'C14', 'each re-issue threshold / validity period uses its own configured margin')
    prelude.strings(U)
    prelude.int_conversions(U)
    U.opaque('Validity', 'Clone, Copy')
    U.outside('''
#[derive(Clone, Copy)] pub struct Time(pub i64);
#[derive(Clone, Copy)] pub struct Duration(pub i64);
impl std::ops::Add<Duration> for Time { type Output = Time; fn add(self, _d: Duration) -> Time { unimplemented!() } }
impl Time { pub fn now() -> Time { unimplemented!() } }
impl Duration { pub fn weeks(_n: i64) -> Duration { unimplemented!() } }
pub struct SignSupport;
impl SignSupport { pub fn sign_validity_weeks(_n: i64) -> Validity { unimplemented!() } }
''')
    U.add('''#[verifier::external_type_specification] #[verifier::external_body] pub struct ExTime(Time);
#[verifier::external_type_specification] #[verifier::external_body] pub struct ExDuration(Duration);
#[verifier::external_type_specification] pub struct ExSignSupport(SignSupport);''')
    U.struct(CFG, 'IssuanceTimingConfig', derive=['Clone', 'Copy'], structural=False)
    U.add(SPEC)
    g = [(('body_start',), 'broadcast use axiom_i64_from_u32; proof { axiom_i64_from_u32_obeys(); }')]
    thr = lambda fn, field: U.fn(CFG, 'IssuanceTimingConfig', fn, ghost=g, ensures=[('own_margin', f'r == weeks_from_now(self.{field})')])
    val = lambda fn, field: U.fn(CFG, 'IssuanceTimingConfig', fn, ghost=g, ensures=[('own_validity', f'r == validity_weeks(self.{field} as i64)')])
    U.impl('impl IssuanceTimingConfig', [
        U.fn(CFG, 'IssuanceTimingConfig', 'publish_hours_before_next', ghost=g, ensures=[('configured_hours', 'r == self.timing_publish_hours_before_next as i64')]),
        val('new_child_cert_validity', 'timing_child_certificate_valid_weeks'),
        thr('new_child_cert_not_after', 'timing_child_certificate_valid_weeks'),
        thr('new_child_cert_issuance_threshold', 'timing_child_certificate_reissue_weeks_before'),
        val('new_roa_validity', 'timing_roa_valid_weeks'),
        thr('new_roa_issuance_threshold', 'timing_roa_reissue_weeks_before'),
        val('new_aspa_validity', 'timing_aspa_valid_weeks'),
        thr('new_aspa_issuance_threshold', 'timing_aspa_reissue_weeks_before'),
        val('new_bgpsec_validity', 'timing_bgpsec_valid_weeks'),
        thr('new_bgpsec_issuance_threshold', 'timing_bgpsec_reissue_weeks_before'),
    ])
    return U
