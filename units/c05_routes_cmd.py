"""C05 / C01: the command function of a ROA delta, CertAuth::process_route_authorizations_update, on the real text.  It is the glue
between three functions that are verified on their own: the delta is first put into the explicit-max-length form (unit
c05_maxlen), THAT delta is decided by Routes::process_updates against everything the CA holds (unit c05_routes: refused exactly
when ...), a refusal is the result of the command (no event, all or nothing), and after an accepted delta the ROA objects of
EVERY resource class are re-derived from the configuration AS UPDATED (unit c01_simple / c01_aggregate: create_updates), in the
same event set as the configuration events and after them.  Nothing else is emitted."""
from vxlib import Unit
from units import prelude
from units.c05_child import common

CA = 'src/server/ca/certauth.rs'
EV = 'src/server/ca/events.rs'
ERR = 'src/commons/error.rs'

SPEC = r'''
// ---- what the callees do: named here, VERIFIED in the units given ----
/// the delta with every entry in explicit-max-length form (unit c05_maxlen: set_explicit_max_length)
pub uninterp spec fn normalised(u: RoaConfigurationUpdates) -> RoaConfigurationUpdates;
/// Routes::process_updates accepts the delta (unit c05_routes: refused exactly when an entry is invalid at its turn)
pub uninterp spec fn pu_accepts(routes: Routes, held: ResourceSet, u: RoaConfigurationUpdates) -> bool;
pub uninterp spec fn pu_routes(routes: Routes, held: ResourceSet, u: RoaConfigurationUpdates) -> Routes;
pub uninterp spec fn pu_events(routes: Routes, held: ResourceSet, u: RoaConfigurationUpdates) -> Seq<CertAuthEvent>;
/// ResourceClass::create_roa_updates for a class under a configuration (units c01_simple, c01_aggregate); None: signing failed
pub uninterp spec fn roa_updates(rc: ResourceClass, routes: Routes) -> Option<RoaUpdates>;
pub uninterp spec fn ru_is_empty(u: RoaUpdates) -> bool;

impl RoaConfigurationUpdates {
    #[verifier::external_body]
    pub fn set_explicit_max_length(&mut self) ensures *final(self) == normalised(*old(self)) { unimplemented!() }
}
impl Routes {
    #[verifier::external_body]
    pub fn process_updates(&self, handle: &CaHandle, all_resources: &ResourceSet, updates: &RoaConfigurationUpdates) -> (r: KrillResult<(Routes, Vec<CertAuthEvent>)>)
        ensures (r is Ok) == pu_accepts(*self, *all_resources, *updates),
            r is Ok ==> r->Ok_0.0 == pu_routes(*self, *all_resources, *updates) && r->Ok_0.1@ == pu_events(*self, *all_resources, *updates),
    { unimplemented!() }
}
impl ResourceClass {
    #[verifier::external_body]
    pub fn create_roa_updates(&self, routes: &Routes, config: &Config, signer: &KrillSigner) -> (r: KrillResult<RoaUpdates>)
        ensures match r { Ok(u) => roa_updates(*self, *routes) == Some(u), Err(_) => roa_updates(*self, *routes) is None }
    { unimplemented!() }
}
impl RoaUpdates {
    #[verifier::external_body]
    pub fn is_empty(&self) -> (r: bool) ensures r == ru_is_empty(*self) { unimplemented!() }
}

// ---- statement-level vocabulary ----
/// the ROA-object event of class `n` under configuration `routes`
pub open spec fn is_roa_event_of(ca: CertAuth, routes: Routes, e: CertAuthEvent) -> bool {
    match e {
        CertAuthEvent::RoasUpdated { resource_class_name, updates } => ca.resources@.contains_key(resource_class_name)
            && roa_updates(ca.resources@[resource_class_name], routes) == Some(updates) && !ru_is_empty(updates),
        _ => false,
    }
}
/// class `n` is served: its objects need no change under `routes`, or the event that changes them is among evs[from..]
pub open spec fn class_served(ca: CertAuth, routes: Routes, evs: Seq<CertAuthEvent>, from: int, n: ResourceClassName) -> bool {
    roa_updates(ca.resources@[n], routes) is Some && (ru_is_empty(roa_updates(ca.resources@[n], routes)->Some_0)
        || exists |i: int| from <= i < evs.len() && #[trigger] evs[i] == (CertAuthEvent::RoasUpdated { resource_class_name: n, updates: roa_updates(ca.resources@[n], routes)->Some_0 }))
}
pub proof fn lemma_served_mono(ca: CertAuth, routes: Routes, a: Seq<CertAuthEvent>, e: CertAuthEvent, from: int, n: ResourceClassName)
    requires class_served(ca, routes, a, from, n) ensures class_served(ca, routes, a.push(e), from, n)
{
    if !ru_is_empty(roa_updates(ca.resources@[n], routes)->Some_0) {
        let i = choose |i: int| from <= i < a.len() && #[trigger] a[i] == (CertAuthEvent::RoasUpdated { resource_class_name: n, updates: roa_updates(ca.resources@[n], routes)->Some_0 });
        assert(a.push(e)[i] == a[i]);
    }
}
'''


def build():
    U = Unit('c05_routes_cmd', 'C05', 'ROA delta command: the normalised delta is decided against everything held, a refusal yields no event, an accepted delta re-derives the ROA objects of every class from the updated configuration in the same event set')
    common(U, skip=('ResourceClass', 'Routes'))
    U.opaque('ResourceClass', '')
    U.opaque('Routes', '')
    for t in ['RoaConfigurationUpdates', 'RoaUpdates', 'Config', 'KrillSigner', 'ChildDetails', 'RoaPayloadJsonMapKey']:
        U.opaque(t, '')
    U.struct(CA, 'CertAuth', derive=[])
    U.enum(EV, 'CertAuthEvent', keep=['RoasUpdated', 'RouteAuthorizationAdded', 'RouteAuthorizationRemoved', 'RouteAuthorizationComment'], derive=[])
    U.enum(ERR, 'Error', keep=[], derive=[])
    U.add(SPEC)
    km = 'obeys_key_model::<ResourceClassName>()'
    held = 'all_res(*self)'
    n_ = 'normalised(route_auth_updates)'
    R_ = f'pu_routes(self.routes, {held}, {n_})'
    E_ = f'pu_events(self.routes, {held}, {n_})'
    nI = 'normalised(g_u)'
    RI = f'pu_routes(self.routes, {held}, {nI})'
    EI = f'pu_events(self.routes, {held}, {nI})'
    U.impl('impl CertAuth', [
        U.fn(CA, 'CertAuth', 'all_resources', external_body=True, ensures=[('is_all_res', 'r == all_res(*self)')]),
        U.fn(CA, 'CertAuth', 'handle', ensures=[('own_handle', '*r == self.handle')]),
        U.fn(CA, 'CertAuth', 'process_route_authorizations_update', requires=[('km', km)], hash_loops=(0,), attrs=['#[verifier::loop_isolation(false)]'],
             ensures=[
                 ('the_normalised_delta_is_decided_against_everything_held', f'r is Ok ==> pu_accepts(self.routes, {held}, {n_})'),
                 ('refused_only_when_the_delta_is_refused_or_signing_fails', f'''r is Err ==> !pu_accepts(self.routes, {held}, {n_})
                        || exists |n: ResourceClassName| #[trigger] self.resources@.contains_key(n) && roa_updates(self.resources@[n], {R_}) is None'''),
                 ('configuration_events_first_and_unchanged', f'r is Ok ==> r->Ok_0@.len() >= {E_}.len() && r->Ok_0@.subrange(0, {E_}.len() as int) == {E_}'),
                 ('objects_of_every_class_follow_the_updated_configuration', f'''r is Ok ==> forall |n: ResourceClassName| #[trigger] self.resources@.contains_key(n) ==>
                        class_served(*self, {R_}, r->Ok_0@, {E_}.len() as int, n)'''),
                 ('nothing_else_is_emitted', f'r is Ok ==> forall |i: int| {E_}.len() <= i < r->Ok_0@.len() ==> is_roa_event_of(*self, {R_}, #[trigger] r->Ok_0@[i])'),
             ],
             loops={0: {'iter': 'vx_it', 'invariant': [
                 ('km', km),
                 ('pairs', '''vx_it.seq().len() == self.resources@.len() && (forall |i: int| 0 <= i < vx_it.seq().len() ==> self.resources@.contains_key(*(#[trigger] vx_it.seq()[i]).0)
                        && self.resources@[*vx_it.seq()[i].0] == *vx_it.seq()[i].1) && vx_it.seq().no_duplicates()'''),
                 ('accepted', f'pu_accepts(self.routes, {held}, {nI}) && routes == {RI}'),
                 ('configuration_events_kept', f'events@.len() >= {EI}.len() && events@.subrange(0, {EI}.len() as int) == {EI}'),
                 ('only_roa_events_added', f'forall |i: int| {EI}.len() <= i < events@.len() ==> is_roa_event_of(*self, routes, #[trigger] events@[i])'),
                 ('classes_done_or_to_come', f'''forall |n: ResourceClassName| #[trigger] self.resources@.contains_key(n) ==>
                        class_served(*self, routes, events@, {EI}.len() as int, n)
                        || exists |j: int| vx_it.index@ <= j < vx_it.seq().len() && *(#[trigger] vx_it.seq()[j]).0 == n'''),
             ]}},
             ghost=[
                 (('body_start',), 'let ghost g_u = route_auth_updates;'),
                 (('before_loop', 0), f'proof {{ assert(events@.subrange(0, {EI}.len() as int) =~= {EI}); }}'),
                 (('loop_start', 0), '''let ghost g_ev = events@; let ghost g_i = vx_it.index@ as int;
            proof {
                assert(*rcn == *vx_it.seq()[g_i].0 && *rc == *vx_it.seq()[g_i].1);
                assert forall |i: int| 0 <= i < vx_it.seq().len() && i != g_i implies *(#[trigger] vx_it.seq()[i]).0 != *rcn by {
                    let a = vx_it.seq()[i]; let b = vx_it.seq()[g_i];
                    if *a.0 == *b.0 { assert(*a.1 == self.resources@[*a.0]); assert(*b.1 == self.resources@[*b.0]); assert(a == b); }
                }
            }'''),
                 (('loop_end', 0), f'''proof {{
                let ghost from = {EI}.len() as int;
                if events@.len() > g_ev.len() {{ assert(events@ =~= g_ev.push(events@.last())); assert(events@.subrange(0, from) =~= g_ev.subrange(0, from)); }}
                assert forall |n: ResourceClassName| #[trigger] self.resources@.contains_key(n) implies
                        class_served(*self, routes, events@, from, n)
                        || exists |j: int| g_i + 1 <= j < vx_it.seq().len() && *(#[trigger] vx_it.seq()[j]).0 == n by {{
                    if n == *rcn {{
                        /*@this_class_gets_its_event_when_its_objects_change*/ assert(class_served(*self, routes, events@, from, n));
                    }} else if class_served(*self, routes, g_ev, from, n) {{
                        if events@.len() > g_ev.len() {{ lemma_served_mono(*self, routes, g_ev, events@.last(), from, n); }}
                    }} else {{
                        let j = choose |j: int| g_i <= j < vx_it.seq().len() && *(#[trigger] vx_it.seq()[j]).0 == n;
                        assert(j != g_i);
                    }}
                }}
            }}'''),
             ]),
    ])
    return U
