"""C11 (files): commons::file::create_file -- the file handed back for writing holds nothing of an earlier write.  Every RRDP file
(notification, snapshot, delta) and every rsync object is written through it; `new-notification.xml` in particular is written
again under the same name after an interrupted write, so a file that is opened without truncation keeps the tail of the longer,
older content and the notification that is then switched in is not the one that was written (F18).  std::fs::OpenOptions is an
ASSUMED external with a ghost view of its truncate flag: open() hands back an empty file if the flag is set (POSIX O_TRUNC)."""
from vxlib import Unit
from units import prelude

F = 'src/commons/file.rs'

SPEC = r'''
pub uninterp spec fn oo_truncate(o: OpenOptions) -> bool;
/// the file, as opened, holds no bytes of an earlier write
pub uninterp spec fn starts_empty(f: File) -> bool;
// ASSUMED: std::fs::OpenOptions (builder; only the truncate flag is modelled), std::path, std::fs::create_dir_all
pub assume_specification [OpenOptions::new] () -> (r: OpenOptions) ensures !oo_truncate(r);
pub assume_specification [OpenOptions::create] (o: &mut OpenOptions, b: bool) -> (r: &mut OpenOptions) ensures oo_truncate(*final(o)) == oo_truncate(*old(o));
pub assume_specification [OpenOptions::read] (o: &mut OpenOptions, b: bool) -> (r: &mut OpenOptions) ensures oo_truncate(*final(o)) == oo_truncate(*old(o));
pub assume_specification [OpenOptions::write] (o: &mut OpenOptions, b: bool) -> (r: &mut OpenOptions) ensures oo_truncate(*final(o)) == oo_truncate(*old(o));
pub assume_specification [OpenOptions::append] (o: &mut OpenOptions, b: bool) -> (r: &mut OpenOptions) ensures oo_truncate(*final(o)) == oo_truncate(*old(o));
pub assume_specification [OpenOptions::truncate] (o: &mut OpenOptions, b: bool) -> (r: &mut OpenOptions) ensures oo_truncate(*final(o)) == b;
pub assume_specification [OpenOptions::vx_mode] (o: &mut OpenOptions, m: u32) ensures oo_truncate(*final(o)) == oo_truncate(*old(o));
pub assume_specification [OpenOptions::vx_open] (o: &OpenOptions, p: &Path) -> (r: Result<File, IoError>)
    ensures r is Ok && oo_truncate(*o) ==> starts_empty(r->Ok_0);
pub assume_specification [Path::exists] (p: &Path) -> (r: bool);
pub assume_specification<'a> [Path::parent] (p: &'a Path) -> (r: Option<&'a Path>);
pub assume_specification [vx_create_dir_all] (p: &Path) -> (r: Result<(), IoError>);
pub assume_specification [KrillIoError::new] (s: String, e: IoError) -> (r: KrillIoError);
'''

OUT = '''
pub struct OpenOptions(pub u8); pub struct File(pub u8); pub struct Path(pub u8); pub struct IoError(pub u8); pub struct KrillIoError(pub u8);
impl OpenOptions {
    pub fn new() -> Self { unimplemented!() }
    pub fn create(&mut self, _b: bool) -> &mut Self { unimplemented!() }
    pub fn read(&mut self, _b: bool) -> &mut Self { unimplemented!() }
    pub fn write(&mut self, _b: bool) -> &mut Self { unimplemented!() }
    pub fn append(&mut self, _b: bool) -> &mut Self { unimplemented!() }
    pub fn truncate(&mut self, _b: bool) -> &mut Self { unimplemented!() }
    pub fn vx_mode(&mut self, _m: u32) { unimplemented!() }
    pub fn vx_open(&self, _p: &Path) -> Result<File, IoError> { unimplemented!() }
}
impl Path { pub fn exists(&self) -> bool { unimplemented!() } pub fn parent(&self) -> Option<&Path> { unimplemented!() } }
pub fn vx_create_dir_all(_p: &Path) -> Result<(), IoError> { unimplemented!() }
impl KrillIoError { pub fn new(_s: String, _e: IoError) -> Self { unimplemented!() } }
'''


def build():
    U = Unit('c11_files', 'C11', 'a file opened for (re)writing starts empty: nothing of an earlier, interrupted write of the same name survives')
    prelude.strings(U)
    U.outside(OUT)
    for t in ['OpenOptions', 'File', 'Path', 'IoError', 'KrillIoError']:
        U.add(f'#[verifier::external_type_specification] #[verifier::external_body] pub struct Ex{t}({t});')
    U.add(SPEC)
    U.free(U.fn(F, None, 'create_file', vis='pub', subst=[
        ('fs::create_dir_all(parent)', 'vx_create_dir_all(parent)', 'R14'),
        ('options.mode(0o600);', 'options.vx_mode(0o600);', 'R14'),
        ('options.open(path)', 'options.vx_open(path)', 'R14'),
    ], ensures=[('nothing_of_an_earlier_write_survives', 'r is Ok ==> starts_empty(r->Ok_0)')]))
    U.free(U.fn(F, None, 'create_file_with_path', ensures=[('nothing_of_an_earlier_write_survives', 'r is Ok ==> starts_empty(r->Ok_0)')]))
    U.free(U.fn(F, None, 'create_private_file_with_path', ensures=[('nothing_of_an_earlier_write_survives', 'r is Ok ==> starts_empty(r->Ok_0)')]))
    return U
