"""C04: CertAuth::apply -- the dispatch from a stored key event to the apply_* step of the addressed resource class: an event
that is enabled in that class's phase (ev_enabled) is applied without reaching a panic, moves exactly that class to the phase
the state machine prescribes and leaves every other class alone.  (The apply_* steps themselves are verified in c04_keystate;
here they carry the same contracts as assumptions.)"""
from vxlib import Unit
from units import prelude

CA = 'src/server/ca/certauth.rs'
RC = 'src/server/ca/rc.rs'
KEYS = 'src/server/ca/keys.rs'
EV = 'src/server/ca/events.rs'

KEY_EVENTS = ['CertificateRequested', 'CertificateReceived', 'KeyRollPendingKeyAdded', 'KeyPendingToNew', 'KeyPendingToActive',
              'KeyRollActivated', 'KeyRollFinished']

SPEC = r'''
pub enum Phase { Pending, Active, RollPending, RollNew, RollOld }
pub open spec fn phase(k: KeyState) -> Phase {
    match k { KeyState::Pending(_) => Phase::Pending, KeyState::Active(_) => Phase::Active, KeyState::RollPending(_, _) => Phase::RollPending,
              KeyState::RollNew(_, _) => Phase::RollNew, KeyState::RollOld(_, _) => Phase::RollOld }
}
/// same definition as in unit c04_keystate: the phase in which applying `ev` does not reach a panic arm
pub open spec fn ev_enabled(ev: CertAuthEvent, ks: KeyState) -> bool {
    match ev {
        CertAuthEvent::CertificateReceived { .. } => !(phase(ks) is Pending),
        CertAuthEvent::KeyRollPendingKeyAdded { .. } => phase(ks) is Active,
        CertAuthEvent::KeyPendingToNew { .. } => phase(ks) is RollPending,
        CertAuthEvent::KeyPendingToActive { .. } => phase(ks) is Pending,
        CertAuthEvent::KeyRollActivated { .. } => phase(ks) is RollNew,
        CertAuthEvent::KeyRollFinished { .. } => phase(ks) is RollOld,
        _ => true,
    }
}
pub open spec fn ev_class(ev: CertAuthEvent) -> ResourceClassName {
    match ev {
        CertAuthEvent::CertificateRequested { resource_class_name, .. } => resource_class_name,
        CertAuthEvent::CertificateReceived { resource_class_name, .. } => resource_class_name,
        CertAuthEvent::KeyRollPendingKeyAdded { resource_class_name, .. } => resource_class_name,
        CertAuthEvent::KeyPendingToNew { resource_class_name, .. } => resource_class_name,
        CertAuthEvent::KeyPendingToActive { resource_class_name, .. } => resource_class_name,
        CertAuthEvent::KeyRollActivated { resource_class_name, .. } => resource_class_name,
        CertAuthEvent::KeyRollFinished { resource_class_name } => resource_class_name,
        _ => arbitrary(),
    }
}
/// the phase after the event (the state machine of the statement)
pub open spec fn next_phase(ev: CertAuthEvent, p: Phase) -> Phase {
    match ev {
        CertAuthEvent::KeyRollPendingKeyAdded { .. } => Phase::RollPending,
        CertAuthEvent::KeyPendingToNew { .. } => Phase::RollNew,
        CertAuthEvent::KeyPendingToActive { .. } => Phase::Active,
        CertAuthEvent::KeyRollActivated { .. } => Phase::RollOld,
        CertAuthEvent::KeyRollFinished { .. } => Phase::Active,
        _ => p,
    }
}
'''


def build():
    U = Unit('c04_apply', 'C04', 'CertAuth::apply dispatch for key events: enabled event => no panic, addressed class moves to the prescribed phase, other classes untouched')
    prelude.hashmap(U, get_mut=True)
    prelude.strings(U)
    U.opaque('KeyIdentifier', 'Clone, Copy, PartialEq, Eq', eq=True)
    U.opaque('ResourceClassName', 'Clone, PartialEq, Eq, Hash')
    for t in ['ReceivedCert', 'IssuanceRequest', 'RepoInfo', 'RevocationRequest', 'ParentHandle']:
        U.opaque(t, 'Clone')
    prelude.time(U)
    U.outside('''
pub type CurrentKey = CertifiedKey;
pub type NewKey = CertifiedKey;
''')
    for st in ['CertifiedKey', 'PendingKey', 'OldKey']:
        U.struct(KEYS, st, derive=[])
    U.enum(KEYS, 'KeyState', derive=[])
    U.auto_opaque = True
    U.struct(RC, 'ResourceClass', derive=[])
    U.struct(CA, 'CertAuth', derive=[])
    U.enum(EV, 'CertAuthEvent', keep=KEY_EVENTS, derive=[])
    U.add(SPEC)
    # ---- the apply_* steps: contracts as verified in unit c04_keystate (ASSUMED here) ----
    U.impl('impl ResourceClass', [
        U.fn(RC, 'ResourceClass', 'apply_issuance_request', external_body=True, ensures=[('phase_kept', 'phase(final(self).key_state) == phase(old(self).key_state)')]),
        U.fn(RC, 'ResourceClass', 'apply_received_cert', external_body=True, requires=[('enabled', '!(phase(old(self).key_state) is Pending)')],
             ensures=[('phase_kept', 'phase(final(self).key_state) == phase(old(self).key_state)')]),
        U.fn(RC, 'ResourceClass', 'apply_pending_key_id_added', external_body=True, requires=[('enabled', 'phase(old(self).key_state) is Active')],
             ensures=[('to', 'phase(final(self).key_state) is RollPending')]),
        U.fn(RC, 'ResourceClass', 'apply_pending_key_to_new', external_body=True, requires=[('enabled', 'phase(old(self).key_state) is RollPending')],
             ensures=[('to', 'phase(final(self).key_state) is RollNew')]),
        U.fn(RC, 'ResourceClass', 'apply_pending_key_to_active', external_body=True, requires=[('enabled', 'phase(old(self).key_state) is Pending')],
             ensures=[('to', 'phase(final(self).key_state) is Active')]),
        U.fn(RC, 'ResourceClass', 'apply_new_key_activated', external_body=True, requires=[('enabled', 'phase(old(self).key_state) is RollNew')],
             ensures=[('to', 'phase(final(self).key_state) is RollOld')]),
        U.fn(RC, 'ResourceClass', 'apply_old_key_removed', external_body=True, requires=[('enabled', 'phase(old(self).key_state) is RollOld')],
             ensures=[('to', 'phase(final(self).key_state) is Active')]),
    ])
    km = 'obeys_key_model::<ResourceClassName>()'
    U.impl('impl CertAuth', [
        U.fn(CA, 'CertAuth', 'apply', trait='Aggregate', as_inherent=True,
             keep_arms={'CertAuthEvent': KEY_EVENTS},
             requires=[('km', km), ('key_event', '!(event is VxOther)'),
                       ('class_exists', 'old(self).resources@.contains_key(ev_class(event))'),
                       ('enabled_in_the_phase_of_its_class', 'ev_enabled(event, old(self).resources@[ev_class(event)].key_state)')],
             ensures=[
                 ('class_moves_to_prescribed_phase', '''final(self).resources@.contains_key(ev_class(event))
                    && phase(final(self).resources@[ev_class(event)].key_state) == next_phase(event, phase(old(self).resources@[ev_class(event)].key_state))'''),
                 ('version_untouched', 'final(self).version == old(self).version'),
                 ('other_classes_untouched', '''forall |n: ResourceClassName| n != ev_class(event) ==>
                    (#[trigger] final(self).resources@.contains_key(n) <==> old(self).resources@.contains_key(n))
                    && (old(self).resources@.contains_key(n) ==> final(self).resources@[n] == old(self).resources@[n])'''),
             ]),
    ])
    return U
