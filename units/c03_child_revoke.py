"""C03/C12: CertAuth::process_child_revoke_key -- a revocation under whichever class name the child was told revokes the
certificate of THAT child's key in the parent's class; an empty (but positively answered) result only when the translated
class does not exist."""
from vxlib import Unit
from units import prelude
from units.c05_child import common

CA = 'src/server/ca/certauth.rs'
CH = 'src/server/ca/child.rs'
EV = 'src/server/ca/events.rs'
ERR = 'src/commons/error.rs'

SPEC = r'''
pub uninterp spec fn req_rcn(r: RevocationRequest) -> ResourceClassName;
pub uninterp spec fn req_key(r: RevocationRequest) -> KeyIdentifier;
pub assume_specification [RevocationRequest::unpack] (r: RevocationRequest) -> (o: (ResourceClassName, KeyIdentifier)) ensures o.0 == req_rcn(r), o.1 == req_key(r);
/// the parent's own name for the class the child calls `name_in_child` (class-name mapping; iterator chain, assumed)
pub uninterp spec fn parent_name(c: ChildDetails, name_in_child: ResourceClassName) -> ResourceClassName;
pub open spec fn key_in_use(c: ChildDetails, k: KeyIdentifier) -> bool { c.used_keys@.contains_key(k) && c.used_keys@[k] is InUse }
/// the key has a certificate in THIS class of the parent (finding F12: in use in some class is not enough)
pub open spec fn key_in_use_under(c: ChildDetails, k: KeyIdentifier, rcn: ResourceClassName) -> bool {
    c.used_keys@.contains_key(k) && c.used_keys@[k] == UsedKeyState::InUse(rcn)
}
/// ASSUMED (std): slice contains
pub assume_specification<T: PartialEq> [<[T]>::contains] (s: &[T], x: &T) -> (r: bool) ensures r == s@.contains(*x);
pub uninterp spec fn rc_issued(rc: ResourceClass, ki: KeyIdentifier) -> Option<IssuedCertificate>;
impl ResourceClass {
    #[verifier::external_body]
    pub fn issued(&self, ki: &KeyIdentifier) -> (r: Option<&IssuedCertificate>)
        ensures match r { Some(c) => rc_issued(*self, *ki) == Some(*c), None => rc_issued(*self, *ki) is None } { unimplemented!() }
}
pub assume_specification [ObjectName::from_key] (ki: &KeyIdentifier, extension: &str) -> (r: ObjectName);
'''


def build():
    U = Unit('c03_child_revoke', 'C03', "child key revocation takes effect under the child's (possibly mapped) class name, and only for that child's own key")
    common(U, skip=('UsedKeyState',))
    U.opaque('RevocationRequest', '')
    U.opaque('ObjectName', '')
    for t in ['IssuedCertificate', 'SuspendedCert', 'UnsuspendedCert']:
        U.opaque(t, '')
    U.outside('''
impl RevocationRequest { pub fn unpack(self) -> (ResourceClassName, KeyIdentifier) { unimplemented!() } }
impl ObjectName { pub fn from_key(_ki: &KeyIdentifier, _extension: &str) -> Self { unimplemented!() } }
''')
    U.struct(CA, 'CertAuth', derive=[])
    U.struct(CH, 'ChildDetails', derive=[])
    U.enum(CH, 'UsedKeyState', derive=[])
    U.struct(CH, 'ChildCertificateUpdates', derive=[], default_ensures=[
        ('empty', 'r.issued@.len() == 0 && r.removed@.len() == 0 && r.suspended@.len() == 0 && r.unsuspended@.len() == 0')])
    U.enum(EV, 'CertAuthEvent', keep=['ChildKeyRevoked', 'ChildCertificatesUpdated'], derive=[])
    U.enum(ERR, 'Error', keep=['CaChildUnknown', 'KeyUseNoIssuedCert'], derive=[])
    U.add(SPEC)
    km = 'obeys_key_model::<ChildHandle>() && obeys_key_model::<ResourceClassName>() && obeys_key_model::<KeyIdentifier>()'
    U.impl('impl ChildDetails', [
        U.fn(CH, 'ChildDetails', 'parent_name_for_rcn', external_body=True, ensures=[('is_mapping', 'r == parent_name(*self, *name_in_child)')]),
        U.fn(CH, 'ChildDetails', 'is_issued', requires=[('km', km)], ensures=[('in_use', 'r == key_in_use(*self, *ki)')]),
        # verified in unit c05_allres (exactly the keys in use under the class)
        U.fn(CH, 'ChildDetails', 'issued', external_body=True, ensures=[
            ('assumed', 'forall |k: KeyIdentifier| r@.contains(k) <==> key_in_use_under(*self, k, *parent_rcn)')]),
    ])
    U.impl('impl CertAuth', [
        U.fn(CA, 'CertAuth', 'get_child', requires=[('km', km)], ensures=[
            ('known', 'r is Ok <==> self.children@.contains_key(*child)'), ('details', 'r is Ok ==> *r->Ok_0 == self.children@[*child]')]),
        U.fn(CA, 'CertAuth', 'process_child_revoke_key', requires=[('km', km)], ensures=[
            ('positive_answer_has_effect', '''self.children@.contains_key(child_handle)
                && self.resources@.contains_key(parent_name(self.children@[child_handle], req_rcn(request)))
                && key_in_use_under(self.children@[child_handle], req_key(request), parent_name(self.children@[child_handle], req_rcn(request)))
                ==> r is Ok && r->Ok_0@.len() == 2'''),
            ('effect_is_revocation_in_the_parents_class', '''r is Ok && r->Ok_0@.len() > 0 ==> r->Ok_0@.len() == 2
                && r->Ok_0@[0] == (CertAuthEvent::ChildKeyRevoked { child: child_handle,
                        resource_class_name: parent_name(self.children@[child_handle], req_rcn(request)), ki: req_key(request) })
                && r->Ok_0@[1] is ChildCertificatesUpdated
                && r->Ok_0@[1]->ChildCertificatesUpdated_resource_class_name == parent_name(self.children@[child_handle], req_rcn(request))
                && r->Ok_0@[1]->ChildCertificatesUpdated_updates.removed@ == seq![req_key(request)]
                && r->Ok_0@[1]->ChildCertificatesUpdated_updates.issued@.len() == 0
                && r->Ok_0@[1]->ChildCertificatesUpdated_updates.suspended@.len() == 0
                && r->Ok_0@[1]->ChildCertificatesUpdated_updates.unsuspended@.len() == 0'''),
            ('only_the_senders_own_key_in_the_named_class', '''r is Ok && r->Ok_0@.len() > 0 ==> self.children@.contains_key(child_handle)
                && key_in_use_under(self.children@[child_handle], req_key(request), parent_name(self.children@[child_handle], req_rcn(request)))'''),
            ('replayable_names_only_a_known_child_and_class', '''r is Ok && r->Ok_0@.len() > 0 ==> self.children@.contains_key(child_handle)
                && self.resources@.contains_key(parent_name(self.children@[child_handle], req_rcn(request)))'''),
            ('no_effect_only_if_class_unknown', '''r is Ok && r->Ok_0@.len() == 0 && self.children@.contains_key(child_handle)
                ==> !self.resources@.contains_key(parent_name(self.children@[child_handle], req_rcn(request)))'''),
        ]),
    ])
    return U
