"""C13 (route table): every HTTP handler reaches a state-touching facade method (KrillManager) only after
`proceed_permitted(P, resource)` with exactly the permission the operation requires for the CA it addresses.
Capability preconditions: the ghost grant established by proceed_permitted is carried by AuthedRequest -> &HttpServer ->
&KrillManager, and every facade method REQUIRES the grant listed in the oracle table below (written from the property
statement and doc/manual/source/multi-user/roles.rst, not from the handlers).  Handlers are extracted verbatim with the
async erasure rewrite R10."""
import re, json, subprocess
from vxlib import Unit, _load, VXSPAN
from units import prelude

MGR = 'src/server/manager.rs'
D = 'src/daemon/http/dispatch/'

# ---- oracle: facade method -> (required permission, name of the argument that is the addressed CA or None) ; None = may be
# served without credentials (protocol, repository, TA download, health, metrics/statistics) or is a pure listing filtered by the caller
REQUIRED = {
    'ca_handles': None,                       # listing: callers filter by CaRead per CA (see not_covered)
    'republish_all': ('CaAdmin', None), 'cas_repo_sync_all': ('CaAdmin', None), 'cas_refresh_all': ('CaAdmin', None),
    'cas_schedule_suspend_all': ('CaAdmin', None), 'cas_import': ('CaAdmin', None),
    'cas_stats': None, 'cas_status_map': None, 'repo_stats': None,     # metrics / statistics
    'ca_init': ('CaCreate', None),
    'ca_info': ('CaRead', 'ca'), 'ca_update_id': ('CaUpdate', 'ca'), 'ca_keyroll_init': ('CaUpdate', 'ca'), 'ca_keyroll_activate': ('CaUpdate', 'ca'),
    'ca_publisher_req': ('CaRead', 'ca'), 'ca_repo_details': ('CaRead', 'ca_handle'), 'ca_repo_update': ('CaUpdate', 'ca'),
    'ca_sync_repo': ('CaUpdate', 'ca'), 'ca_repo_status': ('CaRead', 'ca'), 'ca_parent_status': ('CaRead', 'ca'),
    'cas_refresh_single': ('CaUpdate', 'ca_handle'), 'ca_issues': ('CaRead', 'ca'), 'ca_history': ('CaRead', 'ca'),
    'ca_command_details': ('CaRead', 'ca'), 'ca_delete': ('CaDelete', 'ca'), 'ca_child_req': ('CaRead', 'ca'),
    'ca_parent_add_or_update': ('CaUpdate', 'ca'), 'ca_parent_remove': ('CaUpdate', 'handle'), 'ca_parent_contact': ('CaRead', 'ca'),
    'ca_add_child': ('CaUpdate', 'ca'), 'ca_parent_response': ('CaRead', 'ca'), 'ca_child_update': ('CaUpdate', 'ca'),
    'ca_child_remove': ('CaUpdate', 'ca'), 'ca_child_show': ('CaRead', 'ca'), 'ca_child_export': ('CaRead', 'ca'),
    'ca_child_import': ('CaAdmin', 'ca'), 'ca_stats_child_connections': ('CaRead', 'ca'),
    'rfc6492': None, 'rfc8181': None, 'resolve_rrdp_request_path': None, 'ta_tal': None, 'ta_cer': None,
    'ca_aspas_definitions_show': ('AspasRead', 'ca'), 'ca_aspas_definitions_update': ('AspasUpdate', 'ca'), 'ca_aspas_update_aspa': ('AspasUpdate', 'ca'),
    'ca_bgpsec_definitions_show': ('BgpsecRead', 'ca'), 'ca_bgpsec_definitions_update': ('BgpsecUpdate', 'ca'),
    'ca_routes_show': ('RoutesRead', 'handle'), 'ca_routes_update': ('RoutesUpdate', 'ca'),
    'ca_routes_bgp_analysis': ('RoutesAnalysis', 'handle'),
    # dry run / suggestion are also steps of the composite "try this update" operation, which requires the (stronger) update right
    'ca_routes_bgp_dry_run': (['RoutesAnalysis', 'RoutesUpdate'], 'handle'), 'ca_routes_bgp_suggest': (['RoutesAnalysis', 'RoutesUpdate'], 'handle'),
    'repository_init': ('PubAdmin', None), 'repository_clear': ('PubAdmin', None), 'repository_session_reset': ('PubAdmin', None),
    'delete_matching_files': ('PubAdmin', None),
    'publishers': ('PubList', None), 'get_publisher': ('PubRead', None), 'repository_response': ('PubRead', None),
    'add_publisher': ('PubCreate', None), 'remove_publisher': ('PubDelete', None),
    'ta_proxy_init': ('CaAdmin', None), 'ta_proxy_id': ('CaAdmin', None), 'ta_proxy_publisher_request': ('CaAdmin', None),
    'ta_proxy_repository_update': ('CaAdmin', None), 'ta_proxy_repository_contact': ('CaAdmin', None), 'ta_proxy_signer_add': ('CaAdmin', None),
    'ta_proxy_signer_update': ('CaAdmin', None), 'ta_proxy_signer_make_request': ('CaAdmin', None), 'ta_proxy_signer_get_request': ('CaAdmin', None),
    'ta_proxy_signer_process_response': ('CaAdmin', None), 'ta_proxy_children_add': ('CaAdmin', None),
}
# the statement: "and the testbed self-service endpoints when testbed mode is on" (children / publishers of the testbed CA)
TESTBED_SELF_SERVICE = ['ca_add_child', 'ca_child_remove', 'ca_parent_response', 'add_publisher', 'remove_publisher', 'repository_response']
# roles.rst: ca-admin is "also required for access to the trust anchor module" (the TA is addressed as a CA there)
TA_MODULE_ALSO = ['ca_parent_response']
PERMISSIONS = ['Login', 'PubAdmin', 'PubList', 'PubRead', 'PubCreate', 'PubDelete', 'CaList', 'CaRead', 'CaCreate', 'CaUpdate', 'CaAdmin', 'CaDelete',
               'RoutesRead', 'RoutesUpdate', 'RoutesAnalysis', 'AspasRead', 'AspasUpdate', 'BgpsecRead', 'BgpsecUpdate', 'RtaList', 'RtaRead', 'RtaUpdate']


def simp(t):
    t = re.sub(r'\b(?:idexchange|api::\w+|api)::', '', t)
    return t


def facade_stubs():
    """signatures of the facade, generated from the real KrillManager impl (async erased, module paths dropped)"""
    src, items = _load(MGR)
    outside, inside = [], []
    seen = []
    for e in items:
        if e['kind'] == 'fn' and e.get('impl') == 'KrillManager' and e['vis'] is not None and e.get('trait') is None:
            name = e['fn']
            if name not in REQUIRED:
                continue
            seen.append(name)
            args = []
            for (s, t) in e['inputs'][1:]:
                a = ' '.join(src[s:t].decode().split())
                a = re.sub(r'^mut ', '', a)
                args.append(simp(a))
            ret = simp(' '.join(src[e['ret'][0]:e['ret'][1]].decode().split()))
            argl = ', '.join(args)
            outside.append(f'    pub fn {name}(&self{", " if args else ""}{argl}) -> {ret} {{ unimplemented!() }}')
            req = REQUIRED[name]
            if req is None:
                pre = ''
            else:
                perm, caarg = req
                res = f'Some({caarg})' if caarg else 'None::<CaHandle>'
                perms = perm if isinstance(perm, list) else [perm]
                alts = [f'granted_k(k) == Grant::Permitted(Permission::{pm}, {res})' for pm in perms]
                if caarg:
                    # listing pattern: no blanket check, but the caller's own role was consulted for this very CA
                    alts += [f'(granted_k(k) is Unchecked && auth_allows(granted_k(k)->Unchecked_0, Permission::{pm}, {res}))' for pm in perms]
                if name in TESTBED_SELF_SERVICE:
                    tb = f' && {caarg} == testbed_ca_spec()' if caarg else ''
                    alts.append(f'(granted_k(k) is Unchecked && granted_k(k)->Unchecked_1{tb})')
                if name in TA_MODULE_ALSO:
                    alts.append(f'(granted_k(k) == Grant::Permitted(Permission::CaAdmin, None::<CaHandle>) && {caarg} == ta_handle_spec())')
                pre = '\n    requires ' + '\n        || '.join(alts)
            inside.append(f'pub assume_specification [KrillManager::{name}] (k: &KrillManager{", " if args else ""}{argl}) -> (r: {ret}){pre};')
    missing = [m for m in REQUIRED if m not in seen]
    return outside, inside, missing


PRELUDE_OUT = '''
use std::path::PathBuf;
use std::collections::HashMap;
#[derive(Clone, Copy, PartialEq, Eq)] pub enum Permission { %(perms)s }
#[derive(Clone, PartialEq, Eq)] pub enum Method { GET, POST, PUT, DELETE, HEAD, OPTIONS, PATCH, Other }
pub struct KrillManager(u8);
impl KrillManager {
%(facade)s
}
pub struct HttpServer(u8);
impl HttpServer { pub fn krill(&self) -> &KrillManager { unimplemented!() } }
pub struct Request<'a>(&'a u8);
pub struct AuthedRequest<'a>(&'a u8);
pub struct AuthInfo(u8);
pub struct HttpResponse(u8);
pub struct DispatchError(u8);
impl From<HttpResponse> for DispatchError { fn from(_: HttpResponse) -> Self { unimplemented!() } }
impl From<RunError> for DispatchError { fn from(_: RunError) -> Self { unimplemented!() } }
impl From<Error> for DispatchError { fn from(_: Error) -> Self { unimplemented!() } }
impl<'a> Request<'a> {
    pub fn method(&self) -> &Method { unimplemented!() }
    pub fn check_get(&self) -> Result<(), HttpResponse> { unimplemented!() }
    pub fn check_post(&self) -> Result<(), HttpResponse> { unimplemented!() }
    pub fn check_delete(&self) -> Result<(), HttpResponse> { unimplemented!() }
    pub fn check_permission(&self, _p: Permission, _r: Option<&CaHandle>) -> Result<(), HttpResponse> { unimplemented!() }
    pub fn proceed_permitted(self, _p: Permission, _r: Option<&CaHandle>) -> Result<(AuthedRequest<'a>, AuthInfo), HttpResponse> { unimplemented!() }
    pub fn proceed_unchecked(self) -> (AuthedRequest<'a>, AuthInfo) { unimplemented!() }
    pub fn testbed_enabled(&self) -> bool { unimplemented!() }
    pub fn user_agent(&self) -> Option<String> { unimplemented!() }
}
impl<'a> AuthedRequest<'a> {
    pub fn empty(self) -> Result<&'a HttpServer, Error> { unimplemented!() }
    pub fn read_bytes(self) -> Result<(&'a HttpServer, Bytes), Error> { unimplemented!() }
    pub fn read_json<T>(self) -> Result<(&'a HttpServer, T), Error> { unimplemented!() }
    pub fn read_rfc6492_bytes(self) -> Result<(&'a HttpServer, Bytes), Error> { unimplemented!() }
    pub fn read_rfc8181_bytes(self) -> Result<(&'a HttpServer, Bytes), Error> { unimplemented!() }
}
impl AuthInfo {
    pub fn into_actor(self) -> Actor { unimplemented!() }
    pub fn has_permission(&self, _p: Permission, _r: Option<&CaHandle>) -> bool { unimplemented!() }
}
pub struct PathIter<'a>(&'a u8);
impl<'a> PathIter<'a> {
    pub fn next(&mut self) -> Option<&'a str> { unimplemented!() }
    pub fn check_exhausted(&self) -> Result<(), HttpResponse> { unimplemented!() }
    pub fn parse_next<T>(&mut self) -> Result<T, HttpResponse> { unimplemented!() }
    pub fn parse_opt_next<T>(&mut self) -> Result<Option<T>, HttpResponse> { unimplemented!() }
    pub fn parse_opt_next_trailing_slash<T>(&mut self) -> Result<Option<T>, HttpResponse> { unimplemented!() }
    pub fn strip_trailing_slash(&self) -> Self { unimplemented!() }
    pub fn remaining(&self) -> Option<&str> { unimplemented!() }
}
impl HttpResponse {
    pub fn json<T>(_t: &T) -> Self { unimplemented!() }
    pub fn ok() -> Self { unimplemented!() }
    pub fn not_found() -> Self { unimplemented!() }
    pub fn method_not_allowed() -> Self { unimplemented!() }
    pub fn xml(_b: Vec<u8>) -> Self { unimplemented!() }
    pub fn text<T>(_b: T) -> Self { unimplemented!() }
    pub fn forbidden(_s: String) -> Self { unimplemented!() }
}
'''

PRELUDE_IN = '''
#[verifier::external_type_specification] #[verifier::external_body] pub struct ExPathBuf(PathBuf);
#[verifier::external_type_specification] pub struct ExPermission(Permission);
#[verifier::external_type_specification] pub struct ExMethod(Method);
#[verifier::external_type_specification] #[verifier::external_body] pub struct ExKrillManager(KrillManager);
#[verifier::external_type_specification] #[verifier::external_body] pub struct ExHttpServer(HttpServer);
#[verifier::external_type_specification] #[verifier::external_body] pub struct ExRequest<'a>(Request<'a>);
#[verifier::external_type_specification] #[verifier::external_body] pub struct ExAuthedRequest<'a>(AuthedRequest<'a>);
#[verifier::external_type_specification] #[verifier::external_body] pub struct ExAuthInfo(AuthInfo);
#[verifier::external_type_specification] #[verifier::external_body] pub struct ExHttpResponse(HttpResponse);
#[verifier::external_type_specification] #[verifier::external_body] pub struct ExDispatchError(DispatchError);
#[verifier::external_type_specification] #[verifier::external_body] pub struct ExPathIter<'a>(PathIter<'a>);

/// what the request has been cleared for on its way to the server facade
pub enum Grant {
    /// proceed_permitted(P, resource) succeeded
    Permitted(Permission, Option<CaHandle>),
    /// proceed_unchecked: no permission established; carries the caller's auth info and whether testbed mode is on
    Unchecked(AuthInfo, bool),
}
pub uninterp spec fn testbed_on(r: Request<'_>) -> bool;
/// the caller's role grants P for the resource (AuthInfo::has_permission, decided in unit c13_roles)
pub uninterp spec fn auth_allows(a: AuthInfo, p: Permission, res: Option<CaHandle>) -> bool;
pub uninterp spec fn ta_handle_spec() -> CaHandle;
pub uninterp spec fn testbed_ca_spec() -> CaHandle;
pub uninterp spec fn granted_req(r: AuthedRequest<'_>) -> Grant;
pub uninterp spec fn granted_srv(s: &HttpServer) -> Grant;
pub uninterp spec fn granted_k(k: &KrillManager) -> Grant;
/// a successful check_permission(P, R) on this request value
pub uninterp spec fn checked(r: Request<'_>, p: Permission, res: Option<CaHandle>) -> bool;
pub open spec fn oh(res: Option<&CaHandle>) -> Option<CaHandle> { match res { Some(h) => Some(*h), None => None } }

pub assume_specification<'a, 'b> [Request::<'a>::method] (r: &'b Request<'a>) -> (m: &'b Method);
pub assume_specification<'a> [Request::<'a>::check_get] (r: &Request<'a>) -> (o: Result<(), HttpResponse>);
pub assume_specification<'a> [Request::<'a>::check_post] (r: &Request<'a>) -> (o: Result<(), HttpResponse>);
pub assume_specification<'a> [Request::<'a>::check_delete] (r: &Request<'a>) -> (o: Result<(), HttpResponse>);
pub assume_specification<'a> [Request::<'a>::testbed_enabled] (r: &Request<'a>) -> (o: bool) ensures o == testbed_on(*r);
pub assume_specification<'a> [Request::<'a>::user_agent] (r: &Request<'a>) -> (o: Option<String>);
pub assume_specification<'a> [Request::<'a>::check_permission] (r: &Request<'a>, p: Permission, res: Option<&CaHandle>) -> (o: Result<(), HttpResponse>)
    ensures o is Ok ==> checked(*r, p, oh(res));
pub assume_specification<'a> [Request::<'a>::proceed_permitted] (r: Request<'a>, p: Permission, res: Option<&CaHandle>) -> (o: Result<(AuthedRequest<'a>, AuthInfo), HttpResponse>)
    ensures o is Ok ==> granted_req(o->Ok_0.0) == Grant::Permitted(p, oh(res));
pub assume_specification<'a> [Request::<'a>::proceed_unchecked] (r: Request<'a>) -> (o: (AuthedRequest<'a>, AuthInfo))
    ensures granted_req(o.0) == Grant::Unchecked(o.1, testbed_on(r));
pub assume_specification<'a> [AuthedRequest::<'a>::empty] (r: AuthedRequest<'a>) -> (o: Result<&'a HttpServer, Error>)
    ensures o is Ok ==> granted_srv(o->Ok_0) == granted_req(r);
pub assume_specification<'a> [AuthedRequest::<'a>::read_bytes] (r: AuthedRequest<'a>) -> (o: Result<(&'a HttpServer, Bytes), Error>)
    ensures o is Ok ==> granted_srv(o->Ok_0.0) == granted_req(r);
pub assume_specification<'a, T> [AuthedRequest::<'a>::read_json::<T>] (r: AuthedRequest<'a>) -> (o: Result<(&'a HttpServer, T), Error>)
    ensures o is Ok ==> granted_srv(o->Ok_0.0) == granted_req(r);
pub assume_specification<'a> [AuthedRequest::<'a>::read_rfc6492_bytes] (r: AuthedRequest<'a>) -> (o: Result<(&'a HttpServer, Bytes), Error>)
    ensures o is Ok ==> granted_srv(o->Ok_0.0) == granted_req(r);
pub assume_specification<'a> [AuthedRequest::<'a>::read_rfc8181_bytes] (r: AuthedRequest<'a>) -> (o: Result<(&'a HttpServer, Bytes), Error>)
    ensures o is Ok ==> granted_srv(o->Ok_0.0) == granted_req(r);
pub assume_specification [HttpServer::krill] (s: &HttpServer) -> (k: &KrillManager) ensures granted_k(k) == granted_srv(s);
pub assume_specification [AuthInfo::into_actor] (a: AuthInfo) -> (o: Actor);
pub assume_specification [AuthInfo::has_permission] (a: &AuthInfo, p: Permission, r: Option<&CaHandle>) -> (o: bool) ensures o == auth_allows(*a, p, oh(r));
pub assume_specification<'a, 'b> [PathIter::<'a>::next] (p: &'b mut PathIter<'a>) -> (o: Option<&'a str>);
pub assume_specification<'a> [PathIter::<'a>::check_exhausted] (p: &PathIter<'a>) -> (o: Result<(), HttpResponse>);
pub assume_specification<'a, T> [PathIter::<'a>::parse_next::<T>] (p: &mut PathIter<'a>) -> (o: Result<T, HttpResponse>);
pub assume_specification<'a, T> [PathIter::<'a>::parse_opt_next::<T>] (p: &mut PathIter<'a>) -> (o: Result<Option<T>, HttpResponse>);
pub assume_specification<'a, T> [PathIter::<'a>::parse_opt_next_trailing_slash::<T>] (p: &mut PathIter<'a>) -> (o: Result<Option<T>, HttpResponse>);
pub assume_specification<'a, 'b> [PathIter::<'a>::remaining] (p: &'b PathIter<'a>) -> (o: Option<&'b str>);
pub assume_specification<'a> [PathIter::<'a>::strip_trailing_slash] (p: &PathIter<'a>) -> (o: PathIter<'a>);
pub assume_specification<T> [HttpResponse::json::<T>] (t: &T) -> (o: HttpResponse);
pub assume_specification [HttpResponse::ok] () -> (o: HttpResponse);
pub assume_specification [HttpResponse::not_found] () -> (o: HttpResponse);
pub assume_specification [HttpResponse::method_not_allowed] () -> (o: HttpResponse);
pub assume_specification [HttpResponse::xml] (b: Vec<u8>) -> (o: HttpResponse);
pub assume_specification<T> [HttpResponse::text::<T>] (b: T) -> (o: HttpResponse);
pub assume_specification [HttpResponse::forbidden] (s: String) -> (o: HttpResponse);
pub assume_specification [<DispatchError as From<HttpResponse>>::from] (e: HttpResponse) -> (o: DispatchError);
pub assume_specification [<DispatchError as From<RunError>>::from] (e: RunError) -> (o: DispatchError);
pub assume_specification [<DispatchError as From<Error>>::from] (e: Error) -> (o: DispatchError);
'''


SUBMODS = ['api', 'auth', 'bulk', 'cas', 'metrics', 'pubd', 'stats', 'ta', 'testbed']
LOGIN_GATED = ['bulk', 'cas', 'pubd', 'ta']     # everything under the versioned API needs the login permission


def build_file(fname, unit_name, title, skip=(), extra=None, handler_requires=None, no_isolation=()):
    U = Unit(unit_name, 'C13', title)
    prelude.strings(U)
    U.auto_opaque = True
    fo, fi, missing = facade_stubs()
    if missing:
        from vxlib import LostAnchor
        raise LostAnchor('facade methods no longer found in KrillManager: ' + ', '.join(missing))
    U.opaque('CaHandle', 'Clone')
    U.opaque('Actor', '')
    U.no_error = False
    U.opaque('RunError', '')
    U.opaque('Bytes', '')
    U.outside(PRELUDE_OUT % {'perms': ', '.join(PERMISSIONS), 'facade': '\n'.join(fo)})
    U.add(PRELUDE_IN)
    U.add('\n'.join(fi))
    if extra:
        extra(U)
    if 'Error' not in U.enum_variants:
        U.opaque('Error', '')
    me = fname[:-3]
    # sibling dispatch modules: signature-only stubs; those under /api/v1 REQUIRE a successful Login check on the request
    for m in SUBMODS:
        if m == me:
            continue
        pre = '\n        requires checked(request, Permission::Login, None::<CaHandle>)' if m in LOGIN_GATED else ''
        more = ''
        if m == 'cas' and me == 'ta':
            more = '    #[verifier::external_body] pub fn extract_repository_contact(ca: &CaHandle, bytes: Bytes) -> (r: Result<RepositoryContact, Error>) { unimplemented!() }\n'
        U.add(f'''pub mod {m} {{ use super::*;
{more}
    #[verifier::external_body] pub fn dispatch(request: Request<'_>, path: PathIter<'_>) -> (r: Result<HttpResponse, DispatchError>){pre}
    {{ unimplemented!() }}
}}''')
    from vxlib import Seg
    U.inside.append(Seg(f'pub mod {me} {{ use super::*;\n'))
    src, items = _load(D + fname)
    fns = [e for e in items if e['kind'] == 'fn' and e.get('impl') is None and e['mod'] == '']
    for e in fns:
        sig = src[e['sig'][0]:e['sig'][1]].decode()
        no_server = not re.search(r'\b(Request|AuthedRequest|HttpServer|KrillManager)\b', sig)
        if e['fn'] in skip or no_server:
            # helpers that receive no request/server value cannot reach the facade: signature only.
            # handlers listed in `skip` filter inside iterator closures (outside engine V): NOT covered.
            U.free(U.fn(D + fname, None, e['fn'], erase_async=True, external_body=True))
            if e['fn'] in skip:
                U.notes.append(f'NOT COVERED handler {fname}::{e["fn"]} (filters inside an iterator closure)')
            continue
        hr = (handler_requires or {}).get(e['fn'], (handler_requires or {}).get('*', []))
        if e['fn'] in ((handler_requires or {}).get('!', [])):
            hr = []
        segs = U.fn(D + fname, None, e['fn'], erase_async=True, ensures=[], requires=hr)
        if e['fn'] in no_isolation:
            segs.insert(0, Seg('#[verifier::loop_isolation(false)]\n'))
        U.free(segs)
    U.inside.append(Seg('} // mod\n'))
    return U
