"""C01 / C05 / C14: the CertAuth command functions that turn a changed configuration (ASPA, BGPsec router keys) or a renewal
request (ROAs, ASPAs, router certificates) into object updates, on the real text.  They are the glue between functions verified
on their own (definition deltas: c05_aspa / c05_bgpsec; object derivation per class: c01_aspa, c01_bgpsec, c14_renewal,
c14_aspa_renewal, c04_keystate for the per-class wrappers) and share one shape:

    decide the delta against everything the CA holds  ->  refused: that error is the result, no event (all or nothing)
    for EVERY resource class: derive the object updates from the configuration AS UPDATED (not the stored one);
                              a non-empty result becomes exactly one event for that class, in the same event set

so that no class is skipped, none is served from the stale configuration, and nothing else is emitted."""
from vxlib import Unit
from units import prelude
from units.c05_child import common

CA = 'src/server/ca/certauth.rs'
EV = 'src/server/ca/events.rs'
ERR = 'src/commons/error.rs'

# kind -> (event variant, updates type, argument type of the per-class derivation)
KINDS = {
    'aspa': ('AspaObjectsUpdated', 'AspaObjectsUpdates', 'AspaDefinitions'),
    'bgpsec': ('BgpSecCertificatesUpdated', 'BgpSecCertificateUpdates', 'BgpSecDefinitions'),
    'roa_renew': ('RoasUpdated', 'RoaUpdates', 'bool'),
    'aspa_renew': ('AspaObjectsUpdated', 'AspaObjectsUpdates', 'IssuanceTimingConfig'),
    'bgpsec_renew': ('BgpSecCertificatesUpdated', 'BgpSecCertificateUpdates', 'IssuanceTimingConfig'),
}

KIND_SPEC = r'''
/// what the per-class derivation of this kind yields for a class (None: signing failed); VERIFIED per class in the units named in the header
pub uninterp spec fn upd_@K@(rc: ResourceClass, arg: @A@) -> Option<@U@>;
pub open spec fn is_event_@K@(ca: CertAuth, arg: @A@, e: CertAuthEvent) -> bool {
    match e {
        CertAuthEvent::@V@ { resource_class_name, updates } => ca.resources@.contains_key(resource_class_name)
            && upd_@K@(ca.resources@[resource_class_name], arg) == Some(updates) && !@EMP@(updates),
        _ => false,
    }
}
/// class `n` is served: nothing to change, or the one event that changes its objects is among evs[from..]
pub open spec fn served_@K@(ca: CertAuth, arg: @A@, evs: Seq<CertAuthEvent>, from: int, n: ResourceClassName) -> bool {
    upd_@K@(ca.resources@[n], arg) is Some && (@EMP@(upd_@K@(ca.resources@[n], arg)->Some_0)
        || exists |i: int| from <= i < evs.len() && #[trigger] evs[i] == (CertAuthEvent::@V@ { resource_class_name: n, updates: upd_@K@(ca.resources@[n], arg)->Some_0 }))
}
pub proof fn lemma_served_@K@(ca: CertAuth, arg: @A@, a: Seq<CertAuthEvent>, e: CertAuthEvent, from: int, n: ResourceClassName)
    requires served_@K@(ca, arg, a, from, n) ensures served_@K@(ca, arg, a.push(e), from, n)
{
    if !@EMP@(upd_@K@(ca.resources@[n], arg)->Some_0) {
        let i = choose |i: int| from <= i < a.len() && #[trigger] a[i] == (CertAuthEvent::@V@ { resource_class_name: n, updates: upd_@K@(ca.resources@[n], arg)->Some_0 });
        assert(a.push(e)[i] == a[i]);
    }
}
'''

SPEC = r'''
pub uninterp spec fn emp_roa(u: RoaUpdates) -> bool;
pub uninterp spec fn emp_aspa(u: AspaObjectsUpdates) -> bool;
pub uninterp spec fn emp_bgpsec(u: BgpSecCertificateUpdates) -> bool;
impl RoaUpdates { #[verifier::external_body] pub fn is_empty(&self) -> (r: bool) ensures r == emp_roa(*self) { unimplemented!() } }
impl AspaObjectsUpdates { #[verifier::external_body] pub fn is_empty(&self) -> (r: bool) ensures r == emp_aspa(*self) { unimplemented!() } }
impl BgpSecCertificateUpdates { #[verifier::external_body] pub fn is_empty(&self) -> (r: bool) ensures r == emp_bgpsec(*self) { unimplemented!() } }

// ---- the definition deltas: named here, VERIFIED in c05_aspa (AspaDefinitions::process_updates) and c05_bgpsec ----
pub uninterp spec fn aspa_accepts(d: AspaDefinitions, held: ResourceSet, u: AspaDefinitionUpdates) -> bool;
pub uninterp spec fn aspa_defs(d: AspaDefinitions, held: ResourceSet, u: AspaDefinitionUpdates) -> AspaDefinitions;
pub uninterp spec fn aspa_events(d: AspaDefinitions, held: ResourceSet, u: AspaDefinitionUpdates) -> Seq<CertAuthEvent>;
pub uninterp spec fn bgpsec_accepts(d: BgpSecDefinitions, held: ResourceSet, u: BgpSecDefinitionUpdates) -> bool;
pub uninterp spec fn bgpsec_defs(d: BgpSecDefinitions, held: ResourceSet, u: BgpSecDefinitionUpdates) -> BgpSecDefinitions;
pub uninterp spec fn bgpsec_events(d: BgpSecDefinitions, held: ResourceSet, u: BgpSecDefinitionUpdates) -> Seq<CertAuthEvent>;
/// one ASPA definition update applied to the definitions (AspaDefinitions::apply_update; c05_aspa)
pub uninterp spec fn aspa_applied(d: AspaDefinitions, customer: CustomerAsn, update: AspaProvidersUpdate) -> AspaDefinitions;
/// CertAuth::updated_allowed_and_needed (VERIFIED in c05_aspa): Some(true) apply, Some(false) nothing to do, None refused
pub uninterp spec fn aspa_allowed_needed(ca: CertAuth, customer: CustomerAsn, update: AspaProvidersUpdate) -> Option<bool>;

impl AspaDefinitions {
    #[verifier::external_body]
    pub fn process_updates(&self, handle: &CaHandle, all_resources: &ResourceSet, updates: AspaDefinitionUpdates) -> (r: KrillResult<(AspaDefinitions, Vec<CertAuthEvent>)>)
        ensures (r is Ok) == aspa_accepts(*self, *all_resources, updates),
            r is Ok ==> r->Ok_0.0 == aspa_defs(*self, *all_resources, updates) && r->Ok_0.1@ == aspa_events(*self, *all_resources, updates),
    { unimplemented!() }
    #[verifier::external_body]
    pub fn apply_update(&mut self, customer: CustomerAsn, update: &AspaProvidersUpdate)
        ensures *final(self) == aspa_applied(*old(self), customer, *update) { unimplemented!() }
}
impl BgpSecDefinitions {
    #[verifier::external_body]
    pub fn process_updates(&self, handle: &CaHandle, all_resources: &ResourceSet, updates: BgpSecDefinitionUpdates) -> (r: KrillResult<(BgpSecDefinitions, Vec<CertAuthEvent>)>)
        ensures (r is Ok) == bgpsec_accepts(*self, *all_resources, updates),
            r is Ok ==> r->Ok_0.0 == bgpsec_defs(*self, *all_resources, updates) && r->Ok_0.1@ == bgpsec_events(*self, *all_resources, updates),
    { unimplemented!() }
}
impl ResourceClass {
    #[verifier::external_body]
    pub fn create_aspa_updates(&self, all_aspas: &AspaDefinitions, config: &Config, signer: &KrillSigner) -> (r: KrillResult<AspaObjectsUpdates>)
        ensures match r { Ok(u) => upd_aspa(*self, *all_aspas) == Some(u), Err(_) => upd_aspa(*self, *all_aspas) is None } { unimplemented!() }
    #[verifier::external_body]
    pub fn create_bgpsec_updates(&self, definitions: &BgpSecDefinitions, config: &Config, signer: &KrillSigner) -> (r: KrillResult<BgpSecCertificateUpdates>)
        ensures match r { Ok(u) => upd_bgpsec(*self, *definitions) == Some(u), Err(_) => upd_bgpsec(*self, *definitions) is None } { unimplemented!() }
    #[verifier::external_body]
    pub fn create_roa_renewal(&self, force: bool, issuance_timing: &IssuanceTimingConfig, signer: &KrillSigner) -> (r: KrillResult<RoaUpdates>)
        ensures match r { Ok(u) => upd_roa_renew(*self, force) == Some(u), Err(_) => upd_roa_renew(*self, force) is None } { unimplemented!() }
    #[verifier::external_body]
    pub fn create_aspa_renewal(&self, issuance_timing: &IssuanceTimingConfig, signer: &KrillSigner) -> (r: KrillResult<AspaObjectsUpdates>)
        ensures match r { Ok(u) => upd_aspa_renew(*self, *issuance_timing) == Some(u), Err(_) => upd_aspa_renew(*self, *issuance_timing) is None } { unimplemented!() }
    #[verifier::external_body]
    pub fn create_bgpsec_renewal(&self, issuance_timing: &IssuanceTimingConfig, signer: &KrillSigner) -> (r: KrillResult<BgpSecCertificateUpdates>)
        ensures match r { Ok(u) => upd_bgpsec_renew(*self, *issuance_timing) == Some(u), Err(_) => upd_bgpsec_renew(*self, *issuance_timing) is None } { unimplemented!() }
}
'''

KM = 'obeys_key_model::<ResourceClassName>()'
PAIRS = '''vx_it.seq().len() == self.resources@.len() && (forall |i: int| 0 <= i < vx_it.seq().len() ==> self.resources@.contains_key(*(#[trigger] vx_it.seq()[i]).0)
                        && self.resources@[*vx_it.seq()[i].0] == *vx_it.seq()[i].1) && vx_it.seq().no_duplicates()'''


def class_loop(kind, arg, ev, frm, extra=()):
    """invariants and ghost steps of `for (rcn, rc) in self.resources.iter() { derive; if non-empty push event }`:
    arg = the (spec) argument the derivation must use, ev = the name of the event vector as a Seq expression, frm = where the class events start"""
    inv = [('km', KM), ('pairs', PAIRS)] + list(extra) + [
        ('earlier_events_kept', f'{ev}.len() >= {frm} && {ev}.subrange(0, {frm}) == g_first'),
        ('only_object_events_of_this_kind_added', f'forall |i: int| {frm} <= i < {ev}.len() ==> is_event_{kind}(*self, {arg}, #[trigger] {ev}[i])'),
        ('classes_done_or_to_come', f'''forall |n: ResourceClassName| #[trigger] self.resources@.contains_key(n) ==>
                        served_{kind}(*self, {arg}, {ev}, {frm}, n)
                        || exists |j: int| vx_it.index@ <= j < vx_it.seq().len() && *(#[trigger] vx_it.seq()[j]).0 == n'''),
    ]
    ghost = [
        (('before_loop', 0), f'let ghost g_first = {ev}.subrange(0, {frm}); proof {{ assert({ev}.subrange(0, {frm}) =~= g_first); }}'),
        (('loop_start', 0), f'''let ghost g_ev = {ev}; let ghost g_i = vx_it.index@ as int;
            proof {{
                assert(*rcn == *vx_it.seq()[g_i].0 && *rc == *vx_it.seq()[g_i].1);
                assert forall |i: int| 0 <= i < vx_it.seq().len() && i != g_i implies *(#[trigger] vx_it.seq()[i]).0 != *rcn by {{
                    let a = vx_it.seq()[i]; let b = vx_it.seq()[g_i];
                    if *a.0 == *b.0 {{ assert(*a.1 == self.resources@[*a.0]); assert(*b.1 == self.resources@[*b.0]); assert(a == b); }}
                }}
            }}'''),
        (('loop_end', 0), f'''proof {{
                let ghost from = {frm};
                if {ev}.len() > g_ev.len() {{ assert({ev} =~= g_ev.push({ev}.last())); assert({ev}.subrange(0, from) =~= g_ev.subrange(0, from)); }}
                assert forall |n: ResourceClassName| #[trigger] self.resources@.contains_key(n) implies
                        served_{kind}(*self, {arg}, {ev}, from, n)
                        || exists |j: int| g_i + 1 <= j < vx_it.seq().len() && *(#[trigger] vx_it.seq()[j]).0 == n by {{
                    if n == *rcn {{
                        /*@this_class_gets_its_event_when_its_objects_change*/ assert(served_{kind}(*self, {arg}, {ev}, from, n));
                    }} else if served_{kind}(*self, {arg}, g_ev, from, n) {{
                        if {ev}.len() > g_ev.len() {{ lemma_served_{kind}(*self, {arg}, g_ev, {ev}.last(), from, n); }}
                    }} else {{
                        let j = choose |j: int| g_i <= j < vx_it.seq().len() && *(#[trigger] vx_it.seq()[j]).0 == n;
                        assert(j != g_i);
                    }}
                }}
            }}'''),
    ]
    return inv, ghost


def class_posts(kind, arg, res, frm, ok='r is Ok'):
    return [
        ('objects_of_every_class_follow_the_given_configuration', f'''{ok} ==> forall |n: ResourceClassName| #[trigger] self.resources@.contains_key(n) ==>
                        served_{kind}(*self, {arg}, {res}, {frm}, n)'''),
        ('nothing_else_is_emitted', f'{ok} ==> forall |i: int| {frm} <= i < {res}.len() ==> is_event_{kind}(*self, {arg}, #[trigger] {res}[i])'),
    ]


def build():
    U = Unit('c01_commands', 'C01', 'configuration and renewal commands of a CA: the delta is decided first (refused: no event), then the objects of EVERY class are derived from the updated configuration, one event per class that changes, nothing else')
    common(U, skip=('ResourceClass', 'AspaDefinitions', 'BgpSecDefinitions'))
    for t in ['ResourceClass', 'AspaDefinitions', 'BgpSecDefinitions', 'RoaUpdates', 'AspaObjectsUpdates', 'BgpSecCertificateUpdates', 'KrillSigner', 'ChildDetails',
              'AspaDefinitionUpdates', 'BgpSecDefinitionUpdates', 'IssuanceTimingConfig', 'AspaProvidersUpdate', 'BgpSecAsnKey', 'StoredBgpSecCsr', 'AspaDefinition']:
        U.opaque(t, 'Clone' if t in ('AspaDefinitions', 'AspaProvidersUpdate') else '')
    U.opaque('CustomerAsn', 'Clone, Copy')
    U.struct(CA, 'CertAuth', derive=[])
    U.add('pub struct Config { pub issuance_timing: IssuanceTimingConfig }   // stub: only the field these functions read')
    U.enum(EV, 'CertAuthEvent', keep=['RoasUpdated', 'AspaObjectsUpdated', 'BgpSecCertificatesUpdated', 'AspaConfigAdded', 'AspaConfigUpdated', 'AspaConfigRemoved',
                                     'BgpSecDefinitionAdded', 'BgpSecDefinitionUpdated', 'BgpSecDefinitionRemoved'], derive=[])
    U.enum(ERR, 'Error', keep=[], derive=[])
    emp = {'RoaUpdates': 'emp_roa', 'AspaObjectsUpdates': 'emp_aspa', 'BgpSecCertificateUpdates': 'emp_bgpsec'}
    U.add(SPEC.split('// ---- the definition deltas')[0])
    for k, (v, u, a) in KINDS.items():
        U.add(KIND_SPEC.replace('@K@', k).replace('@V@', v).replace('@U@', u).replace('@A@', a).replace('@EMP@', emp[u]))
    U.add('// ---- the definition deltas' + SPEC.split('// ---- the definition deltas')[1])
    held = 'all_res(*self)'
    fns = [
        U.fn(CA, 'CertAuth', 'all_resources', external_body=True, ensures=[('is_all_res', 'r == all_res(*self)')]),
        U.fn(CA, 'CertAuth', 'handle', ensures=[('own_handle', '*r == self.handle')]),
        U.fn(CA, 'CertAuth', 'updated_allowed_and_needed', external_body=True, ensures=[
            ('verified_in_unit_c05_aspa', 'match r { Ok(b) => aspa_allowed_needed(*self, customer, *update) == Some(b), Err(_) => aspa_allowed_needed(*self, customer, *update) is None }')]),
    ]
    # --- append_updated_aspa_objects: the class loop on a vector handed in
    inv, gh = class_loop('aspa', '*all_aspas', 'events@', 'old(events)@.len() as int')
    fns.append(U.fn(CA, 'CertAuth', 'append_updated_aspa_objects', requires=[('km', KM)], hash_loops=(0,), attrs=['#[verifier::loop_isolation(false)]'],
                    ensures=[('earlier_events_kept', 'final(events)@.len() >= old(events)@.len() && final(events)@.subrange(0, old(events)@.len() as int) == old(events)@'),
                             ('fails_only_when_signing_fails', 'r is Err ==> exists |n: ResourceClassName| #[trigger] self.resources@.contains_key(n) && upd_aspa(self.resources@[n], *all_aspas) is None')]
                    + class_posts('aspa', '*all_aspas', 'final(events)@', 'old(events)@.len() as int'),
                    loops={0: {'iter': 'vx_it', 'invariant': inv}}, ghost=gh))
    # --- process_aspas_update
    D_, E_ = f'aspa_defs(self.aspas, {held}, updates)', f'aspa_events(self.aspas, {held}, updates)'
    fns.append(U.fn(CA, 'CertAuth', 'process_aspas_update', requires=[('km', KM)], ensures=[
        ('the_delta_is_decided_against_everything_held', f'r is Ok ==> aspa_accepts(self.aspas, {held}, updates)'),
        ('refused_only_when_the_delta_is_refused_or_signing_fails', f'''r is Err ==> !aspa_accepts(self.aspas, {held}, updates)
                        || exists |n: ResourceClassName| #[trigger] self.resources@.contains_key(n) && upd_aspa(self.resources@[n], {D_}) is None'''),
        ('configuration_events_first_and_unchanged', f'r is Ok ==> r->Ok_0@.len() >= {E_}.len() && r->Ok_0@.subrange(0, {E_}.len() as int) == {E_}'),
    ] + class_posts('aspa', D_, 'r->Ok_0@', f'{E_}.len() as int')))
    # --- process_aspas_update_existing
    A_ = 'aspa_applied(self.aspas, customer, update)'
    fns.append(U.fn(CA, 'CertAuth', 'process_aspas_update_existing', requires=[('km', KM)], ensures=[
        ('refused_exactly_when_not_allowed_or_signing_fails', f'''r is Err ==> aspa_allowed_needed(*self, customer, update) is None
                        || exists |n: ResourceClassName| #[trigger] self.resources@.contains_key(n) && upd_aspa(self.resources@[n], {A_}) is None'''),
        ('accepted_only_if_allowed', 'r is Ok ==> aspa_allowed_needed(*self, customer, update) is Some'),
        ('no_change_no_trace', 'r is Ok && aspa_allowed_needed(*self, customer, update) == Some(false) ==> r->Ok_0@.len() == 0'),
        ('configuration_event_recorded_once_and_last', '''r is Ok && aspa_allowed_needed(*self, customer, update) == Some(true) ==> r->Ok_0@.len() >= 1
                        && r->Ok_0@.last() == (CertAuthEvent::AspaConfigUpdated { customer, update })'''),
    ] + class_posts('aspa', A_, 'r->Ok_0@.drop_last()', '0', ok='r is Ok && aspa_allowed_needed(*self, customer, update) == Some(true)'),
        ghost=[(('before', 'events.push('), 'let ghost g_e = events@;'),
               (('before', 'Ok(events)'), 'proof { assert(events@.drop_last() =~= g_e); }')]))
    # --- process_bgpsec_definitions_update
    BD_, BE_ = f'bgpsec_defs(self.bgpsec_defs, {held}, updates)', f'bgpsec_events(self.bgpsec_defs, {held}, updates)'
    BDI, BEI = f'bgpsec_defs(self.bgpsec_defs, {held}, g_u)', f'bgpsec_events(self.bgpsec_defs, {held}, g_u)'   # `updates` is shadowed inside the loop
    inv, gh = class_loop('bgpsec', 'definitions', 'events@', f'{BEI}.len() as int',
                         extra=[('accepted', f'bgpsec_accepts(self.bgpsec_defs, {held}, g_u) && definitions == {BDI}')])
    gh = [(('body_start',), 'let ghost g_u = updates;')] + gh
    fns.append(U.fn(CA, 'CertAuth', 'process_bgpsec_definitions_update', requires=[('km', KM)], hash_loops=(0,), attrs=['#[verifier::loop_isolation(false)]'], ensures=[
        ('the_delta_is_decided_against_everything_held', f'r is Ok ==> bgpsec_accepts(self.bgpsec_defs, {held}, updates)'),
        ('refused_only_when_the_delta_is_refused_or_signing_fails', f'''r is Err ==> !bgpsec_accepts(self.bgpsec_defs, {held}, updates)
                        || exists |n: ResourceClassName| #[trigger] self.resources@.contains_key(n) && upd_bgpsec(self.resources@[n], {BD_}) is None'''),
        ('configuration_events_first_and_unchanged', f'r is Ok ==> r->Ok_0@.len() >= {BE_}.len() && r->Ok_0@.subrange(0, {BE_}.len() as int) == {BE_}'),
    ] + class_posts('bgpsec', BD_, 'r->Ok_0@', f'{BE_}.len() as int'), loops={0: {'iter': 'vx_it', 'invariant': inv}}, ghost=gh))
    # --- renewals (C14): every class is asked, a class with something due gets exactly its event
    for fn, kind, arg in (('process_route_authorizations_renew', 'roa_renew', 'force'), ('process_aspas_renew', 'aspa_renew', 'config.issuance_timing'),
                          ('process_bgpsec_renew', 'bgpsec_renew', 'config.issuance_timing')):
        inv, gh = class_loop(kind, arg, 'events@', '0')
        fns.append(U.fn(CA, 'CertAuth', fn, requires=[('km', KM)], hash_loops=(0,), attrs=['#[verifier::loop_isolation(false)]'], ensures=[
            ('fails_only_when_signing_fails', f'r is Err ==> exists |n: ResourceClassName| #[trigger] self.resources@.contains_key(n) && upd_{kind}(self.resources@[n], {arg}) is None'),
        ] + class_posts(kind, arg, 'r->Ok_0@', '0'), loops={0: {'iter': 'vx_it', 'invariant': inv}}, ghost=gh))
    U.impl('impl CertAuth', fns)
    return U
