"""C10: StagedElements::merge_new_elements -- the per-URI merge table, proved on the real text (3 loops x 4 arms)."""
from vxlib import Unit
from units import prelude

RR = 'src/server/pubd/rrdp.rs'

SPEC = r'''
pub open spec fn merge1(o: Option<DeltaElement>, n: DeltaElement) -> Option<DeltaElement> {
    match n {
        DeltaElement::Publish(p) => match o {
            Some(DeltaElement::Publish(_sp)) => Some(DeltaElement::Publish(p)),
            Some(DeltaElement::Update(su)) => Some(DeltaElement::Update(UpdateElement { uri: su.uri, hash: su.hash, base64: p.base64 })),
            Some(DeltaElement::Withdraw(sw)) => Some(DeltaElement::Update(UpdateElement { uri: p.uri, hash: sw.hash, base64: p.base64 })),
            None => Some(DeltaElement::Publish(p)),
        },
        DeltaElement::Update(u) => match o {
            Some(DeltaElement::Publish(sp)) => Some(DeltaElement::Publish(PublishElement { uri: sp.uri, base64: u.base64 })),
            Some(DeltaElement::Update(su)) => Some(DeltaElement::Update(UpdateElement { uri: su.uri, hash: su.hash, base64: u.base64 })),
            Some(DeltaElement::Withdraw(sw)) => Some(DeltaElement::Update(UpdateElement { uri: u.uri, hash: sw.hash, base64: u.base64 })),
            None => Some(DeltaElement::Update(u)),
        },
        DeltaElement::Withdraw(w) => match o {
            Some(DeltaElement::Publish(_sp)) => None,
            Some(DeltaElement::Update(su)) => Some(DeltaElement::Withdraw(WithdrawElement { uri: w.uri, hash: su.hash })),
            Some(DeltaElement::Withdraw(sw)) => Some(DeltaElement::Withdraw(sw)),
            None => Some(DeltaElement::Withdraw(w)),
        },
    }
}
pub open spec fn get_opt(m: Map<uri::Rsync, DeltaElement>, k: uri::Rsync) -> Option<DeltaElement> {
    if m.contains_key(k) { Some(m[k]) } else { None }
}
pub open spec fn distinct_uris(d: DeltaElements) -> bool {
    &&& forall |i: int, j: int| 0 <= i < j < d.publishes@.len() ==> d.publishes@[i].uri != d.publishes@[j].uri
    &&& forall |i: int, j: int| 0 <= i < j < d.updates@.len() ==> d.updates@[i].uri != d.updates@[j].uri
    &&& forall |i: int, j: int| 0 <= i < j < d.withdraws@.len() ==> d.withdraws@[i].uri != d.withdraws@[j].uri
    &&& forall |i: int, j: int| 0 <= i < d.publishes@.len() && 0 <= j < d.updates@.len() ==> d.publishes@[i].uri != d.updates@[j].uri
    &&& forall |i: int, j: int| 0 <= i < d.publishes@.len() && 0 <= j < d.withdraws@.len() ==> d.publishes@[i].uri != d.withdraws@[j].uri
    &&& forall |i: int, j: int| 0 <= i < d.updates@.len() && 0 <= j < d.withdraws@.len() ==> d.updates@[i].uri != d.withdraws@[j].uri
}

pub open spec fn has_p(d: DeltaElements, k: uri::Rsync) -> bool { exists |i: int| 0 <= i < d.publishes@.len() && #[trigger] d.publishes@[i].uri == k }
pub open spec fn has_u(d: DeltaElements, k: uri::Rsync) -> bool { exists |i: int| 0 <= i < d.updates@.len() && #[trigger] d.updates@[i].uri == k }
pub open spec fn has_w(d: DeltaElements, k: uri::Rsync) -> bool { exists |i: int| 0 <= i < d.withdraws@.len() && #[trigger] d.withdraws@[i].uri == k }
pub open spec fn pi(d: DeltaElements, k: uri::Rsync) -> int { choose |i: int| 0 <= i < d.publishes@.len() && #[trigger] d.publishes@[i].uri == k }
pub open spec fn ui(d: DeltaElements, k: uri::Rsync) -> int { choose |i: int| 0 <= i < d.updates@.len() && #[trigger] d.updates@[i].uri == k }
pub open spec fn wi(d: DeltaElements, k: uri::Rsync) -> int { choose |i: int| 0 <= i < d.withdraws@.len() && #[trigger] d.withdraws@[i].uri == k }
pub open spec fn expect(o: Map<uri::Rsync, DeltaElement>, d: DeltaElements, np: int, nu: int, nw: int, k: uri::Rsync) -> Option<DeltaElement> {
    if has_p(d, k) && pi(d, k) < np { merge1(get_opt(o, k), DeltaElement::Publish(d.publishes@[pi(d, k)])) }
    else if has_u(d, k) && ui(d, k) < nu { merge1(get_opt(o, k), DeltaElement::Update(d.updates@[ui(d, k)])) }
    else if has_w(d, k) && wi(d, k) < nw { merge1(get_opt(o, k), DeltaElement::Withdraw(d.withdraws@[wi(d, k)])) }
    else { get_opt(o, k) }
}
// under distinctness the chosen index is the unique one
pub proof fn lemma_pi(d: DeltaElements, i: int)
    requires distinct_uris(d), 0 <= i < d.publishes@.len()
    ensures has_p(d, d.publishes@[i].uri), pi(d, d.publishes@[i].uri) == i, !has_u(d, d.publishes@[i].uri), !has_w(d, d.publishes@[i].uri)
{
    let k = d.publishes@[i].uri;
    assert(d.publishes@[i].uri == k);
    let j = pi(d, k);
    assert(0 <= j < d.publishes@.len() && d.publishes@[j].uri == k);
    if j < i { assert(d.publishes@[j].uri != d.publishes@[i].uri); }
    if i < j { assert(d.publishes@[i].uri != d.publishes@[j].uri); }
    if has_u(d, k) { let x = ui(d, k); assert(d.publishes@[i].uri != d.updates@[x].uri); }
    if has_w(d, k) { let x = wi(d, k); assert(d.publishes@[i].uri != d.withdraws@[x].uri); }
}
pub proof fn lemma_ui(d: DeltaElements, i: int)
    requires distinct_uris(d), 0 <= i < d.updates@.len()
    ensures has_u(d, d.updates@[i].uri), ui(d, d.updates@[i].uri) == i, !has_p(d, d.updates@[i].uri), !has_w(d, d.updates@[i].uri)
{
    let k = d.updates@[i].uri;
    assert(d.updates@[i].uri == k);
    let j = ui(d, k);
    assert(0 <= j < d.updates@.len() && d.updates@[j].uri == k);
    if j < i { assert(d.updates@[j].uri != d.updates@[i].uri); }
    if i < j { assert(d.updates@[i].uri != d.updates@[j].uri); }
    if has_p(d, k) { let x = pi(d, k); assert(d.publishes@[x].uri != d.updates@[i].uri); }
    if has_w(d, k) { let x = wi(d, k); assert(d.updates@[i].uri != d.withdraws@[x].uri); }
}
pub proof fn lemma_wi(d: DeltaElements, i: int)
    requires distinct_uris(d), 0 <= i < d.withdraws@.len()
    ensures has_w(d, d.withdraws@[i].uri), wi(d, d.withdraws@[i].uri) == i, !has_p(d, d.withdraws@[i].uri), !has_u(d, d.withdraws@[i].uri)
{
    let k = d.withdraws@[i].uri;
    assert(d.withdraws@[i].uri == k);
    let j = wi(d, k);
    assert(0 <= j < d.withdraws@.len() && d.withdraws@[j].uri == k);
    if j < i { assert(d.withdraws@[j].uri != d.withdraws@[i].uri); }
    if i < j { assert(d.withdraws@[i].uri != d.withdraws@[j].uri); }
    if has_p(d, k) { let x = pi(d, k); assert(d.publishes@[x].uri != d.withdraws@[i].uri); }
    if has_u(d, k) { let x = ui(d, k); assert(d.updates@[x].uri != d.withdraws@[i].uri); }
}
'''

INV_COMMON = 'obeys_key_model::<uri::Rsync>(), distinct_uris(elements)'


def loop_ghost(which, hit, idx, np, nu, nw):
    # which: publishes/updates/withdraws ; returns (start, end) ghost texts for the loop body
    var = {'publishes': '@LV0@', 'updates': '@LV1@', 'withdraws': '@LV2@'}[which]
    lem = {'publishes': 'lemma_pi', 'updates': 'lemma_ui', 'withdraws': 'lemma_wi'}[which]
    start = f"""let ghost m0 = self.0@; let ghost i0 = vx_it.index@ as int;
            proof {{ {lem}(elements, i0); assert({var} == elements.{which}@[i0]); }}"""
    args = {'publishes': 'i0 + 1, 0, 0', 'updates': 'elements.publishes@.len() as int, i0 + 1, 0',
            'withdraws': 'elements.publishes@.len() as int, elements.updates@.len() as int, i0 + 1'}[which]
    args0 = {'publishes': 'i0, 0, 0', 'updates': 'elements.publishes@.len() as int, i0, 0',
             'withdraws': 'elements.publishes@.len() as int, elements.updates@.len() as int, i0'}[which]
    end = f"""proof {{
                /*@table_{which}*/ assert forall |k: uri::Rsync| get_opt(self.0@, k) == #[trigger] expect(old(self).0@, elements, {args}, k) by {{
                    assert(get_opt(m0, k) == expect(old(self).0@, elements, {args0}, k));
                    if k == elements.{which}@[i0].uri {{
                    }} else {{
                        if {hit}(elements, k) {{ let j = {idx}(elements, k); assert(elements.{which}@[j].uri == k); assert(j != i0); }}
                    }}
                }};
            }}"""
    return start, end


def build():
    U = Unit('c10_staged', 'C10', 'staged-on-staged merge: for every URI the staged element afterwards is merge1(staged before, new element)')
    prelude.hashmap(U, get_mut=True)
    prelude.strings(U)
    U.opaque('Rsync', 'Clone, PartialEq, Eq, Hash', module='uri')
    U.opaque('Base64', 'Clone, PartialEq, Eq', clone_spec=False)
    U.opaque('Hash', 'Clone, Copy, PartialEq, Eq')
    for st in ['PublishElement', 'UpdateElement', 'WithdrawElement', 'DeltaElements', 'StagedElements']:
        U.struct(RR, st, derive=[])
    U.enum(RR, 'DeltaElement', derive=[])
    U.add(SPEC)
    U.impl('impl DeltaElements', [
        U.fn(RR, 'DeltaElements', 'unpack', ensures=[('parts', 'r.0 == self.publishes, r.1 == self.updates, r.2 == self.withdraws')]),
    ])
    s0, e0 = loop_ghost('publishes', 'has_p', 'pi', 0, 0, 0)
    s1, e1 = loop_ghost('updates', 'has_u', 'ui', 0, 0, 0)
    s2, e2 = loop_ghost('withdraws', 'has_w', 'wi', 0, 0, 0)
    U.impl('impl StagedElements', [
        U.fn(RR, 'StagedElements', 'merge_new_elements',
             requires=[('key_model', 'obeys_key_model::<uri::Rsync>()'), ('each_uri_once_per_delta', 'distinct_uris(elements)')],
             ensures=[('merge_table', """forall |k: uri::Rsync| get_opt(final(self).0@, k) == #[trigger] expect(old(self).0@, elements,
                elements.publishes@.len() as int, elements.updates@.len() as int, elements.withdraws@.len() as int, k)""")],
             loops={
                 0: {'iter': 'vx_it', 'invariant': [('pre', INV_COMMON),
                     ('parts', 'publishes@ == elements.publishes@, updates@ == elements.updates@, withdraws@ == elements.withdraws@'),
                     ('table', 'forall |k: uri::Rsync| get_opt(self.0@, k) == #[trigger] expect(old(self).0@, elements, vx_it.index@ as int, 0, 0, k)')]},
                 1: {'iter': 'vx_it', 'invariant': [('pre', INV_COMMON),
                     ('parts', 'updates@ == elements.updates@, withdraws@ == elements.withdraws@'),
                     ('table', 'forall |k: uri::Rsync| get_opt(self.0@, k) == #[trigger] expect(old(self).0@, elements, elements.publishes@.len() as int, vx_it.index@ as int, 0, k)')]},
                 2: {'iter': 'vx_it', 'invariant': [('pre', INV_COMMON),
                     ('parts', 'withdraws@ == elements.withdraws@'),
                     ('table', 'forall |k: uri::Rsync| get_opt(self.0@, k) == #[trigger] expect(old(self).0@, elements, elements.publishes@.len() as int, elements.updates@.len() as int, vx_it.index@ as int, k)')]},
             },
             ghost=[(('loop_start', 0), s0), (('loop_end', 0), e0), (('loop_start', 1), s1), (('loop_end', 1), e1),
                    (('loop_start', 2), s2), (('loop_end', 2), e2)]),
    ])
    return U
