"""C19: the exchange drivers of CaManager record the outcome they hand back to their caller: a repository exchange (list / delta)
that returns Err has recorded a failure for that CA, one that returns Ok has recorded a success, and the delta is applied to the
published-file list only when the exchange succeeded -- once, and that delta; a parent exchange (revocations, entitlements) records
failure / success / the entitlements returned for THAT parent of THAT CA; the outcome of a child's request is recorded for the
sending child.  The status store is a ghost-modelled facade here (its operations are verified on the real text in units c19_store /
c19_status); the network exchange itself is an assumed external."""
from vxlib import Unit
from units import prelude

MGR = 'src/server/ca/manager.rs'
ADM = 'src/api/admin.rs'

OUT = '''
use std::sync::Arc;
use std::collections::HashMap;
pub type KrillResult<T> = Result<T, Error>;
pub struct AggregateStore<T>(pub Vec<T>);
pub mod publication {
    use super::*;
    pub struct Message(pub u8);
    pub enum Reply { List(ListReply), Success, ErrorReply(ErrorReply) }
    impl Message {
        pub fn list_query() -> Message { unimplemented!() }
        pub fn delta(_d: PublishDelta) -> Message { unimplemented!() }
    }
}
pub mod provisioning { pub struct Message(pub u8); }
impl Error { pub fn custom<T>(_s: T) -> Error { unimplemented!() } }
impl PublicKey { pub fn key_identifier(&self) -> KeyIdentifier { unimplemented!() } }
pub struct ChildState(pub u8);
pub struct ChildDetails { pub state: ChildState }
pub struct UpdateChildRequest(pub u8);
impl ChildState { pub fn is_suspended(&self) -> bool { unimplemented!() } }
impl UpdateChildRequest { pub fn unsuspend() -> Self { unimplemented!() } }
impl CertAuth {
    pub fn get_child(&self, _c: &ChildHandle) -> KrillResult<&ChildDetails> { unimplemented!() }
    pub fn handle(&self) -> &CaHandle { unimplemented!() }
}
impl CaHandle { pub fn as_str(&self) -> &str { unimplemented!() } }
pub struct RepositoryContact(pub u8);
pub struct DeprecatedRepository(pub u8);
impl DeprecatedRepository { pub fn into_contact(self) -> RepositoryContact { unimplemented!() } }
impl CertAuth {
    pub fn vx_parents(&self) -> Vec<&ParentHandle> { unimplemented!() }
}
impl<T> AggregateStore<T> { pub fn drop_aggregate(&self, _h: &CaHandle) -> Result<(), StoreError> { unimplemented!() } }
pub struct StoreError(pub u8);
impl From<StoreError> for Error { fn from(_e: StoreError) -> Error { unimplemented!() } }
impl CaObjectsStore { pub fn remove_ca(&self, _h: &CaHandle) -> KrillResult<()> { unimplemented!() } }
'''

SPEC = r'''
#[verifier::external_type_specification] #[verifier::external_body] #[verifier::reject_recursive_types(T)] pub struct ExAggregateStore<T>(AggregateStore<T>);
#[verifier::external_type_specification] #[verifier::external_body] pub struct ExMessage(publication::Message);
#[verifier::external_type_specification] #[verifier::external_body] pub struct ExPMessage(provisioning::Message);
#[verifier::external_type_specification] pub struct ExReply(publication::Reply);
#[verifier::external_type_specification] #[verifier::external_body] pub struct ExChildState(ChildState);
#[verifier::external_type_specification] pub struct ExChildDetails(ChildDetails);
#[verifier::external_type_specification] #[verifier::external_body] pub struct ExUpdateChildRequest(UpdateChildRequest);
pub assume_specification [ChildState::is_suspended] (s: &ChildState) -> (r: bool);
pub assume_specification [UpdateChildRequest::unsuspend] () -> (r: UpdateChildRequest);
pub uninterp spec fn ca_has_child(c: CertAuth, child: ChildHandle) -> bool;
pub uninterp spec fn handle_text(h: CaHandle) -> Seq<char>;
/// ASSUMED: CertAuth::get_child succeeds exactly for a child the CA has (verified in units c05_child / c12_rfc6492)
pub assume_specification<'a> [CertAuth::get_child] (c: &'a CertAuth, child: &ChildHandle) -> (r: KrillResult<&'a ChildDetails>) ensures (r is Ok) == ca_has_child(*c, *child);
pub assume_specification [CertAuth::handle] (c: &CertAuth) -> (r: &CaHandle);
pub assume_specification [CaHandle::as_str] (h: &CaHandle) -> (r: &str) ensures r@ == handle_text(*h);
/// this CA instance was fetched from the store under this handle DURING this request (established only by get_ca)
pub uninterp spec fn looked_up(h: CaHandle, c: CertAuth) -> bool;
/// a status record is written for a child only after the CA was asked and has this child (the local request path runs no CMS
/// validation, so this look-up is what refuses a child that was removed); the trust anchor keeps no suspension state and is exempt
pub open spec fn may_record_child(ca: CaHandle, child: ChildHandle) -> bool {
    handle_text(ca) == TA_NAME@ || exists |c: CertAuth| #[trigger] looked_up(ca, c) && ca_has_child(c, child)
}
#[verifier::external_type_specification] #[verifier::external_body] pub struct ExRepositoryContact(RepositoryContact);
#[verifier::external_type_specification] #[verifier::external_body] pub struct ExDeprecatedRepository(DeprecatedRepository);
#[verifier::external_type_specification] #[verifier::external_body] pub struct ExStoreError(StoreError);
pub assume_specification [DeprecatedRepository::into_contact] (d: DeprecatedRepository) -> (r: RepositoryContact);
pub assume_specification [CertAuth::vx_parents] (c: &CertAuth) -> (r: Vec<&ParentHandle>);
pub assume_specification<T> [AggregateStore::<T>::drop_aggregate] (s: &AggregateStore<T>, h: &CaHandle) -> (r: Result<(), StoreError>);
pub assume_specification [<Error as From<StoreError>>::from] (e: StoreError) -> (r: Error);
pub assume_specification [CaObjectsStore::remove_ca] (s: &CaObjectsStore, h: &CaHandle) -> (r: KrillResult<()>);
/// the status store holds no entry (repository, parents, children) for this CA
pub uninterp spec fn ca_gone(s: CaStatusStore, ca: CaHandle) -> bool;
impl CaManager {
    #[verifier::external_body] pub fn vx_repo_contacts(&self, ca: &CaHandle) -> (r: KrillResult<Vec<RepositoryContact>>) { unimplemented!() }
}
impl CaStatusStore {
    /// what unit c19_store verifies of remove_ca (set-level reading)
    #[verifier::external_body] pub fn remove_ca(&mut self, ca: &CaHandle) -> (r: KrillResult<()>) ensures r is Ok ==> ca_gone(*final(self), *ca) { unimplemented!() }
}
pub assume_specification [publication::Message::list_query] () -> (m: publication::Message);
pub assume_specification [publication::Message::delta] (d: PublishDelta) -> (m: publication::Message);
pub assume_specification<T> [Error::custom::<T>] (s: T) -> (e: Error);
impl CertAuth {
    #[verifier::external_body] pub fn parent(&self, p: &ParentHandle) -> (r: KrillResult<&ParentCaContact>) { unimplemented!() }
    #[verifier::external_body] pub fn id_cert(&self) -> (r: &IdCertInfo) { unimplemented!() }
}
pub assume_specification [PublicKey::key_identifier] (k: &PublicKey) -> (r: KeyIdentifier);

// ---- ghost model of the status store (operations verified on the real text in units c19_store / c19_status) ----
pub enum Shown { Never, Failed(ErrorResponse), Succeeded }
pub uninterp spec fn error_response_of(e: Error) -> ErrorResponse;
/// the write-through of the status store to its key-value store failed at some point (an I/O fault of the status store itself, not an
/// outcome of an exchange); the record in memory is updated all the same (verified in c19_store: the postconditions there are unconditional)
pub uninterp spec fn io_failed(s: CaStatusStore) -> bool;
/// what the repository record of a CA shows, and the deltas applied to its published-file list so far (in order)
pub uninterp spec fn repo_shown(s: CaStatusStore, ca: CaHandle) -> Shown;
pub uninterp spec fn repo_deltas(s: CaStatusStore, ca: CaHandle) -> Seq<PublishDelta>;
/// what the record of a parent of a CA shows, and the entitlements last recorded for it
pub uninterp spec fn parent_shown(s: CaStatusStore, ca: CaHandle, p: ParentHandle) -> Shown;
pub uninterp spec fn parent_entitlements(s: CaStatusStore, ca: CaHandle, p: ParentHandle) -> Option<ResourceClassListResponse>;
/// what the record of a child of a CA shows (outcome of its most recent request)
pub uninterp spec fn child_shown(s: CaStatusStore, ca: CaHandle, c: ChildHandle) -> Shown;
impl CaStatusStore {
    #[verifier::external_body] pub fn set_status_repo_failure(&mut self, ca: &CaHandle, uri: ServiceUri, error: &Error) -> (r: KrillResult<()>)
        ensures r is Err ==> io_failed(*final(self)), repo_shown(*final(self), *ca) == Shown::Failed(error_response_of(*error)), repo_deltas(*final(self), *ca) == repo_deltas(*old(self), *ca) { unimplemented!() }
    #[verifier::external_body] pub fn set_status_repo_success(&mut self, ca: &CaHandle, uri: ServiceUri) -> (r: KrillResult<()>)
        ensures r is Err ==> io_failed(*final(self)), repo_shown(*final(self), *ca) == Shown::Succeeded, repo_deltas(*final(self), *ca) == repo_deltas(*old(self), *ca) { unimplemented!() }
    #[verifier::external_body] pub fn set_status_repo_published(&mut self, ca: &CaHandle, uri: ServiceUri, delta: PublishDelta) -> (r: KrillResult<()>)
        ensures r is Err ==> io_failed(*final(self)), repo_shown(*final(self), *ca) == Shown::Succeeded, repo_deltas(*final(self), *ca) == repo_deltas(*old(self), *ca).push(delta) { unimplemented!() }
    #[verifier::external_body] pub fn set_parent_failure(&mut self, ca: &CaHandle, parent: &ParentHandle, uri: &ServiceUri, error: &Error) -> (r: KrillResult<()>)
        ensures r is Err ==> io_failed(*final(self)), parent_shown(*final(self), *ca, *parent) == Shown::Failed(error_response_of(*error)),
            parent_entitlements(*final(self), *ca, *parent) == parent_entitlements(*old(self), *ca, *parent) { unimplemented!() }
    #[verifier::external_body] pub fn set_parent_last_updated(&mut self, ca: &CaHandle, parent: &ParentHandle, uri: &ServiceUri) -> (r: KrillResult<()>)
        ensures r is Err ==> io_failed(*final(self)), parent_shown(*final(self), *ca, *parent) == Shown::Succeeded,
            parent_entitlements(*final(self), *ca, *parent) == parent_entitlements(*old(self), *ca, *parent) { unimplemented!() }
    #[verifier::external_body] pub fn set_parent_entitlements(&mut self, ca: &CaHandle, parent: &ParentHandle, uri: &ServiceUri, entitlements: &ResourceClassListResponse) -> (r: KrillResult<()>)
        ensures r is Err ==> io_failed(*final(self)), parent_shown(*final(self), *ca, *parent) == Shown::Succeeded,
            parent_entitlements(*final(self), *ca, *parent) == Some(*entitlements) { unimplemented!() }
    #[verifier::external_body] pub fn set_child_success(&mut self, ca: &CaHandle, child: &ChildHandle, user_agent: Option<String>) -> (r: KrillResult<()>)
        ensures r is Err ==> io_failed(*final(self)), child_shown(*final(self), *ca, *child) == Shown::Succeeded { unimplemented!() }
    #[verifier::external_body] pub fn set_child_failure(&mut self, ca: &CaHandle, child: &ChildHandle, user_agent: Option<String>, error: &Error) -> (r: KrillResult<()>)
        ensures r is Err ==> io_failed(*final(self)), child_shown(*final(self), *ca, *child) == Shown::Failed(error_response_of(*error)) { unimplemented!() }
}
'''


def build():
    U = Unit('c19_exchange', 'C19', 'exchange drivers record the outcome they return: Err <=> failure recorded, Ok <=> success recorded; the delta reaches the published list only on success')
    prelude.strings(U)
    for t in ['CaHandle', 'ParentHandle', 'ChildHandle', 'ServiceUri', 'ErrorResponse', 'PublicKey']:
        U.opaque(t, 'Clone')
    U.opaque('PublishDelta', 'Clone')
    for t in ['ResourceClassName', 'RevocationRequest', 'RevocationResponse', 'CaStatusStore', 'CaObjectsStore', 'TrustAnchorProxy', 'TrustAnchorSigner', 'CertAuth', 'SlowKrillRuntime', 'KrillRuntime', 'KeyIdentifier',
              'ListReply', 'ErrorReply', 'ResourceClassListResponse', 'IdCertInfoRest', 'Base64', 'Hash', 'Actor', 'PublishedFile']:
        U.opaque(t, '')
    U.outside(OUT)
    U.enum('src/commons/error.rs', 'Error', keep=['Custom', 'Multiple'], derive=[])
    U.struct('src/api/ca.rs', 'IdCertInfo', derive=[])
    U.struct(ADM, 'PublicationServerInfo', derive=[])
    U.struct(ADM, 'ParentServerInfo', derive=[])
    U.enum(ADM, 'ParentCaContact', derive=[])
    U.struct(MGR, 'CaManager', derive=[])
    U.free(U.const('src/constants.rs', None, 'TA_NAME'))
    U.add(SPEC)
    U.impl('impl ParentCaContact', [U.fn(ADM, 'ParentCaContact', 'parent_server_info', ensures=[('is_the_rfc6492_info', '*r == self->Rfc6492_0')])])
    U.impl('impl CaManager', [
        U.fn(MGR, 'CaManager', 'send_rfc8181_and_validate_response', external_body=True),
        U.fn(MGR, 'CaManager', 'send_rfc8181_list', mut_self=True, ensures=[
            ('failure_shown_iff_the_exchange_failed', '''(r is Err ==> repo_shown(final(self).status_store, *ca_handle) is Failed || io_failed(final(self).status_store))
                && (r is Ok ==> repo_shown(final(self).status_store, *ca_handle) is Succeeded)'''),
            ('published_list_untouched_by_a_list_query', 'repo_deltas(final(self).status_store, *ca_handle) == repo_deltas(old(self).status_store, *ca_handle)'),
        ]),
        U.fn(MGR, 'CaManager', 'send_rfc8181_delta', mut_self=True, ensures=[
            ('failure_shown_iff_the_exchange_failed', '''(r is Err ==> repo_shown(final(self).status_store, *ca_handle) is Failed || io_failed(final(self).status_store))
                && (r is Ok ==> repo_shown(final(self).status_store, *ca_handle) is Succeeded)'''),
            ('delta_applied_once_and_only_on_success', '''(r is Ok ==> repo_deltas(final(self).status_store, *ca_handle) == repo_deltas(old(self).status_store, *ca_handle).push(delta))
                && (r is Err ==> repo_deltas(final(self).status_store, *ca_handle) == repo_deltas(old(self).status_store, *ca_handle) || io_failed(final(self).status_store))'''),
        ]),
        # ---- parents ----
        U.fn(MGR, 'CaManager', 'get_ca', external_body=True, ensures=[('fetched_during_this_request', 'r is Ok ==> looked_up(*handle, *r->Ok_0)')]),
        U.fn(MGR, 'CaManager', 'ca_child_update', external_body=True),
        U.fn(MGR, 'CaManager', 'send_revoke_requests_rfc6492', external_body=True),
        U.fn(MGR, 'CaManager', 'get_entitlements_rfc6492', external_body=True),
        U.fn(MGR, 'CaManager', 'send_revoke_requests', mut_self=True, ensures=[
            ('outcome_of_the_exchange_recorded_for_this_parent', '''(r is Ok ==> parent_shown(final(self).status_store, *handle, *parent) is Succeeded)
                && (r is Err ==> parent_shown(final(self).status_store, *handle, *parent) is Failed || io_failed(final(self).status_store)
                        || final(self).status_store == old(self).status_store)'''),
            ('entitlements_kept', 'parent_entitlements(final(self).status_store, *handle, *parent) == parent_entitlements(old(self).status_store, *handle, *parent)'),
        ]),
        U.fn(MGR, 'CaManager', 'get_entitlements_from_contact', mut_self=True, ensures=[
            ('answer_recorded_for_this_parent', '''r is Ok ==> parent_shown(final(self).status_store, *ca, *parent) is Succeeded
                && parent_entitlements(final(self).status_store, *ca, *parent) == Some(r->Ok_0)'''),
            ('failure_recorded_for_an_existing_parent', '''r is Err && existing_parent ==> io_failed(final(self).status_store)
                || (parent_shown(final(self).status_store, *ca, *parent) is Failed
                    && parent_entitlements(final(self).status_store, *ca, *parent) == parent_entitlements(old(self).status_store, *ca, *parent))'''),
            ('no_entry_made_for_a_parent_that_was_refused', 'r is Err && !existing_parent ==> final(self).status_store == old(self).status_store || io_failed(final(self).status_store)'),
        ]),
        # the statement of send_cert_requests_handle_responses that records the outcome of the certificate requests (lifted verbatim, R17s)
        U.stmt_fn(MGR, 'CaManager', 'send_cert_requests_handle_responses', 'if errors.is_empty()', 'vx_record_cert_request_outcome',
                  '(&mut self, ca_handle: &CaHandle, parent: &ParentHandle, uri: &ServiceUri, errors0: Vec<Error>) -> (r: KrillResult<()>)',
                  ghost_before='let mut errors = errors0;\n',
                  ensures=[
                      ('success_recorded_iff_no_request_failed', '''(errors0@.len() == 0 ==> parent_shown(final(self).status_store, *ca_handle, *parent) is Succeeded)
                          && (errors0@.len() > 0 ==> r is Err && parent_shown(final(self).status_store, *ca_handle, *parent) is Failed)'''),
                      ('entitlements_kept', 'parent_entitlements(final(self).status_store, *ca_handle, *parent) == parent_entitlements(old(self).status_store, *ca_handle, *parent)'),
                  ]),
        # deleting a CA: the best-effort clean-up steps (revocation requests, emptying the repositories) record their outcome in the
        # status store and thereby (re-)create entries for the CA; the entries are removed AFTER them, as the last thing
        U.fn(MGR, 'CaManager', 'ca_parent_revoke', external_body=True, mut_self=True),
        U.fn(MGR, 'CaManager', 'ca_repo_sync', external_body=True, mut_self=True),
        U.fn(MGR, 'CaManager', 'ca_deprecated_repos', external_body=True),
        U.fn(MGR, 'CaManager', 'delete_ca', mut_self=True, subst=[
            ('ca.parents()', 'ca.vx_parents()', 'R14'),
            ('self.ca_repo_elements(\n            ca_handle\n        )?.into_keys().collect()', 'self.vx_repo_contacts(ca_handle)?', 'R14')],
            ensures=[('no_status_entry_of_a_deleted_ca_is_left', 'r is Ok ==> ca_gone(final(self).status_store, *ca_handle)')]),
        # the first statement of rfc6492_process_request (lifted verbatim, R17s): whoever gets past it is a child this CA has
        U.stmt_fn(MGR, 'CaManager', 'rfc6492_process_request', 'if ca_handle.as_str() != TA_NAME', 'vx_check_child_first',
                  '(&self, ca_handle: &CaHandle, child_handle: ChildHandle, actor: &Actor, krill: &KrillRuntime) -> (r: KrillResult<()>)',
                  tail='Ok(())',
                  ensures=[('a_request_of_an_unknown_child_goes_no_further', 'r is Ok ==> may_record_child(*ca_handle, child_handle)')]),
        # the statement of rfc6492_process_request that records the outcome of a child's request (lifted verbatim, R17s)
        U.stmt_fn(MGR, 'CaManager', 'rfc6492_process_request', 'match &res_msg', 'vx_record_child_outcome',
                  '(&mut self, ca_handle: &CaHandle, child_handle: ChildHandle, user_agent: Option<String>, res_msg: KrillResult<provisioning::Message>) -> (r: KrillResult<provisioning::Message>)',
                  tail='res_msg',
                  requires=[('only_for_a_child_the_ca_has', 'may_record_child(*ca_handle, child_handle)')],
                  ensures=[
                      ('outcome_of_this_request_recorded_for_the_sending_child', '''(res_msg is Ok ==> child_shown(final(self).status_store, *ca_handle, child_handle) is Succeeded)
                          && (res_msg is Err ==> child_shown(final(self).status_store, *ca_handle, child_handle) == Shown::Failed(error_response_of(res_msg->Err_0)))'''),
                      ('answer_handed_on', 'r is Ok ==> r == res_msg'),
                  ]),
    ])
    return U
