"""C20: only genuine credentials authenticate: admin token verbatim, mapped unix user; decrypt passes nonce/tag/ciphertext in the
right positions and returns only what AEAD-open returned."""
from vxlib import Unit
from units import prelude

CRYPT = 'src/daemon/http/auth/crypt.rs'
ADM = 'src/daemon/http/auth/providers/admin_token.rs'
UNIX = 'src/daemon/http/auth/providers/unix_user.rs'
ERR = 'src/commons/error.rs'

SPEC = r'''
// ---- assumed externals ----
/// ChaCha20-Poly1305 open: Some(plaintext) iff the tag verifies for (key, nonce, aad = empty, ciphertext)
pub uninterp spec fn aead_open(key: Seq<u8>, nonce: Seq<u8>, ct: Seq<u8>, tag: Seq<u8>) -> Option<Seq<u8>>;
pub assume_specification [openssl::symm::Cipher::chacha20_poly1305] () -> (c: openssl::symm::Cipher);
pub assume_specification [openssl::symm::decrypt_aead] (c: openssl::symm::Cipher, key: &[u8], iv: Option<&[u8]>, aad: &[u8], data: &[u8], tag: &[u8]) -> (r: Result<Vec<u8>, openssl::ErrorStack>)
    ensures iv is Some && aad@.len() == 0 ==> (match r { Ok(p) => aead_open(key@, iv->Some_0@, data@, tag@) == Some(p@), Err(_) => aead_open(key@, iv->Some_0@, data@, tag@) is None });

pub uninterp spec fn bearer_of(r: HyperRequest) -> Option<Token>;
pub assume_specification [httpclient::get_bearer_token] (r: &HyperRequest) -> (t: Option<Token>) ensures t == bearer_of(*r);
/// the user name a value converts to (Into<Arc<str>>), uninterpreted
pub uninterp spec fn id_view<T>(t: T) -> Seq<char>;
pub uninterp spec fn auth_user(id: Seq<char>, role: Arc<Role>) -> AuthInfo;
pub assume_specification<T: Into<Arc<str>>> [AuthInfo::user::<T>] (id: T, role: Arc<Role>) -> (a: AuthInfo) ensures a == auth_user(id_view(id), role);
pub uninterp spec fn peer_user(r: HyperRequest) -> Option<UnixUser>;
pub assume_specification [vx_peer_user] (r: &HyperRequest) -> (u: Option<&UnixUser>)
    ensures match u { Some(x) => peer_user(*r) == Some(*x), None => peer_user(*r) is None };
'''


def build():
    U = Unit('c20_auth', 'C20', 'admin token accepted iff byte-equal; unix user iff mapped; decrypt: positions of nonce/tag/ciphertext, returns only what AEAD-open returned')
    prelude.hashmap(U)
    prelude.strings(U)
    prelude.string_eq(U)
    U.opaque('HyperRequest', '')
    U.opaque('AuthInfo', '')
    U.opaque('Role', '')
    U.outside('''
use std::sync::Arc;
pub mod openssl {
    pub struct ErrorStack(pub u8);
    pub mod symm {
        #[derive(Clone, Copy)] pub struct Cipher(pub u8);
        impl Cipher { pub fn chacha20_poly1305() -> Cipher { unimplemented!() } }
        pub fn decrypt_aead(_c: Cipher, _key: &[u8], _iv: Option<&[u8]>, _aad: &[u8], _data: &[u8], _tag: &[u8]) -> Result<Vec<u8>, super::ErrorStack> { unimplemented!() }
    }
}
pub mod httpclient { pub fn get_bearer_token(_r: &super::HyperRequest) -> Option<super::Token> { unimplemented!() } }
impl AuthInfo { pub fn user<T: Into<Arc<str>>>(_id: T, _r: Arc<Role>) -> Self { unimplemented!() } }
pub struct UnixUser { pub name: String }
pub fn vx_peer_user(_r: &HyperRequest) -> Option<&UnixUser> { unimplemented!() }
''')
    U.add('''#[verifier::external_type_specification] #[verifier::external_body] pub struct ExErrorStack(openssl::ErrorStack);
#[verifier::external_type_specification] #[verifier::external_body] pub struct ExCipher(openssl::symm::Cipher);
#[verifier::external_type_specification] pub struct ExUnixUser(UnixUser);''')
    U.struct('src/api/admin.rs', 'Token', derive=['Clone', 'PartialEq', 'Eq'], structural=False)
    U.add('''impl vstd::std_specs::cmp::PartialEqSpecImpl for Token {
    open spec fn obeys_eq_spec() -> bool { true }
    open spec fn eq_spec(&self, other: &Token) -> bool { self.0@ == other.0@ }
}
/// ASSUMED: the derived PartialEq of Token(String) is equality of the strings
pub assume_specification [<Token as PartialEq>::eq] (a: &Token, b: &Token) -> (r: bool) ensures r == (a.0@ == b.0@);''')
    U.enum(ERR, 'ApiAuthError', keep=['ApiInvalidCredentials'], derive=[])
    U.outside('''
pub enum Error { ApiInvalidCredentials(String), VxOther }
pub type KrillResult<T> = Result<T, Error>;
impl From<ApiAuthError> for Error { fn from(_e: ApiAuthError) -> Self { unimplemented!() } }
pub struct LoggedInUser(pub u8);
impl LoggedInUser { pub fn new(_t: Token, _id: Arc<str>, _role: Arc<str>) -> Self { unimplemented!() } }
pub fn vx_arc_from_arc(_a: &Arc<str>) -> Arc<str> { unimplemented!() }
pub fn vx_arc_from_str(_s: &str) -> Arc<str> { unimplemented!() }
''')
    U.add('''#[verifier::external_type_specification] pub struct ExError(Error);
#[verifier::external_type_specification] #[verifier::external_body] pub struct ExLoggedInUser(LoggedInUser);
pub assume_specification [<Error as From<ApiAuthError>>::from] (e: ApiAuthError) -> (r: Error);
pub assume_specification [LoggedInUser::new] (t: Token, id: Arc<str>, role: Arc<str>) -> (r: LoggedInUser);
pub assume_specification [vx_arc_from_arc] (a: &Arc<str>) -> (r: Arc<str>);
pub assume_specification [vx_arc_from_str] (s: &str) -> (r: Arc<str>);''')
    for c in ['CHACHA20_NONCE_BIT_LEN', 'CHACHA20_NONCE_BYTE_LEN', 'POLY1305_TAG_BIT_LEN', 'POLY1305_TAG_BYTE_LEN', 'CLEARTEXT_PREFIX_LEN']:
        U.free(U.const(CRYPT, None, c))
    U.free(U.const(CRYPT, None, 'UNUSED_AAD', ensures='UNUSED_AAD@.len() == 0'))
    U.add(SPEC)
    # robustness: equivalent ways of cutting the payload (range indexing, split_at, nested slices) must all verify
    U.add('''
pub broadcast proof fn lemma_subrange_of_subrange<A>(s: Seq<A>, a: int, b: int, c: int, d: int)
    requires 0 <= a <= b <= s.len(), 0 <= c <= d <= b - a
    ensures #[trigger] s.subrange(a, b).subrange(c, d) == s.subrange(a + c, a + d)
{ assert(s.subrange(a, b).subrange(c, d) =~= s.subrange(a + c, a + d)); }
''')
    U.free(U.fn(CRYPT, None, 'decrypt', ghost=[(('body_start',), 'broadcast use lemma_subrange_of_subrange;')], ensures=[
        ('short_payload_rejected', 'payload@.len() <= 28 ==> r is Err'),
        ('only_what_aead_open_returned', '''r is Ok ==> payload@.len() > 28
            && aead_open(key@, payload@.subrange(0, 12), payload@.subrange(28, payload@.len() as int), payload@.subrange(12, 28)) == Some(r->Ok_0@)'''),
        ('rejected_iff_tag_fails', '''payload@.len() > 28 ==> ((r is Err) <==>
            aead_open(key@, payload@.subrange(0, 12), payload@.subrange(28, payload@.len() as int), payload@.subrange(12, 28)) is None)'''),
    ]))
    U.struct(ADM, 'AuthProvider', derive=[])
    U.impl('impl AuthProvider', [
        U.fn(ADM, 'AuthProvider', 'authenticate',
             ensures=[
                 ('accepted_iff_verbatim', '''(r is Ok && r->Ok_0 is Some) <==> (bearer_of(*request) is Some && bearer_of(*request)->Some_0.0@ == self.required_token.0@)'''),
                 ('acts_as_configured_identity', 'r is Ok && r->Ok_0 is Some ==> r->Ok_0->Some_0.0 == auth_user(id_view(self.user_id), self.role)'),
                 ('wrong_token_is_an_error', 'bearer_of(*request) is Some && bearer_of(*request)->Some_0.0@ != self.required_token.0@ ==> r is Err'),
                 ('no_token_is_nobody', 'bearer_of(*request) is None ==> r is Ok && r->Ok_0 is None'),
             ]),
        # login hands out the configured token itself: only to a request that already carries it
        U.fn(ADM, 'AuthProvider', 'login',
             subst=[('self.user_id.as_ref().into()', 'vx_arc_from_arc(&self.user_id)', 'R14'), ('"admin".into()', 'vx_arc_from_str("admin")', 'R14')],
             ensures=[('login_only_with_the_admin_token', 'r is Ok ==> bearer_of(*request) is Some && bearer_of(*request)->Some_0.0@ == self.required_token.0@')]),
    ])
    return U
