"""C03 (gone from the repository after the next synchronisation): CaObjects::remove_class -- when a resource class goes away (parent
removed, resources lost, class dropped), its objects are withdrawn from the repositories the CA still knows about.  During a
repository migration the keys of the class still publish in the OLD repository; once no remaining class uses it, that repository
must be remembered as deprecated -- otherwise it is in neither the list of repositories in use nor the list of repositories to
clean, and the certificates, ROAs, manifest and CRL of the removed class stay there for ever."""
from vxlib import Unit
from units import prelude

PUB = 'src/server/ca/publishing.rs'

SPEC = r'''
/// the old repository a class still publishes in during a migration (ResourceClassObjects::old_repo), None outside a migration
pub uninterp spec fn rco_old_repo(c: ResourceClassObjects) -> Option<RepositoryContact>;
impl ResourceClassObjects {
    #[verifier::external_body] pub fn old_repo(&self) -> (r: Option<&RepositoryContact>)
        ensures match r { Some(c) => rco_old_repo(*self) == Some(*c), None => rco_old_repo(*self) is None } { unimplemented!() }
}
/// some class of the CA still publishes in `repo` as its old repository
pub open spec fn still_used(classes: Map<ResourceClassName, ResourceClassObjects>, repo: RepositoryContact) -> bool {
    exists |n: ResourceClassName| #[trigger] classes.contains_key(n) && rco_old_repo(classes[n]) == Some(repo)
}
pub open spec fn deprecated(o: CaObjects, repo: RepositoryContact) -> bool {
    exists |i: int| 0 <= i < o.deprecated_repos@.len() && (#[trigger] o.deprecated_repos@[i]).contact == repo
}
impl CaObjects {
    /// ASSUMED: `self.classes.values().any(|rco| rco.has_old_repo(repo))` (iterator chain)
    #[verifier::external_body] pub fn has_old_repo(&self, old_repo: &RepositoryContact) -> (r: bool)
        ensures r == still_used(self.classes@, *old_repo) { unimplemented!() }
}
'''


def build():
    U = Unit('c03_remove_class', 'C03', 'a removed class leaves no repository behind: an old repository that no remaining class uses is remembered as deprecated')
    prelude.hashmap(U)
    prelude.strings(U)
    U.opaque('ResourceClassName', 'Clone, PartialEq, Eq, Hash')
    U.opaque('RepositoryContact', 'Clone')
    U.opaque('ResourceClassObjects', '')
    U.opaque('CaHandle', 'Clone')
    U.struct(PUB, 'DeprecatedRepository', derive=[])
    U.struct(PUB, 'CaObjects', derive=[])
    U.add(SPEC)
    km = 'obeys_key_model::<ResourceClassName>()'
    U.impl('impl DeprecatedRepository', [U.fn(PUB, 'DeprecatedRepository', 'new', ensures=[('fields', 'r.contact == contact && r.clean_attempts == clean_attempts')])])
    U.impl('impl CaObjects', [
        U.fn(PUB, 'CaObjects', 'deprecate_repo_if_no_longer_used', ensures=[
            ('remembered_unless_still_used', '!still_used(old(self).classes@, old_repo) ==> deprecated(*final(self), old_repo)'),
            ('classes_untouched', 'final(self).classes == old(self).classes'),
            ('earlier_entries_kept', 'forall |r: RepositoryContact| deprecated(*old(self), r) ==> deprecated(*final(self), r)')],
            ghost=[(('body_end',), '''proof {
            if !still_used(old(self).classes@, old_repo) { assert(self.deprecated_repos@[self.deprecated_repos@.len() - 1].contact == old_repo); }
            assert forall |r: RepositoryContact| deprecated(*old(self), r) implies deprecated(*self, r) by {
                let i = choose |i: int| 0 <= i < old(self).deprecated_repos@.len() && (#[trigger] old(self).deprecated_repos@[i]).contact == r;
                assert(self.deprecated_repos@[i] == old(self).deprecated_repos@[i]);
            }
        }''')]),
        U.fn(PUB, 'CaObjects', 'remove_class', requires=[('km', km)],
             closures={0: {'header': '|rco: &ResourceClassObjects| -> (o: Option<&RepositoryContact>)',
                           'ensures': 'match o { Some(c) => rco_old_repo(*rco) == Some(*c), None => rco_old_repo(*rco) is None }'}},
             ensures=[
                 ('the_class_is_gone_the_others_stay', 'final(self).classes@ == old(self).classes@.remove(*class_name)'),
                 ('its_old_repository_is_not_forgotten', '''old(self).classes@.contains_key(*class_name) && rco_old_repo(old(self).classes@[*class_name]) is Some
                        && !still_used(old(self).classes@.remove(*class_name), rco_old_repo(old(self).classes@[*class_name])->Some_0)
                        ==> deprecated(*final(self), rco_old_repo(old(self).classes@[*class_name])->Some_0)'''),
             ]),
    ])
    return U
