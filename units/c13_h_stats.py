from units.c13_handlers import build_file


def extra(U):
    U.outside('impl HttpServer { pub fn server_info(&self) -> ServerInfo { unimplemented!() } }')
    U.add('pub assume_specification [HttpServer::server_info] (s: &HttpServer) -> (r: ServerInfo);')


def build():
    return build_file('stats.rs', 'c13_h_stats', 'statistics endpoints use only the statistics facade methods', skip=(), extra=extra)
